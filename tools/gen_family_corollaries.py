#!/usr/bin/env python3
"""tools/gen_family_corollaries.py — writes lean/Family/Cxx.lean: for every theorem of lean/Props/Cxx.lean that carries a
schema-level guard (`detB S = true`, `compatTransB S = true`, `TextLoop S`, `SchemaOk P.S`, …) the same statement with the
guards replaced by `S ∈ familySchemas` (the bundled schema family, lean/Gen/SchemaFacts.lean, regenerated from the
running library), proved by applying the theorem to the kernel-checked facts.  The statements are copied from the
Props file binder by binder; run again after a Props file changed its guarded theorems (the output is committed).
"""
import os
import re
import sys

LEAN = os.path.join(os.path.dirname(os.path.dirname(os.path.abspath(__file__))), "lean")

# binder type (regex, whole type) → proof term; F = the facts of the schema
OK = "(schemaOk_of_K _ (family_det _ {hS}) (family_fillOk _ {hS}))"
GUARDS = [
    (r"compatTransB S = true", "(family_compatTrans _ {hS})"),
    (r"TextLoop S", "(textLoop_of_B _ (family_textLoop _ {hS}))"),
    (r"(PM\.C11\.)?detB (P\.)?S = true", "(family_det _ {hS})"),
    (r"S\.fillersOKB = true", "(family_fillersOK _ {hS})"),
    (r"S\.wrapOKB = true", "(family_wrapOK _ {hS})"),
    (r"S\.labelsOKB = true", "(family_labelsOK _ {hS})"),
    (r"textStableC S = true", "(family_textStableC _ {hS})"),
    (r"S\.closableB = true", "(family_closable _ {hS})"),
    (r"joinCompatB S = true", "(family_joinCompat _ {hS})"),
    (r"reopenOKB S = true", "(family_reopenOK _ {hS})"),
    (r"textAbsorbB S = true", "(family_textAbsorb _ {hS})"),
    (r"inlineUniformB S = true", "(family_inlineUniform _ {hS})"),
    (r"PM\.FromDom\.leafOkB S = true", "(family_leafOk _ {hS})"),
    (r"PM\.FromDom\.textStableB S = true", "(family_textStable _ hS)"),
    (r"C01\.TextStable S", "(textLoop_of_B _ (family_textLoop _ {hS})).stable"),
    (r"LeafEmpty S", "(leafEmpty_of_B (family_leafEmpty _ {hS}))"),
    (r"LiveSchema S", "(liveSchema_of_ok " + OK + ")"),
    (r"∀ w q, \(\(\(S\.dfa w\)\.edgesOf q\)\.map \(·\.1\)\)\.Nodup", "(det_of_detB _ (family_det _ {hS}))"),
    (r"∀ w, \(\(\(S\.dfa w\)\.edgesOf 0\)\.map \(·\.1\)\)\.Nodup", "(fun w => det_of_detB _ (family_det _ {hS}) w 0)"),
    (r"Det P\.S", "(det_of_detB _ (family_det _ {hS}))"),
    (r"Det S", "(det_of_detB _ (family_det _ {hS}))"),
    (r"LeafOk (P\.)?S", "(leafOk_of_B _ (family_leafOk _ {hS}))"),
    (r"SchemaOk (P\.)?S", OK),
    (r"(FromDom\.)?TextStable (P\.)?S", "(textStable_of_B _ (family_textStable _ hS))"),
    (r"WrapWF S \(S\.dfa t\) q", "(wrapWF_of_ok " + OK + " t q)"),
    (r"buildSchema spec = \.ok S", "@BUILD@"),
    (r"compileSchema spec dfas = \.ok S", "@COMPILE@"),
]

# property → (theorems, uses the DOM sub-family)
TARGETS = {
    "C01": ["addMark_applies", "removeMark_applies"],
    "C04": ["replace_undo_transitive", "replaceAround_undo_bmp", "removeMarkStep_undo", "addMarkStep_undo", "markHistory_undo", "markHistory_undo_bmp",
            "family_step", "family_history_undo", "family_history_undo_run", "opHistory_undo", "structHistory_undo_bmp",
            "structHistory_undo_bmp'", "mixedHistory_undo_bmp",
            "delete_residual", "delete_residual_around", "insertInline_residual", "insertInline_residual_around",
            "replace_residual_of_inv", "replace_residual", "replace_residual_cut",
            "replaceOp_residual", "editHistory_undo_bmp", "editResidual_of'", "editHistory_undo_bmp'",
            "editResidual'_of_hyps", "editHistory_undo", "deleteOp_residual",
            "insertInlineOp_residual", "editHistory_undo'", "insertInlineOp_residual'"],
    "C11": ["fitStep_decreases", "fitLoop_outOfFuel_exact", "fitLoop_terminates", "replaceStep_outOfFuel_cycle",
            "replaceStep_not_outOfFuel", "fit_no_internal_partial", "replaceStep_total_partial", "delete_total",
            "delete_total_respects", "deleteRange_total", "insertInline_total", "fit_emits_wf", "coherent_invariant",
            "inStep_invariant", "delete_emits_wf", "deleteRange_emits_wf", "insertInline_emits_wf",
            "delete_emits_valid_payload", "deleteRange_emits_valid_payload", "delete_emits_payloadValid",
            "deleteRange_emits_payloadValid", "insertInline_emits_valid_payload", "payloadInv_step",
            "fit_emits_valid_payload_of_inv",
            "delete_emitOK", "delete_valid", "deleteRange_emitOK", "deleteRange_valid", "delete_total_valid",
            "deleteRange_total_valid", "replaceRange_valid_delete", "insertInline_emitOK_partial",
            "fit_emitOK_of_inv_partial", "insertInline_valid_partial", "insertInline_total_valid_partial",
            "replace_valid_of_inv_partial", "replaceRange_valid_inline_partial", "replaceRange_valid_of_inv_partial",
            "replaceRangeWith_valid_of_inv_partial", "replaceRangeWith_valid_inline_partial", "aroundPayload_of_norm",
            "insertInline_valid_of_norm", "replace_valid_of_inv_of_norm", "insertInline_valid", "replace_valid_of_inv",
            "fit_emits_valid_payload", "payloadInv_step_gen", "fit_emits_valid_payload_cut", "fit_replace_recorded_valid",
            "delete_recorded_valid", "fit_no_raise_partial", "fit_raise_sites",
            "trivialFit_delete_applies", "delete_applies_flat", "delete_never_raises_flat",
            "fit_step_returns", "startSite_exact", "fit_no_raise_while", "fit_no_raise", "fit_no_raise_emits", "fit_raises_only_at_sites",
            "delete_applies", "delete_never_raises", "deleteRange_applies", "deleteRange_never_raises",
            "replaceRange_delete_applies", "trivialFit_replace_applies", "replace_never_raises_flat",
            "insertInline_never_raises_flat", "replace_applies_direct", "insertInline_never_raises_direct_partial"],
    "C12": ["canJoin_join_applies", "liftTarget_lift_applies_flat", "liftTarget_lift_applies", "insertPoint_insert_applies",
            "dropPoint_drop_applies_closed", "joinPoint_join_applies", "insertPoint_insert_text_applies",
            "insertPoint_insert_marked_top"],
    "C13": ["stepAll_total", "addMark_total", "removeMark_total", "addMark_total_effect", "removeMark_total_effect",
            "fillOutcome_step_wf", "fillOutcome_step_notext"],
    "C15": ["findWrapping_complete", "findWrapping_shortest_complete", "findWrappingTypes_eq",
            "findWrappingTypes_shortest_complete", "findWrappingTypes_sound_shortest", "findWrapping_sound", "createAndFill_valid", "createAndFill_nothing_iff", "createAndFill_raises",
            "createAndFillO_iff", "createAndFill0_iff", "createAndFillDom_iff", "createAndFillO_valid", "createAndFill0_valid",
            "createAndFillDom_valid", "fillBeforeNodes_valid", "fillNodesDom_valid"],
    "C16": ["merge_succeeds_marks", "merge_equiv_marks", "merge_succeeds_replace"],
    "C06": ["buildSchema_content_correct", "buildSchema_live", "buildSchema_completable", "buildSchema_wellFormed",
            "buildSchema_parses", "buildSchema_tables", "buildSchema_nodeTable", "buildSchema_content_spec"],
    "C07": ["nodeTable_spec", "inlineContent_iff", "leaf_spec", "top_text_spec", "attrs_defaults_spec"],
    "C14": ["excluded_lt", "excluded_spec", "excluded_cases", "markSet_spec", "markSet_lt", "markType_fields",
            "buildSchema_excluded", "buildSchema_markSet"],
    "C19": ["placement_match_coherent", "placement_content_prefix", "placement_finish_valid", "parse_valid",
            "walk_events_admissible", "parse_no_internal", "walk_no_internal"],
}
# theorems about a `Parser` whose rule guard (`P.rulesOk`) is discharged too: for the parsers `DOMParser.from_schema(S)` of
# the family schemas (lean/Gen/Parsers.lean); emitted with the suffix `_from_schema`
PARSER_TARGETS = {"C19": ["parse_no_internal", "walk_no_internal"]}
EXTRA = {}   # property → hand-written Lean text appended before `end`


def split_binders(sig):
    """sig = text after the theorem name up to the proof: returns ([binder texts], conclusion)"""
    i, n, depth, out, start = 0, len(sig), 0, [], None
    close = {"(": ")", "{": "}", "[": "]", "⦃": "⦄"}
    while i < n:
        c = sig[i]
        if depth == 0 and c == ":":
            return out, sig[i + 1:].strip()
        if c in close:
            if depth == 0:
                start = i
            depth += 1
        elif c in close.values():
            depth -= 1
            if depth == 0:
                out.append(sig[start:i + 1])
        i += 1
    raise ValueError("no conclusion: " + sig[:80])


def theorem_sig(src, name):
    m = re.search(r"^theorem " + re.escape(name) + r"(?=[\s({\[])", src, flags=re.M)
    if not m:
        raise KeyError(name)
    rest = src[m.end():]
    e = re.search(r":=\s*(by\b|\n|fun\b|⟨|[A-Za-z_(])", rest)
    # skip `let x := …` inside the statement
    pos = 0
    while True:
        e = re.search(r":=", rest[pos:])
        at = pos + e.start()
        before = rest[:at].rstrip()
        if re.search(r"\blet\s+\S+(\s*:\s*[^\n]*)?$", before):
            pos = at + 2
            continue
        return rest[:at]


def header_opens(src):
    ns = re.search(r"^namespace\s+(\S+)", src, flags=re.M).group(1)
    opens = list(dict.fromkeys(re.sub(r"\s+in$", "", o) for o in re.findall(r"^open .*$", src, flags=re.M)))
    return ns, opens


def gen(prop):
    src = open(os.path.join(LEAN, "Props", prop + ".lean")).read()
    ns, opens = header_opens(src)
    out = ["/-",
           "  Family/%s.lean — the guarded theorems of Props/%s.lean for the bundled schema family: every schema-level" % (prop, prop),
           "  hypothesis is discharged by the kernel-checked facts of lean/Gen/SchemaFacts.lean (regenerated on every run from the",
           "  schemas the library compiles); what remains are the hypotheses about the document / step / DOM at hand.",
           "  Written by tools/gen_family_corollaries.py from the statements in Props/%s.lean." % prop,
           "-/",
           "import Props.%s" % prop, "import Props.Family", "@IMPORTS@"]
    out += EXTRA.get(prop, {}).get("imports", [])
    out += ["namespace PM.Family.%s" % prop]
    out += opens + ["open %s" % ns, "open PM.Gen PM.Family PM.FromDom", ""]
    out += EXTRA.get(prop, {}).get("pre", [])
    for name, with_rules in [(n, False) for n in TARGETS[prop]] + [(n, True) for n in PARSER_TARGETS.get(prop, [])]:
        sig = theorem_sig(src, name)
        binders, concl = split_binders(sig)
        if any(re.search(r"WrapWF S d q", b) for b in binders):
            # the automaton asked about is the content automaton of a node type of the schema
            wrap_d = True
            binders = ["(d : Dfa)" if b == "(d : Dfa)" else re.sub(r"\bd\b", "(S.dfa t)", b) for b in binders]
            concl = re.sub(r"\bd\b", "(S.dfa t)", concl)
        else:
            wrap_d = False
        new_binders, args = [], []
        subject = None   # "S" or "P.S"
        used_dom = False
        for b in binders:
            inner = b[1:-1].strip()
            if b[0] in "{[⦃":
                new_binders.append(b)
                continue
            names, ty = inner.split(":", 1)
            names, ty = names.split(), " ".join(ty.split())
            if wrap_d and b == "(d : Dfa)":
                new_binders.append("(t : TypeId)")
                args.append("(S.dfa t)")
                continue
            hit = None
            if with_rules and ty == "P.rulesOk = true":
                args += ["(family_rulesOk P hS).1"] * len(names)
                continue
            for pat, term in GUARDS:
                if re.fullmatch(pat, ty):
                    hit = term
                    break
            if hit in ("@BUILD@", "@COMPILE@"):
                new_binders.append("(hS : (spec, S) ∈ familySpecs)")
                args.append("(family_builds (spec, S) hS)" if hit == "@BUILD@" else "(family_compiles (spec, S) hS)")
                if hit == "@COMPILE@":
                    new_binders = [x for x in new_binders if not re.fullmatch(r"\{dfas : List Dfa\}", x)]
                    concl = re.sub(r"\bdfas\b", "(S.nodes.toList.map (·.dfa))", concl)
                continue
            if hit is not None:
                if "family_textStable _" in hit:        # (not `family_textStableC`, which holds of the whole family)
                    used_dom = True
                args += [hit] * len(names)
                continue
            new_binders.append(b)
            args += names
            if ty == "Schema" and subject is None:
                subject = names[0]
                new_binders.append("@HS@")
            elif ty == "Parser" and subject is None:
                subject = names[0] + ".S"
                new_binders.append("@HS@")
        fam = "domFamilySchemas" if used_dom else "familySchemas"
        HS = "(domFamily_sub _ hS)" if used_dom else "hS"
        if with_rules:
            assert not used_dom and subject == "P.S"
            HS = "(family_rulesOk P hS).2"
            new_binders = ["(hS : P ∈ familyParsers)" if b == "@HS@" else b for b in new_binders]
        new_binders = ["(hS : %s ∈ %s)" % (subject, fam) if b == "@HS@" else b for b in new_binders]
        if any("family_compiles" in a for a in args):
            # the automata are those of the compiled schema
            new_binders = [re.sub(r"\bdfas\b", "(S.nodes.toList.map (·.dfa))", b) for b in new_binders]
        args = [a.format(hS=HS) if "{hS}" in a else a for a in args]
        out.append("/-- `%s.%s` with its schema guards discharged for the bundled schema family -/" % (ns, name))
        # keep the original line structure of the binders roughly: wrap at ~110 columns
        lines, cur = [], "theorem %s%s" % (name, "_from_schema" if with_rules else "")
        for b in new_binders:
            if len(cur) + 1 + len(b) > 112:
                lines.append(cur)
                cur = "    " + b
            else:
                cur += " " + b
        lines.append(cur + " :")
        out += lines
        out.append("    " + "\n    ".join(l.strip() for l in concl.splitlines()) + " :=")
        call, cur = [], "  %s.%s" % (ns, name)
        for a in args:
            if len(cur) + 1 + len(a) > 112:
                call.append(cur)
                cur = "    " + a
            else:
                cur += " " + a
        call.append(cur)
        out += call
        out.append("")
    out += EXTRA.get(prop, {}).get("post", [])
    out.append("end PM.Family.%s" % prop)
    text = "\n".join(out) + "\n"
    # only the generated modules this file uses: one per guard (a guard that fails breaks only the checks that use it)
    used = sorted(set(re.findall(r"\bfamily_([A-Za-z]+) _", text)))
    imports = ["import Gen.Guards.%s" % (g[0].upper() + g[1:]) for g in used]
    if "family_builds" in text or "family_compiles" in text:
        imports.append("import Gen.SchemaBuilds")
    if "family_rulesOk" in text:
        imports.append("import Gen.Parsers")
    text = text.replace("@IMPORTS@", "\n".join(imports or ["import Gen.Schemas"]))
    os.makedirs(os.path.join(LEAN, "Family"), exist_ok=True)
    open(os.path.join(LEAN, "Family", prop + ".lean"), "w").write(text)


EXTRA["C15"] = {"pre": [
    "theorem leafEmpty_of_B {S : Schema} (h : leafEmptyB S = true) : LeafEmpty S := by",
    "  intro nt hnt hl",
    "  simp only [leafEmptyB, List.all_eq_true, Bool.or_eq_true, Bool.not_eq_eq_eq_not, Bool.not_true] at h",
    "  rcases h nt hnt with h1 | h1",
    "  · rw [h1] at hl; cases hl",
    "  · exact h1",
    "",
    "theorem liveSchema_of_ok {S : Schema} (hok : FromDom.SchemaOk S) : LiveSchema S := by",
    "  intro nt hnt",
    "  obtain ⟨t, ht, rfl⟩ := List.getElem_of_mem hnt",
    "  have ht' : t < S.nodes.size := by simpa using ht",
    "  have hd : S.dfa t = S.nodes.toList[t].dfa := by simp [Schema.dfa, Schema.nodeType, ht']",
    "  rw [← hd]",
    "  refine ⟨hok.start t ht', fun q hq => ⟨hok.det t q, fun e he => hok.edge t q e he, ?_⟩⟩",
    "  have := hok.fill t q hq",
    "  intro hn; rw [hn] at this; cases this",
    "",
    "theorem wrapWF_of_ok {S : Schema} (hok : FromDom.SchemaOk S) (t q : Nat) : WrapWF S (S.dfa t) q := by",
    "  refine ⟨fun e he => (hok.edge t q e he).2, fun nt hnt e he => ?_⟩",
    "  obtain ⟨w, hw, rfl⟩ := List.getElem_of_mem hnt",
    "  have hw' : w < S.nodes.size := by simpa using hw",
    "  have hd : S.dfa w = S.nodes.toList[w].dfa := by simp [Schema.dfa, Schema.nodeType, hw']",
    "  rw [← hd] at he",
    "  exact (hok.edge w 0 e he).2",
    "",
]}


if __name__ == "__main__":
    for p in (sys.argv[1:] or sorted(TARGETS)):
        gen(p)
        print("wrote lean/Family/%s.lean" % p)
