#!/bin/bash
# tools/mkreference.sh [commit]   (re)create /verif/reference/prosemirror_ref from /repo at <commit> (default HEAD)
# The reference is a frozen copy of the library as it was when the open known findings were recorded; a known-finding
# class matches a violation only when this copy shows the same behaviour on the same input (harness/reference.py).
set -e
c="${1:-HEAD}"
rm -rf /verif/reference/prosemirror_ref /tmp/mkref_$$
mkdir -p /verif/reference /tmp/mkref_$$
git -C /repo archive "$c" prosemirror | tar -x -C /tmp/mkref_$$
mv /tmp/mkref_$$/prosemirror /verif/reference/prosemirror_ref
rm -rf /tmp/mkref_$$ /verif/reference/prosemirror_ref/test_builder /verif/reference/prosemirror_ref/py.typed
find /verif/reference/prosemirror_ref -name '*.py' -print0 | xargs -0 sed -i -E 's/^(\s*)(from|import) prosemirror([. ])/\1\2 prosemirror_ref\3/'
git -C /repo rev-parse "$c" > /verif/reference/COMMIT
echo "reference = $(cat /verif/reference/COMMIT)"
