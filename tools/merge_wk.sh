#!/bin/bash
# tools/merge_wk.sh <branch> "<message>"   merge a work-package branch into main: merge, regenerate the aggregator files,
# report files that still carry conflict markers (resolve those by hand), otherwise commit
b="$1"; msg="$2"
cd /verif
git merge --no-edit "$b" 2>&1 | grep -i "conflict"
# evidence files are rewritten by every run: keep ours
for f in $(git diff --name-only --diff-filter=U | grep "^evidence/"); do git checkout --ours -- "$f"; git add "$f"; done
python3 tools/regen_lean_roots.py >/dev/null
git show 4e0bd14:lean/Proofs.lean > lean/Proofs.lean
bad=$(grep -rl "^<<<<<<< " --include="*.lean" --include="*.py" --include="*.toml" --include="*.md" --include="*.json*" lean/PM lean/Proofs lean/Props lean/Driver lean/*.lean lean/lakefile.toml harness tools 2>/dev/null </dev/null)
if [ -n "$bad" ]; then echo "UNRESOLVED: $bad"; exit 1; fi
git add -A; git commit -qm "$msg" 2>/dev/null; git log --oneline | head -1
