#!/usr/bin/env python3
"""tools/splice_asbuilt.py [dir]   replace the content of the `<!-- ASBUILT Cxx -->` blocks of DESIGN.md §5 by the files
<dir>/Cxx.md (default /tmp/asbuilt) written by the documentation agents (tools/DOC_BRIEF.md)."""
import os, re, sys
V = os.path.dirname(os.path.dirname(os.path.abspath(__file__)))
d = sys.argv[1] if len(sys.argv) > 1 else "/tmp/asbuilt"
p = os.path.join(V, "DESIGN.md")
s = open(p).read()
done = []
for f in sorted(os.listdir(d)):
    m = re.fullmatch(r"(C\d\d)\.md", f)
    if not m:
        continue
    pid = m.group(1)
    a, b = f"<!-- ASBUILT {pid} -->", f"<!-- /ASBUILT {pid} -->"
    new = open(os.path.join(d, f)).read().strip("\n")
    new = new.replace(a, "").replace(b, "").strip("\n")
    if len(new) < 400:
        print("skipped (too short):", pid); continue
    i, j = s.index(a) + len(a), s.index(b)
    s = s[:i] + "\n" + new + "\n" + s[j:]
    done.append(pid)
open(p, "w").write(s)
print("spliced", done)
