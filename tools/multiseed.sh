#!/bin/bash
# tools/multiseed.sh "<seeds>" [jobs]   every property's quick check on the unchanged tree for several seeds; prints one line
# per run and a summary of the runs that did not exit 0.  Meant for `vp run -- tools/multiseed.sh "3 4 5 6"` (builds first).
seeds="${1:-3 4 5}"; jobs="${2:-4}"
cd "$(dirname "$0")/.."
(cd lean && lake build PM Proofs Props pmdriver 2>&1 | grep -E "error|✖" | head -5)
mkdir -p /tmp/multiseed_$$
for s in $seeds; do
  for i in 01 02 03 04 05 06 07 08 09 10 11 12 13 14 15 16 17 18 19 20; do
    echo "$s C$i"
  done
done | xargs -P "$jobs" -L 1 bash -c 'VERIF_SEED=$0 ./check $1 quick > /tmp/multiseed_'$$'/$1_$0.log 2>&1; echo "seed=$0 $1 exit=$? $(tail -1 /tmp/multiseed_'$$'/$1_$0.log | cut -c1-160)"'
echo "---- not exit 0:"
grep -L "violations=0" /tmp/multiseed_$$/*.log 2>/dev/null
grep -l "VIOLATION" /tmp/multiseed_$$/*.log 2>/dev/null
