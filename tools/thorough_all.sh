#!/bin/bash
# tools/thorough_all.sh [jobs]   every property's thorough check once on the unchanged tree (seed from VERIF_SEED or 0); prints
# one line per run and lists the runs that did not exit 0.  Meant for `vp run -- tools/thorough_all.sh 5` (builds first).
jobs="${1:-5}"
cd "$(dirname "$0")/.."
(cd lean && lake build PM Proofs Props pmdriver 2>&1 | grep -E "error|✖" | head -5)
mkdir -p /tmp/thorough_$$
for i in 11 19 04 12 13 17 09 01 02 03 05 06 07 08 10 14 15 16 18 20; do echo "C$i"; done | \
  xargs -P "$jobs" -L 1 bash -c './check $0 thorough > /tmp/thorough_'$$'/$0.log 2>&1; echo "$0 exit=$? $(tail -1 /tmp/thorough_'$$'/$0.log | cut -c1-170)"'
echo "---- VIOLATION lines:"
grep -h "^VIOLATION" /tmp/thorough_$$/*.log | head -20
