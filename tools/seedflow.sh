#!/bin/bash
# tools/seedflow.sh <Cxx> [suffix] [srcdir-name]  confirm the sub-agent's changes, drop its worktree, run the property's check on each
p="$1"; suf="$2"; src="${3:-_seed}"
cd /verif
python3 tools/ingest_seed.py "$p" "/tmp/seed_$p/$src" "$suf" 2>&1 | tail -4
mkdir -p /tmp/seed_archive && cp -r "/tmp/seed_$p/$src" "/tmp/seed_archive/$p$suf" 2>/dev/null
git -C /repo worktree remove --force "/tmp/seed_$p"
names=$(ls seeded | grep "^$p-${suf}m")
case "$p" in C06|C10) wt="";; *) wt="--worktree";; esac
[ -n "$names" ] && python3 tools/seeded.py --worktree --seeds 1,2 $names 2>&1 | tail -4
