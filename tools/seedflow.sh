#!/bin/bash
# tools/seedflow.sh <Cxx> [suffix]   confirm the sub-agent's changes, drop its worktree, run the property's check on each
p="$1"; suf="$2"
cd /verif
python3 tools/ingest_seed.py "$p" "/tmp/seed_$p/_seed" "$suf" 2>&1 | tail -4
mkdir -p /tmp/seed_archive && cp -r "/tmp/seed_$p/_seed" "/tmp/seed_archive/$p$suf" 2>/dev/null
git -C /repo worktree remove --force "/tmp/seed_$p"
names=$(ls seeded | grep "^$p-${suf}m")
[ -n "$names" ] && python3 tools/seeded.py --worktree $names 2>&1 | tail -4
