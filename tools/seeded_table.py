#!/usr/bin/env python3
"""tools/seeded_table.py — write seeded/README.md and refresh the table between the SEEDED-TABLE markers of
DESIGN.md from seeded/<name>/meta.json and result-quick.json (written by tools/seeded.py)."""
import json
import os
import re

VERIF = os.path.dirname(os.path.dirname(os.path.abspath(__file__)))
SEEDED = os.path.join(VERIF, "seeded")


def first_line(meta):
    notes = (meta.get("notes") or "").strip().splitlines()
    for l in notes:
        l = l.strip().lstrip("#").strip()
        if l:
            l = re.sub(r"^\**\s*(mut|change)\s*\d+\s*[—:\-–]*\s*", "", l, flags=re.I).strip("* ")
            return l[:170]
    return ""


def main():
    rows = []
    for name in sorted(os.listdir(SEEDED)):
        d = os.path.join(SEEDED, name)
        if not os.path.exists(os.path.join(d, "meta.json")):
            continue
        meta = json.load(open(os.path.join(d, "meta.json")))
        res = {}
        if os.path.exists(os.path.join(d, "result-quick.json")):
            res = json.load(open(os.path.join(d, "result-quick.json")))
        runs = res.get("results", {})
        caught = [k for k, v in runs.items() if v["exit"] == 1]
        kinds = sorted({k2 for v in runs.values() for k2 in v.get("kinds", [])})
        verdict = ("%d/%d runs" % (len(caught), len(runs))) if runs else "not run"
        by = ", ".join(sorted({k.split("@")[0] for k in caught})) or "—"
        how = ", ".join(kinds) if kinds else "—"
        if any(v.get("no_witness") for v in runs.values()):
            how += " (some runs: obligation broken, no failing input found)"
        rows.append((name, first_line(meta), by, verdict, how))
    lines = ["| change | what it does (sub-agent's own first line) | caught by | quick runs reporting it | violation kinds |", "|---|---|---|---|---|"]
    for r in rows:
        lines.append("| " + " | ".join(x.replace("|", "\\|") for x in r) + " |")
    table = "\n".join(lines)
    open(os.path.join(SEEDED, "README.md"), "w").write(
        "# Seeded changes\n\nEach directory holds `patch.diff` (apply with `git -C /repo apply`, undo with `git -C /repo checkout -- .`), "
        "`demo.py` (the sub-agent's demonstration), `meta.json` (confirmation record of tools/ingest_seed.py) and "
        "`result-quick.json` (what the registered quick check reported with the change applied).\n\n" + table + "\n")
    p = os.path.join(VERIF, "DESIGN.md")
    s = open(p).read()
    if "<!-- SEEDED-TABLE-BEGIN -->" in s:
        a = s.index("<!-- SEEDED-TABLE-BEGIN -->") + len("<!-- SEEDED-TABLE-BEGIN -->")
        b = s.index("<!-- SEEDED-TABLE-END -->")
        s = s[:a] + "\n" + table + "\n" + s[b:]
        open(p, "w").write(s)
    print(len(rows), "rows")


if __name__ == "__main__":
    main()
