#!/usr/bin/env python3
"""tools/ingest_seed.py <Cxx> <dir with mutN.diff demoN.py notes.md> [suffix]

Confirms a seeded change produced by a sub-agent in a scratch worktree of /repo (never in /repo itself):
the patch applies to a clean checkout of HEAD, touches only prosemirror/, the pinned test-suite passes
with it, and the demonstration's output differs between the clean and the changed tree.  Confirmed
changes are stored as /verif/seeded/<Cxx>-<suffix>m<N>/ {patch.diff, demo.py, meta.json}.
"""
import json
import os
import re
import subprocess
import sys

VERIF = os.path.dirname(os.path.dirname(os.path.abspath(__file__)))


def sh(cmd, **kw):
    return subprocess.run(cmd, shell=True, capture_output=True, text=True, **kw)


def main():
    prop, src = sys.argv[1], sys.argv[2]
    suffix = sys.argv[3] if len(sys.argv) > 3 else ""
    notes = open(os.path.join(src, "notes.md")).read() if os.path.exists(os.path.join(src, "notes.md")) else ""
    wt = f"/tmp/confirm_{prop}{suffix}"
    sh(f"git -C /repo worktree remove --force {wt}")
    assert sh(f"git -C /repo worktree add -q --detach {wt} HEAD").returncode == 0
    env = dict(os.environ, PYTHONPATH=wt, PYTHONDONTWRITEBYTECODE="1")
    try:
        n = 1
        while os.path.exists(os.path.join(src, f"mut{n}.diff")):
            patch = os.path.join(src, f"mut{n}.diff")
            demo = os.path.join(src, f"demo{n}.py")
            name = f"{prop}-{suffix}m{n}"
            files = re.findall(r"^\+\+\+ b/(\S+)", open(patch).read(), re.M)
            ok_scope = bool(files) and all(f.startswith("prosemirror/") and "/tests/" not in f for f in files)
            demo_src = open(demo).read().replace(f"/tmp/seed_{prop}", wt) if os.path.exists(demo) else ""
            open(f"{wt}/_demo.py", "w").write(demo_src)
            clean = sh(f"cd {wt} && timeout 120 /venv/bin/python _demo.py", env=env)
            ap = sh(f"git -C {wt} apply {patch}")
            rec = {"property": prop, "name": name, "files": files, "scope_ok": ok_scope, "applies": ap.returncode == 0}
            if ap.returncode == 0:
                t = sh(f"cd {wt} && timeout 900 /venv/bin/python -m pytest -q -p no:cacheprovider -x 2>&1 | tail -3", env=env)
                rec["tests_tail"] = t.stdout.strip().splitlines()[-1:] if t.stdout.strip() else []
                rec["tests_pass"] = bool(re.search(r"\b442 passed\b", t.stdout)) and "failed" not in t.stdout
                mut = sh(f"cd {wt} && timeout 120 /venv/bin/python _demo.py", env=env)
                rec["demo_clean"] = (clean.stdout + clean.stderr)[-1500:]
                rec["demo_mutated"] = (mut.stdout + mut.stderr)[-1500:]
                rec["demo_differs"] = (clean.stdout, clean.returncode) != (mut.stdout, mut.returncode)
                sh(f"git -C {wt} checkout -- prosemirror")
            rec["confirmed"] = bool(rec.get("applies") and ok_scope and rec.get("tests_pass") and rec.get("demo_differs"))
            print(name, {k: rec.get(k) for k in ("applies", "scope_ok", "tests_pass", "demo_differs", "confirmed")}, rec.get("tests_tail"))
            if rec["confirmed"]:
                d = os.path.join(VERIF, "seeded", name)
                os.makedirs(d, exist_ok=True)
                open(os.path.join(d, "patch.diff"), "w").write(open(patch).read())
                open(os.path.join(d, "demo.py"), "w").write(open(demo).read().replace(f"/tmp/seed_{prop}", "/repo"))
                m = re.search(rf"(?ms)^#+[^\n]*(?:mut\s*{n}|change\s*{n}|{n}[.:)])[^\n]*\n(.*?)(?=^#+[^\n]*(?:mut\s*{n+1}|change\s*{n+1}|{n+1}[.:)])|\Z)", notes, re.I)
                rec["notes"] = (m.group(0) if m else notes)[:3000]
                rec["origin"] = "fresh sub-agent given only the property record and a scratch worktree; confirmed by tools/ingest_seed.py"
                json.dump(rec, open(os.path.join(d, "meta.json"), "w"), indent=1)
            n += 1
    finally:
        sh(f"git -C /repo worktree remove --force {wt}")


if __name__ == "__main__":
    main()
