#!/usr/bin/env python3
"""Regenerates MANIFEST.json from the table below (kept in one place so it stays valid)."""
import json, os, re
V = os.path.dirname(os.path.dirname(os.path.abspath(__file__)))

T = ("Trusted: Lean kernel (+ propext, Classical.choice, Quot.sound), the hand-written model tied to /repo by differential "
     "sampling on every run, the harness (generators, codec, oracles). ")

CLAIMED = {
 "C01": dict(
   technique="Lean 4 theorems apply_valid (whatever apply returns for a valid document and valid payload is valid, all eight step kinds) and apply_no_internal (a step with a well-formed payload never ends in the internal-error outcome, no hypothesis on positions) over the executable model of Step.apply; exact differential correspondence of Step.apply incl. JSON-decoded, ill-formed and unordered steps; check() + independent spec validator as oracle",
   text="27 kernel-checked theorems (Props/C01.lean; Proofs/ReplaceValid, StepValid, NoInternal, MarkupSuccess, MarkSuccess): validity of every result, absence of the internal-error outcome under the decidable payload condition StepWF (each hypothesis shown necessary by an example reproduced on the real code), and success characterisations (node-markup steps apply iff the parent allows the marks; range mark steps always apply under TextLoop). The model is tied to the code on generated (schema, document, step) cases every run; any non-ValueError exception for in-document positions is a violation.",
   note=T + "Guards: payload validity (`openValid`), `TextStable`/`TextLoop` for mark steps (counterexample schema `text?` evaluated in model and code), `StepWF` (slice open depths within its spines, insert within the slice). Open finding C01-insert-inside-text (genuine, upstream too): a replace-around step that inserts inside a text of its slice can return a silently invalid document; apply_valid's payload condition (the slice with the gap content in place is valid) excludes exactly these steps. For the bundled schema family the schema-level guards are themselves theorems: the schemas are regenerated as Lean data from the running library on every run and the guards evaluated by the kernel (lean/Gen, lean/Family: closed corollaries without schema hypotheses).",
   design="§5 C01"),
 "C02": dict(
   technique="Lean 4 theorems: replace = token splice, slice = token range with open depths, size arithmetic, normal form, token injectivity, re-insertion SUCCEEDS and is the identity (reinsert_succeeds); the Fragment constructors and copy-on-write operations (from_array, from_, append, cut, cut_by_index, replace_child, add_to_start/end, eq) modelled with the stored size, so that a stale cache is representable, and proved at token level — over structural-recursion models; exact differential correspondence incl. ranges that end before they start, unjoined and wrongly-sized fragments",
   text="{n} kernel-checked theorems (Props/C02.lean, ~5 k lines of supporting proofs in Proofs/TokCore, ReplaceToks, Reinsert, FragOps) about the executable model of Fragment / Node.slice / replace for unbounded trees and every schema; re-insertion of a cut slice is proved to apply and to give back the document for every valid normal-form document. Exact correspondence of slice / cut / replace / the constructors and a token-level oracle written independently of the model on every run.",
   note=T + "Guards: normal form (documents with adjacent same-markup text exist only via hand-written JSON), pair-aligned positions (a cut inside a surrogate pair is a ValueError in code and model).",
   design="§5 C02"),
 "C03": dict(
   technique="Lean 4 theorems: for every step kind the size delta is the map's delta and every old token outside the replaced ranges is found at the mapped position, for BOTH association sides, for single steps and for whole histories through Transform.mapping (mapFold); the `deleted` flag characterised exactly (guard noTouch on the right side, with counterexample), monotonicity, left image never right of right image, a surviving token keeps width one; exact correspondence of get_map, Mapping.map and map_result through histories; per-position oracles on primitive and emitted steps",
   text="{n} kernel-checked theorems (Props/C03.lean; Proofs/StepToks, StepMap, StepMapLeft, StepMapHist) on top of the token-level semantics of all eight step kinds for unbounded documents, incl. the last sentence of the property for all step kinds and for composed mappings of whole histories.",
   note=T + "Guard of the replace-around theorems: not (empty gap at the end of the range with slice content after it) — the excluded shape is a recorded finding (C03-touching-empty-gap), no library operation emits it.",
   design="§5 C03"),
 "C04": dict(
   technique="Lean 4 theorems: history bookkeeping invariant for any sequence of attempted steps; inverse maps; EXACT UNDO INCLUDING SUCCESS of every step kind (replace_undo with guard sidesCompatible, replace-around with gapFitsBack / structure, attribute, doc-attribute, node-mark, range mark steps with exact iff-guards); invert succeeds whenever apply did (invert_ok_of_apply); composition to whole histories; and for histories BUILT THROUGH THE TRANSFORM API: the steps emitted by split / join / lift / wrap / set_node_markup / set_block_type / mark operations / deletions satisfy the per-step guard (…Guard_family, delete_residual), giving opHistory_undo, structHistory_undo_bmp and editHistory_undo (editing histories — structural edits, node-level edits, mark operations, deletions, typing, pasted slices — undone exactly under hypotheses about the operations' arguments only, plus two decidable run-level ones); guards tied exactly to the real code; histories replayed and undone",
   text="{n} kernel-checked theorems (Props/C04.lean; ~12 k lines in Proofs/Undo*, Reinsert, MarkupSuccess, MarkUndo, MarkPlanUndo*, MarkHistory, HistoryUndo, InvertOk*, OpGuard*, OpHistory): the inverse of an applied step applies and restores the document, for all documents and slices, under explicit decidable guards each shown necessary by a counterexample theorem reproduced on the real code (recorded findings: non-transitive join, text gap, structure flag incl. wrap with a leaf wrapper, node marks, same-type mark order); composed to histories of operations.",
   note=T + "The guards are Bool predicates of the model (PM/UndoGuard, MarkUndoGuard, OpGuard) compared exactly with the same quantities computed from the real code on every generated case; guard true and real undo failing would be reported. Left as hypotheses of editHistory_undo: the decidable run hypothesis unplacedWfRun for slices the Fitter has to open and normal form of the emitted slice for non-deletions (both evaluated by the tie), BMP documents (pair-alignment is model-only), flatInline and the same-type guard for mark operations (open finding), set_block_type to non-plain types. For the bundled schema family the schema-level guards are themselves theorems: the schemas are regenerated as Lean data from the running library on every run and the guards evaluated by the kernel (lean/Gen, lean/Family: closed corollaries without schema hypotheses).",
   design="§5 C04"),
 "C05": dict(
   technique="Lean 4 round-trip theorems fromJson(toJson x) = x for marks, nodes (any depth), fragments, slices and the eight step kinds, attribute defaulting, registry; exact correspondence of to_json/from_json through real json.dumps/loads; aliasing probe; registry probed from a fresh interpreter; malformed-JSON stream",
   text="10 kernel-checked theorems (Props/C05.lean) over a model of the JSON forms for unbounded documents; real to_json / from_json compared both ways on generated objects incl. structured attribute values.",
   note=T + "Python's json/str encoding is modelled as the identity on JSON data. 'Does not alias live attribute objects' is object identity, outside a pure model: decided by the mutation probe only.",
   design="§5 C05"),
 "C06": dict(
   technique="Lean 4 theorems compile_accepts / compile_live: for EVERY expression the automaton produced by the model of the real compiler (parser AST, nfa, null_from, dfa, BFS numbering) accepts exactly the expression's language and keeps exactly the extendable prefixes alive; the dead-end rule stated on the regular expression itself (DeadEndSpec; compile_deadEnd_iff_spec); parse_agrees (the code's parser reads every plain-number expression as the spec reader does); schema construction accepts exactly the well-formed, dead-end-free specs (buildSchema_accepts_iff_spec) and refuses with the first failing check in a proved order (buildSchema_first_error); the model is tied exactly to the real compiler and constructor (AST, NFA, closures, automaton, accept / kind of refusal) on every generated expression and spec; additionally a verified certificate checker re-proves equivalence by the kernel for the bundled expressions against the automata dumped from the running code (regenerated lean/Gen/DfaCerts.lean), and buildSchema spec = the real constructor's output is kernel-checked for every family schema (lean/Gen/SchemaBuilds)",
   text="{n} kernel-checked theorems (Props/C06.lean; Proofs/Compile*.lean, Proofs/Regex.lean, Proofs/SpecParse.lean; semantics = Mathlib RegularExpression.matches') for all expressions and sequences of unbounded length, plus ~50 regenerated certificate theorems per run; schema construction (buildSchema) accepts exactly the well-formed, live specs and its automata accept the specified languages. The proof of the general theorem exposed two defects of the pinned code (`{0,}` loop on a shared node; local dead-end check), both repaired.",
   note=T + "The grammar reader specParse (60 lines, total) is the specification of 'the expression read as a regular expression'; PlainNumbers (what Python's int() accepts beyond ASCII digits) is tied, not proved. The spec-level dead-end search is proved correct whenever it answers and guaranteed to answer within an exponential bound (reachFuel).",
   design="§5 C06"),
 "C07": dict(
   technique="Lean 4 theorems: valid_content / check / can_replace / can_replace_with / can_append / create_checked equal the definition of validity over the spliced child sequence; node-level tables of a compiled schema follow from the spec (compileSchema); exact correspondence of all predicates, of create_checked and of schema construction field by field",
   text="18 kernel-checked theorems (Props/C07.lean) for arbitrary automata and nodes; exact correspondence of the predicates on generated nodes, index ranges, replacement fragments and candidate types every run; the independent validator decides the expected answers.",
   note=T + "The automaton is an input here; its agreement with the content expression is C06's subject. For the bundled schema family the schema-level guards are themselves theorems: the schemas are regenerated as Lean data from the running library on every run and the guards evaluated by the kernel (lean/Gen, lean/Family: closed corollaries without schema hypotheses).",
   design="§5 C07"),
 "C08": dict(
   technique="Lean 4 theorems over an executable model of StepMap/Mapping (prefix-sum rule, monotonicity, deletion flags, recover, for_each, touches, inversion; COMPOSITION laws of append_map / append_mapping / append_mapping_inverted / invert for map and map_result on both sides; the mirror jump; slices with both bounds; inverse round trips of whole mappings; functional mirror tables preserved by every constructor, first-match semantics otherwise) + exact correspondence of every map/mapping operation on builder sequences incl. deliberately double-registered tables + copy-independence oracle",
   text="{n} kernel-checked theorems (Props/C08.lean; Proofs/Map, MapMirror, MapAlgebra, MapCompose, MirrorTable) for maps with any number of ranges of any size, both orientations and sides; exhaustive small scope in the thorough tier.",
   note=T + "Guards: WF (sorted, non-overlapping) for the rule; StrictWF (a position between ranges) for for_each/map agreement and mirror round trips, with counterexample theorems showing the guard is needed.",
   design="§5 C08"),
 "C09": dict(
   technique="Lean 4 theorems relating resolve and every accessor (depth, ancestors, indices, start/end/before/after, offsets, node before/after, marks, marks_across, shared depth, block range, NodeRange), node_at, child / maybe_child (incl. Python's negative indices) / find_index (both roundings, stale size cache), child_after/before, nodes_between (sound AND complete, document order), range_has_mark and text_between (with separators) to the flat UTF-16 token sequence; exact correspondence of every accessor at every aligned position / range, also in a schema with inline nodes and atoms that have content; token-picture oracles",
   text="{n} kernel-checked theorems (Props/C09.lean; Proofs/Resolve, ResolveNodes, Traverse, Range, SepSpec, FragOps) for unbounded documents.",
   note=T + "Guards: pair-aligned positions; NoEmptyText (implied by normal form) where the code clips empty text nodes.",
   design="§5 C09"),
 "C10": dict(
   technique="effect summary regenerated from the source on every run (AST mutation-site table with reaching definitions -> lean/Gen/Effects.lean, `decide +kernel`: no site is external) + Lean append-only frame theorems for the two accumulators + snapshot search over random histories incl. operation arguments, DOM parsing with mark-clearing style rules, mirrored mappings",
   text="Partial by nature: a pure model cannot prove absence of in-place mutation. 3 theorems + 1 regenerated obligation; the translator keys every syntactic mutation site by function, receiver, mutator and reaching definitions and classifies it by rule (private state = an object's own fields only).",
   note=T + "Largest trusted piece: the syntactic, intra-procedural escape analysis and its reviewed-site table; mutation through aliases made in another function, setattr or C extensions is found by the snapshot search only.",
   design="§5 C10"),
 "C11": dict(
   technique="Lean 4 theorems over an executable model of replace_step incl. the Fitter as a state machine, fits_trivially, delete_range, replace_range, replace_range_with and close_fragment: the emitted step starts at `from`, extends the range only over close tokens, inserts only an in-order subsequence of the requested text (content preservation for every fitted replace step, delete_range and replace_range as wholes); TERMINATION of the fitting loop characterised exactly (fitLoop_outOfFuel_exact); loop invariants inStep and coherent (frontier matches = automaton states after the placed children) proved; the emitted step is WELL-FORMED (fit_emits_wf) and a VALID PAYLOAD (fit_emits_valid_payload: for every slice cut from a valid document, under a decidable run hypothesis evaluated on every request); TOTALITY proved for deletions and closed slices of leaf/text nodes; for DELETIONS the property's second sentence is proved end to end on the returned document (delete_valid, deleteRange_valid: valid, everything outside the range kept, exactly the text inside removed), for inline insertions and arbitrary valid slices when the answer is a plain replace step (…_valid_partial: one residual for replace-around answers); exact correspondence of the emitted step with the real replace_step / delete_range / replace_range on every generated case, guards and invariants evaluated on every request and after every loop iteration; totality for other slices by search over the bundled family",
   text="{n} kernel-checked theorems (Props/C11.lean; Proofs/Fitter, FitterText, RangeOps, ReplaceRange, Respects, FitMeasure, FitTerm, FitLoop, FitTotal, FitDelete, FitInline, FillOrder, FitInv, FitInStep, FitCoherent, FitValid, FitPayload, FitAround, FitTail, InsertAtValid). The Fitter model agrees with the real fitter on >10^5 generated requests per thorough run.",
   note=T + "fitter_respects is partial for replace-around steps except for deletions; 'never raises' for slices that get opened is reduced to two raise sites (fit_raise_sites) and not proved (open finding C11-fitter-partial-node: clipboard-style slices) and are decided by search; success of applying an emitted step is not a theorem (the tie applies every emitted step); a divergence example outside the bundled family is proved in the model and reproduced on the real code in every run; termination of the real loops by a per-call alarm. For the bundled schema family the schema-level guards are themselves theorems: the schemas are regenerated as Lean data from the running library on every run and the guards evaluated by the kernel (lean/Gen, lean/Family: closed corollaries without schema hypotheses).",
   design="§5 C11"),
 "C12": dict(
   technique="Lean 4 theorems over executable models of the four builders (lift, wrap, split, join) and all helpers (can_split, can_join, join_point, lift_target, find_wrapping, insert_point, drop_point, can_change_type): every built step is structural and, if it applies, preserves the text/leaf sequence exactly; returned positions/depths are in range; the helpers never raise on valid documents and in-range, aligned input; AN APPROVED EDIT SUCCEEDS for split, join, join_point, wrap, lift, insert_point (incl. inside text and marked nodes at top level), drop_point (closed slices, first pass), can_change_type → set_node_markup, each under decidable guards found by the proofs, with counterexamples; exact correspondence of every built step, every helper answer and the guards",
   text="{n} kernel-checked theorems (Props/C12.lean; Proofs/StructEdit, Structure, Structure2, SplitSuccess, JoinSuccess, WrapSuccess, LiftSuccess, LiftSplit, InsertSuccess, ResolveBoundary, JoinPointSuccess, RetypeSuccess, FitTopLevel).",
   note=T + "The success theorems carry guards (splitGuard, joinGuard, wrapGuard, liftGuard, insertGuard, dropGuard, changeTypeGuard) that are evaluated on every approved case and each shown necessary on exotic schemas; drop_point for open slices and its second pass go through the Fitter (proved: exactly when; success there is decided by search on the bundled family); open findings: lift of nested list items, wrap ignoring marks, fitter-partial-node in the drop_point follow-up. For the bundled schema family the schema-level guards are themselves theorems: the schemas are regenerated as Lean data from the running library on every run and the guards evaluated by the kernel (lean/Gen, lean/Family: closed corollaries without schema hypotheses).",
   design="§5 C12"),
 "C13": dict(
   technique="Lean 4 theorems over executable models of the planners (add_mark, remove_mark incl. mark-type and all-marks forms, add/remove_node_mark, set_node_attribute, set_node_markup, clear_incompatible, set_block_type): token-level effect of the whole plan (documented add rule, nothing matching left after removal, structure/text and marks outside unchanged, node-level edits local, retyping keeps children), the range planners never fail on valid documents (addMark_total, removeMark_total); the node planners are proved both against recorded Fitter answers and with the Fitter model plugged in (TypePlanFit: *_agrees, clearIncompatibleF_spec, setBlockTypeF_spec_plain); exact correspondence of the emitted step lists, final documents and Fitter consultations",
   text="{n} kernel-checked theorems (Props/C13.lean; Proofs/MarkPlan, MarkEffect, MarkTotal, TypePlan, TypePlanFit, KeptChildren).",
   note=T + "planAddMark_exact carries the flat-range hypothesis (an inline node with content in the range makes the exact rule false in code and upstream; the general planAddMark_effect holds everywhere). Where clear_incompatible consults the Fitter for fillers the theorems state what is known of the answer (well-formed step, no text, close tokens only); for plain target types the Fitter is provably never consulted. For the bundled schema family the schema-level guards are themselves theorems: the schemas are regenerated as Lean data from the running library on every run and the guards evaluated by the kernel (lean/Gen, lean/Family: closed corollaries without schema hypotheses).",
   design="§5 C13"),
 "C14": dict(
   technique="Lean 4 theorems: add_to_set equals the documented rule, canonical form is an invariant of every add/remove sequence, check()'s mark test accepts exactly canonical sets, removal/membership/equality/filtering are the set operations; the exclusion and permission tables of a compiled schema follow from the spec (excluded_spec, markSet_spec, compile_accepts_iff); exact correspondence of every mark operation and of schema construction",
   text="30 kernel-checked theorems (Props/C14.lean; Proofs/Marks, SchemaCompile).",
   note=T + "For the bundled schema family the schema-level guards are themselves theorems: the schemas are regenerated as Lean data from the running library on every run and the guards evaluated by the kernel (lean/Gen, lean/Family: closed corollaries without schema hypotheses).",
   design="§5 C14"),
 "C15": dict(
   technique="Lean 4 theorems: filler search sound and complete; wrapper search sound, COMPLETE and SHORTEST; create_and_fill returns a valid node containing the content in order, returns nothing exactly when no filling exists (LiveSchema), never dies internally; the copies of these searches used by the Fitter, the planners and the HTML parser are proved equal to them (Proofs/Unify) so the theorems transfer; exact correspondence of fill_before, find_wrapping (same chain) and create_and_fill",
   text="{n} kernel-checked theorems (Props/C15.lean; Proofs/Fill, Wrap, CreateFill, MkNode, Unify, FillOrder).",
   note=T + "Guards: deterministic automata, LiveSchema (what the repaired dead-end check of the schema constructor guarantees). Recursion of create_and_fill on ill-founded schemas is modelled by fuel with an explicit outOfFuel outcome. For the bundled schema family the schema-level guards are themselves theorems: the schemas are regenerated as Lean data from the running library on every run and the guards evaluated by the kernel (lean/Gen, lean/Family: closed corollaries without schema hypotheses).",
   design="§5 C15"),
 "C16": dict(
   technique="Lean 4 theorems: a merged step yields the token sequence / document of the two steps; merged mark steps APPLY whenever the pair does (merge_succeeds_marks, merge_equiv_marks under TextLoop; merge_succeeds_marks_covered without); merged replace steps apply — flat slices in every schema, the forward branch for open slices and ranges across node boundaries in every schema (merge_succeeds_replace_forward), the backward branch exactly when the decidable per-case guard mergeCompat holds (merge_succeeds_replace_iff; implied by compatTransB); exact correspondence of merge (which pairs merge and the merged step); search over bundled and random schemas",
   text="{n} kernel-checked theorems (Props/C16.lean; Proofs/Merge, MarkMerge, FlatReplace, MergeOpen, MergeRel, SpineCongr, ReplaceAligned, MergeForward, MergeGuard, MergeNecessary).",
   note=T + "mergeCompat is compared exactly with the real code on every merged replace pair; compatTransB holds for every bundled-family schema (kernel-checked over the regenerated schema values). TextLoop appears not to be forced for merged mark steps (no counterexample in 3·10^5 pairs) but the proof needs it. For the bundled schema family the schema-level guards are themselves theorems: the schemas are regenerated as Lean data from the running library on every run and the guards evaluated by the kernel (lean/Gen, lean/Family: closed corollaries without schema hypotheses).",
   design="§5 C16"),
 "C17": dict(
   technique="Lean 4 theorems: rebasing over a separated step never drops a step and shifts it exactly (replace, replace-around, markup steps, also inside a replace-around step's kept gap); both orders give equal token sequences / documents for every separated pair of step kinds (replace-mark pairs under the explicit guard ParentStable); BOTH ORDERS APPLY (commute_succeeds_*) for replace-replace, replace vs. replace-around, two replace-around steps, a partner inside a replace-around step's gap (closed slices, guard gapGuard), and node / mark steps against replace-around steps (closed slices resp. commuteGuard); exact correspondence of Step.map incl. overlapping pairs, of the whole rebase-and-apply square and of the guards; convergence search",
   text="{n} kernel-checked theorems (Props/C17.lean; Proofs/Commute*, CommuteAround*, ContentBetweenToks, GapInner).",
   note=T + "Success is not proved for replace-around steps whose slice is open on a side with a partner in the gap, and guard-free for mark steps (decided by search there); in-gap partners are overlapping in the property's sense; open finding C17-parent-retyped (the guard ParentStable is necessary).",
   design="§5 C17"),
 "C18": dict(
   technique="Lean 4 theorems: a step whose range lies within an isolating node leaves everything outside untouched; covered_depths, delete_range's widened range, replace_range's requests, lift_target and can_split never cross an isolating ancestor; the editor-level flows — the library's own block_range of a selection inside the node lies inside it (blockRange_inside_isolating), and lift / wrap / split / set_node_markup performed on it leave the outside unchanged and the node closed (lift_of_selection_inside, …; set_block_type partial) — over executable models tied exactly; exact correspondence of Slice.max_open, the emitted steps and the helpers; literal token oracle incl. the lift of a selection inside",
   text="{n} kernel-checked theorems (Props/C18.lean; Proofs/Structure, RangeOps, ReplaceRange, IsoFlows).",
   note=T + "Open findings (upstream): the Fitter splits an isolating node when content cannot be placed; insert_point walks out of it; fitter-partial-node.",
   design="§5 C18"),
 "C19": dict(
   technique="Lean 4 theorems for both directions and their composition: escaping is lossless; context expressions match exactly the declarative reading; the WHOLE PARSE is modelled (DOM walk over an abstract DOM with an oracle for selectors and callables, whitespace rewrites, normalize_list, marks, placement core) with proved termination — parse_total, parse_valid, parse_no_internal for every DOM and oracle; and the ROUND TRIP: for a document satisfying the decidable predicate rtOk (valid, whitespace-normal, attributes carried by the rules), parsing the serializer's output gives back the document (roundtrip), with the oracle filled in from the rule table; for the bundled basic, list and marks-on-doc schemas the rule and toDOM tables are regenerated as Lean data from the running library and the schema part of rtOk is kernel-checked, leaving only the per-document part (roundtrip_basic, roundtrip_list; whole-document examples through the theorem); exact ties: serializer output, matches_context, schema_rules order, the whole parse and the whole round trip (HTML, abstract DOM, result) against the real code",
   text="{n} kernel-checked theorems (Props/C19.lean; Proofs/Dom, FromDom, Placement*, DomWalk, DomWalkSafe, PlacementNoInternal, RoundTrip*) plus the closed round-trip corollaries in lean/Family/C19RoundTrip.lean.",
   note=T + "Oracle boundary (NOT modelled, answers recorded from the real run and fed to the model): lxml's HTML tokenizer, CSS selector matching, get_attrs callables, parse_styles' regex, clear_mark callables; their termination and crash-freedom are decided by search with a per-call alarm. For the round trip the oracle is computed by the model itself from the rule table (restricted rule forms of the bundled schemas). parse_valid needs Det, TextStable, LeafOk (counterexample schemas recorded). For the bundled schema family the schema-level guards are themselves theorems: the schemas are regenerated as Lean data from the running library on every run and the guards evaluated by the kernel (lean/Gen, lean/Family: closed corollaries without schema hypotheses).",
   design="§5 C19"),
 "C20": dict(
   technique="Lean 4 theorems: find_diff_start/end return none iff equal and otherwise the common prefix/suffix length of the marked-up token sequences; exact correspondence incl. identity-sharing before/after pairs under a per-call alarm",
   text="6 kernel-checked theorems (Props/C20.lean).",
   note=T + "Termination of the Python loops is decided by the alarm; guard: normal form.",
   design="§5 C20"),
}

NOT_YET = {
}

def ntheorems(pid):
    import re
    src = open(os.path.join(V, "lean", "Props", pid + ".lean")).read()
    return len(re.findall(r"^theorem ", src, re.M))

def main():
    props = [json.loads(l) for l in open(os.path.join(V, "properties.jsonl"))]
    checks = []
    na = []
    for p in props:
        pid = p["id"]
        if pid in CLAIMED:
            c = CLAIMED[pid]
            checks.append({
                "property_id": pid,
                "quick_cmd": f"./check {pid} quick",
                "thorough_cmd": f"./check {pid} thorough",
                "evidence_file": f"/verif/evidence/{pid}.json",
                "replay_cmd_template": "./check --replay {path}",
                "engine": "lean-proof+correspondence",
                "level_claimed": {"category": "proof", "text": re.sub(r"^(\{n\}|\d+) kernel-checked", f"{ntheorems(pid)} kernel-checked", c["text"]), "design_ref": c["design"]},
                "level_note": c["note"],
                "technique": c["technique"],
            })
        else:
            na.append({"property_id": pid, "reason": NOT_YET.get(pid, "machinery for this property is still under construction in this tree; not claimed until its theorems and correspondence check are in place (see DESIGN.md §5)")})
    m = {
        "version": 1,
        "setup_cmd": "cd /verif/lean && lake build PM Proofs Props pmdriver",
        "hooks": {
            "guard": "PROSEMIRROR_PY_VERIF",
            "enable": "no source hooks: checks import /repo's working tree in-process (PYTHONPATH=/repo) and observe the public API; the variable is set by ./check for completeness",
            "baseline_off_cmd": "cd /repo && /venv/bin/python -m pytest -ra -q -p no:cacheprovider --timeout=900 --continue-on-collection-errors",
            "source_commits": [],
            "add_only": True,
        },
        "engines": [{
            "name": "lean-proof+correspondence",
            "path": "/verif/check",
            "serves_properties": [c["property_id"] for c in checks],
            "kind_free_text": "Lean 4 theorems about a hand-written executable model (lean/PM, lean/Props) + Lean data regenerated from the running library on every run with kernel-checked facts about it (lean/Gen: automaton certificates, mutation-site table, the bundled schema family, its parsers and toDOM tables; lean/Family: closed corollaries) + differential correspondence of the model with the real Python code through a JSON-lines driver (lean/Driver) + Python property oracles as failing-input search (harness/)",
        }],
        "checks": checks,
        "not_applicable": na,
        "notes": "See DESIGN.md. Fix commits in /repo (37) and the open findings (16 entries) are recorded in KNOWN_FINDINGS.jsonl; an open finding matches a violation only if its class predicate (harness/findings.py) holds and the tree under check behaves on that input exactly as the frozen copy of the library under /verif/reference (harness/reference.py). Seeded changes used to test the checks are under /verif/seeded (DESIGN.md §9).",
    }
    json.dump(m, open(os.path.join(V, "MANIFEST.json"), "w"), indent=1)
    print("claimed", [c["property_id"] for c in checks])

main()
