#!/usr/bin/env python3
"""Regenerates MANIFEST.json from the table below (kept in one place so it stays valid)."""
import json, os
V = os.path.dirname(os.path.dirname(os.path.abspath(__file__)))

CLAIMED = {
 "C08": dict(
   technique="Lean 4 theorems over an executable model of StepMap/Mapping (prefix-sum rule, monotonicity, deletion flags, recover, for_each, touches, inversion, composition, mirror round trip) + exact differential correspondence of every map/mapping operation with the model + documented-rule oracle on the real code",
   text="19 kernel-checked theorems (Props/C08.lean) state the documented mapping rule in closed prefix-sum form for maps with any number of ranges of any size, both orientations and sides; the model is tied to /repo on every run by running the real StepMap/Mapping and the model on the same maps (exhaustive small scope in the thorough tier) and diffing; an independent Python statement of the rule searches for failing inputs.",
   note="Trusted: Lean kernel + propext/Classical.choice/Quot.sound; the hand-written model lean/PM/Map.lean (tied by sampling, not proved equal to the Python); harness generators/codec. The k-map mirror round trip is proved for one mirrored pair (mirror_roundtrip_one); longer rebasing-style chains are covered by correspondence + search only.",
   design="§5 C08"),

 "C02": dict(
   technique="Lean 4 theorems: replace = token splice, slice = token range with open depths, size arithmetic, normal form, re-insertion identity, token injectivity — over a structural-recursion model of replace/slice/cut; exact differential correspondence with Node.slice/cut/replace; token-splice oracle on the real code",
   text="13 kernel-checked property theorems (Props/C02.lean, ~2700 lines of supporting proofs) about the executable model of Fragment.cut / Node.slice / replace (three-way/two-way rebuild incl. joins, close checks, text merging) for unbounded trees and every open-depth combination; the model is run against the real code on generated (schema, document, range, slice) cases every run and outputs/outcomes are diffed; an independent Python tokenizer states the splice law directly on the real code.",
   note="Trusted: Lean kernel (+ propext, Classical.choice, Quot.sound), the model lean/PM/{Basic,Fragment,Content,Replace}.lean tied by sampling, harness. Success of re-insertion ('the replace returns') is checked by correspondence/search, the theorem `reinsert` is conditional on it. Positions inside a surrogate pair are outside the guard (Python cannot represent the cut).",
   design="§5 C02"),
 "C14": dict(
   technique="Lean 4 theorems: add_to_set equals the documented rule for every schema/set, canonical form is an invariant of every add/remove sequence, check()'s mark test accepts exactly canonical sets, removal/membership/equality/filtering are the set operations; exact differential correspondence over random mark configurations",
   text="18 kernel-checked theorems (Props/C14.lean) over the model of Mark.add_to_set/remove_from_set/is_in_set/same_set/set_from and NodeType.allowed_marks/allows_marks for arbitrary exclusion relations and unbounded sets; exact correspondence and a documented-rule oracle on random configurations ('_', empty, names, groups) every run.",
   note="Trusted: Lean kernel, model lean/PM/Marks.lean tied by sampling, harness; compilation of `excludes`/`marks` spec strings into tables is compared with an independent reading of the spec in the harness, not proved.",
   design="§5 C14"),
 "C20": dict(
   technique="Lean 4 theorems: find_diff_start/end return none iff equal and otherwise the common prefix/suffix length of the marked-up token sequences; exact differential correspondence incl. identity-sharing before/after pairs under a per-call alarm",
   text="6 kernel-checked theorems (Props/C20.lean) about the structural model of find_diff_start/find_diff_end (UTF-16 units); the real functions are run on self pairs, JSON-rebuilt copies, before/after pairs of random edits (sharing nodes by identity) and unrelated documents, each call under a 2 s alarm, and compared with the model and with an lcp/lcs oracle over to_json().",
   note="Trusted: Lean kernel, model lean/PM/Diff.lean tied by sampling, harness. Termination of the Python loops cannot be a theorem about a total Lean function: it is decided by the alarm (a hang is a violation with the pair as replay). Guard: documents in normal form (no empty text, adjacent same-markup text merged), which every library constructor maintains.",
   design="§5 C20"),

 "C01": dict(
   technique="Lean 4 theorem apply_valid: for every schema, valid document and step of the eight kinds with a valid payload, whatever apply returns is valid (via replace_valid: every rebuilt node passes close; mark steps via C14 canonicity); exact differential correspondence of Step.apply incl. JSON-decoded steps; check()+independent spec validator as oracle",
   text="10 kernel-checked theorems (Props/C01.lean; ~2400 lines in Proofs/ReplaceValid.lean, Proofs/StepValid.lean) over the executable model of the eight step kinds; validity is the model of Node.check (content automaton, mark permissions, canonical mark sets, recursively). The model is tied to the code by running both on generated (schema, document, step) cases incl. plausible-but-wrong wrappers and JSON-decoded steps; an independent validator derived from the schema spec (content expressions as Python regexes) checks every returned document; any non-ValueError exception is a violation.",
   note="Trusted: Lean kernel, model lean/PM/{Step,Replace,Content,Marks}.lean tied by sampling, harness + spec validator. Guards of the theorem: payload validity (`openValid`: nodes off the open spines valid; for replace-around stated on the slice after gap insertion), `TextStable` for mark steps (merging adjacent text must not change what the parent's automaton accepts — true of every `text*`/`inline*` style expression; the exotic excluded shape is described in DESIGN.md). 'Never dies with an internal error' is decided by correspondence/search, not by a theorem.",
   design="§5 C01"),
 "C07": dict(
   technique="Lean 4 theorems: valid_content / check / can_replace / can_replace_with / can_append equal the definition of validity over the spliced child sequence (automaton run over concatenation, mark permissions, canonical marks); exact differential correspondence over all child index ranges; independent spec validator (regex over content expressions) as oracle, with mutated invalid documents",
   text="11 kernel-checked theorems (Props/C07.lean) for arbitrary automata and nodes; exact correspondence of the six predicates on generated nodes, index ranges, replacement fragments and candidate types every run; the independent validator decides the expected answer from the schema spec.",
   note="Trusted: Lean kernel, model lean/PM/Content.lean tied by sampling, harness, spec validator (Python re). The automaton is data dumped from the running code; its agreement with the content expression is C06's subject.",
   design="§5 C07"),
 "C09": dict(
   technique="Lean 4 theorems: resolve is total on 0..size, depth = unmatched opens, ancestor chain, start/end/before/after delimit exactly the ancestor's tokens, offsets, node_at, text_between = text units of the token window, nodes_between positions, marks(), shared depth; exact differential correspondence of every accessor at every position; token-picture oracle",
   text="16 kernel-checked theorems (Props/C09.lean) relating the path-based model of ResolvedPos and the traversal functions to the flat UTF-16 token sequence for unbounded documents; every accessor of the real code is compared with the model at every pair-aligned position of generated documents (astral text, non-inclusive marks) and with quantities recomputed from to_json() tokens.",
   note="Trusted: Lean kernel, model lean/PM/Resolve.lean tied by sampling, harness. block_range/NodeRange, marks_across, child_after/before and range_has_mark are tied by exact correspondence/oracle only (no theorem yet). nodeAt_spec carries the guard 'node size ≠ 0' (empty text nodes do not exist in the library).",
   design="§5 C09"),

 "C03": dict(
   technique="Lean 4 theorems: for replace and replace-around steps the size delta is the map's delta and every old token outside the replaced ranges is found at the mapped position; markup steps have the empty map and keep structure/text; Transform.mapping = maps of recorded steps; built on kernel-checked token semantics of every step kind (Proofs/StepToks.lean) + exact correspondence of get_map/apply + per-token oracle over every step emitted by every Transform operation",
   text="5 kernel-checked theorems (Props/C03.lean) on top of the token-level semantics of all eight step kinds (13 theorems, Proofs/StepToks.lean) for unbounded documents; get_map of every step kind and Transform.mapping are compared exactly with the model; the oracle checks size delta and token preservation at all old positions for random primitive steps and for every step emitted by random high-level operations.",
   note="Trusted: Lean kernel, model lean/PM/{Step,Map,Replace,Transform}.lean tied by sampling, harness. Guard of replaceAround_map_faithful: not (empty gap at the end of the range with slice content after it) — the excluded shape is a real violation of the statement on the code (touching map ranges), recorded as open known finding C03-touching-empty-gap; no library operation emits it.",
   design="§5 C03"),
 "C05": dict(
   technique="Lean 4 round-trip theorems fromJson(toJson x) = x for marks, nodes (any depth), fragments, slices and the eight step kinds, attribute defaulting, registry; exact differential correspondence of to_json/from_json through real json.dumps/loads; round-trip + effect + aliasing oracle",
   text="10 kernel-checked theorems (Props/C05.lean) over a model of the JSON forms (PM/Json.lean) for unbounded documents; the real to_json output (after json.dumps/loads) is compared with the model's and from_json results are compared both ways on generated documents, slices, marks and steps; the oracle checks equality, identical re-serialisation, identical effect and map of decoded steps, registry contents and (by mutation) that produced JSON does not alias live objects.",
   note="Trusted: Lean kernel, model tied by sampling, harness; Python's json/str encoding is modelled as the identity on JSON data. 'Does not alias live attribute objects' is object identity, outside a pure model: decided by the mutation probe only (stated in evidence).",
   design="§5 C05"),
 "C06": dict(
   technique="verified certificate checker: Lean 4 theorems equivCheck_accepts / equivCheck_live (bisimulation up to Antimirov partial derivatives; semantics = Mathlib RegularExpression.matches') + translator regenerating lean/Gen/DfaCerts.lean from the automata the running code compiles (one `decide +kernel` instance per bundled-family expression) + evaluation of the checker on enumerated/random expressions + accept/reject tie for malformed expressions + independent Python-regex oracle on child sequences",
   text="Automaton equivalence for sequences of unbounded length is decided by a kernel-checked theorem about a Bool checker; for every content expression of the bundled-family schemas the instance is re-proved by the kernel on every run against the ContentMatch graph the current code builds (50 instances); for enumerated (syntax-tree depth bound) and random expressions the same checker is evaluated by the compiled driver; well-formedness (syntax, unknown names, inline/block mixing, dead ends) is compared with the model's reading of the grammar.",
   note="Trusted: Lean kernel (+ Mathlib's RegularExpression definitions, which are what 'the expression read as a regular expression' means here), the 60-line grammar reader specParse (it *is* the specification; its evaluation by the driver is not kernel-checked), the certificate search is untrusted, the harness dump of ContentMatch graphs. For non-bundled expressions the checker's verdict is computed by compiled Lean code, not the kernel.",
   design="§5 C06"),
 "C13": dict(
   technique="Lean 4 theorems: per-token effect of add-mark / remove-mark steps (documented add rule C14.addSpec under parent permission, structure/text unchanged, nothing outside the range changes), node-level steps change only the addressed token, retyping replace-around keeps the children; relational tie of the Transform planners (every emitted step applied by the model) + per-token oracle on final documents",
   text="7 kernel-checked theorems (Props/C13.lean) from the token semantics of the mark steps for arbitrary exclusion relations and unbounded documents; Transform.add_mark/remove_mark/add_node_mark/remove_node_mark/set_node_attribute/set_block_type/set_node_markup are run on generated inputs, each emitted step is re-applied by the model (same document) and the final document is checked token by token against the documented effect.",
   note="Trusted: Lean kernel, model tied by sampling, harness. The range-coalescing planners themselves (which steps add_mark/remove_mark emit) are not modelled: their effect is decided by the oracle; inline non-atom nodes are skipped by AddMarkStep by design and are not pinned.",
   design="§5 C13"),
 "C17": dict(
   technique="Lean 4 theorems: rebasing a replace step over a separated replace step's map never drops it and shifts it exactly; both orders yield the same token sequence and (normal form) the same document; positions outside a range are never flagged deleted; relational tie of Step.map (model's rebased step applied by the real code) + convergence oracle over pairs from all high-level operations",
   text="4 kernel-checked theorems (Props/C17.lean) for pairs of replace steps with arbitrary slices on unbounded documents; for pairs of steps of every kind produced by random high-level operations on a common base document with separated ranges, the real code's rebased steps and the model's are compared by effect and the full convergence check (not dropped, both orders succeed, equal documents) runs on the real code.",
   note="Trusted: Lean kernel, model tied by sampling, harness. Theorems cover replace/replace pairs; pairs involving replace-around and markup steps are decided by correspondence + search only. 'Both orders succeed' is conditional in the theorems (decided by search).",
   design="§5 C17"),

 "C04": dict(
   technique="Lean 4 theorems: history bookkeeping invariant (alignment, recorded maps, replay) for any sequence of attempted steps; inverse maps; exact undo of replace / replace-around / attr / doc-attr / node-mark steps (conditional on the inverse applying, with the guards proved necessary); tie of invert by effect (model's inverse applied by the real code) + replay/undo oracle over random histories",
   text="11 kernel-checked theorems (Props/C04.lean): history_inv over the model of Transform.step/maybe_step/add_step for histories of any length, invert_map_* position-wise, *_undo_partial giving document equality via token injectivity, and nodeMark_undo_needs_guard showing the single-mark inverse cannot work when two marks are displaced. Histories of up to 12 random Transform operations over the bundled-family schemas are replayed and undone on the real code; single steps are undone under every schema; the model's inverse is applied by the real code and must restore the document exactly when the real inverse does.",
   note="Trusted: Lean kernel, models tied by sampling, harness. That the inverse step *applies* is decided by search (theorems are conditional on it). Open known findings (upstream semantics, matched by class): C04-leaf-retype, C04-node-mark-inverse. Exact undo of add_mark/remove_mark plans is covered through the per-step undo of the steps they emit (oracle), not by a planner theorem.",
   design="§5 C04"),
 "C10": dict(
   technique="effect summary regenerated from the source on every run (AST mutation-site table with reaching definitions -> lean/Gen/Effects.lean, `decide +kernel`: no site is external) + Lean frame theorems (transform / mapping only append) + snapshot search over random histories",
   text="Partial by nature: a pure model cannot prove absence of in-place mutation. The translator lists every syntactic mutation site (~320) of prosemirror/model and prosemirror/transform keyed by function, receiver, mutator and the definitions reaching the receiver, classifies it by rule (init / fresh / accumulator / private-state / pure-method / reviewed) and the kernel checks that none is external; 3 theorems show the accumulators change only by appending; the snapshot harness serialises every live document, fragment, slice, mark list, step and map before each operation of random histories and compares afterwards, plus the shared singletons.",
   note="Trusted: the syntactic, intra-procedural escape analysis and its rule set (largest trusted piece; mutation through aliases made in another function, setattr or C extensions is invisible to it), the reviewed-sites table, Lean kernel for the `decide`, the snapshot harness. A new unclassifiable site breaks the theorem; the snapshot search then looks for a witness.",
   design="§5 C10"),
 "C11": dict(
   technique="Lean 4 theorems: a step satisfying the monitor `respects` (range differs from the request only by structural tokens; inserted text is a subsequence of the requested text) preserves all text/leaf content before and after the range once it applies; recorded documents are valid (C01); relational tie: the monitor is evaluated by the compiled model on every step the real replace-family operations emit and each emitted step is applied by the model too; totality by search only",
   text="4 kernel-checked theorems (Props/C11.lean) independent of the fitting heuristic and of the schema; on every run the seven replace-family operations are executed on generated documents/slices/nodes over the bundled-family schemas (totality, validity, content preservation) and random schemas (validity, content preservation), every emitted step passes `respects` and is reproduced by the model's apply.",
   note="Trusted: Lean kernel, models tied by sampling, harness. Totality ('never raises') is NOT a theorem — it would need a model of the ~400-line fitting algorithm with termination and assertion-freeness — and is decided by search over the bundled-family schemas only (stated in evidence). Multi-step operations are covered by the oracle on the final document; the monitor is evaluated on single-step operations.",
   design="§5 C11"),
 "C12": dict(
   technique="Lean 4 theorems: content_between answers 'no' only for ranges of open/close tokens; a structure-flagged step whose slice has no content preserves the text/leaf sequence exactly and yields a valid document; relational tie: `isStructuralAt` evaluated on every step split/join/lift/wrap emit + model apply; approve=>perform=>succeeds oracle for the seven helpers",
   text="3 kernel-checked theorems (Props/C12.lean) incl. the path-based model of content_between related to the token sequence; on every run all helpers are asked at every position of generated documents, every approved edit is performed (must succeed, be valid, keep the leaf sequence), results must be in range and no helper may die with an internal error; emitted steps pass the structural monitor and are reproduced by the model.",
   note="Trusted: Lean kernel, models tied by sampling, harness. 'An approved edit then succeeds' is decided by search (no model of the helpers' decision procedures). Open known findings (upstream algorithms, matched by class): C12-lift-split-invalid, C12-wrap-ignores-marks.",
   design="§5 C12"),
 "C15": dict(
   technique="Lean 4 theorems: meaning of the checkable predicates isFill / isWrapChain, soundness AND completeness of the depth-first filler search with global seen-set, soundness of the breadth-first wrapper search; relational tie: the real answers of fill_before / find_wrapping are checked with the Lean predicates and compared (some/none, chain length) with the model's search; brute-force oracle",
   text="6 kernel-checked theorems (Props/C15.lean) over arbitrary deterministic automata; every match state of every content automaton of the bundled-family and random schemas is queried with random following fragments / target types, the real answers must satisfy isFill / isWrapChain (evaluated by the compiled model), 'nothing' answers are cross-checked against the model's complete search and a brute-force enumeration, chains must be shortest; create_and_fill results are validated.",
   note="Trusted: Lean kernel, model lean/PM/Fill.lean tied by sampling, harness. Guards: deterministic automaton (one edge per label — true of every subset-construction output; the harness dumps are checked), edge targets in range. Shortest-chain and completeness of find_wrapping are decided by brute force up to length 3, not by a theorem. create_and_fill is oracle-only.",
   design="§5 C15"),
 "C16": dict(
   technique="Lean 4 theorems: for every pair that merges (both adjacency orders of replace steps incl. the empty-slice case, add/add and remove/remove mark steps) the merged step yields exactly the token sequence of the two-step result, hence equal documents in normal form and equal size delta; relational tie: the model's merged step applied by the real code reproduces the two-step result; oracle on real merges",
   text="3 kernel-checked theorems (Props/C16.lean) from the token semantics of replace and mark steps; editing-shaped pairs (typing, backspacing, open slices, touching/overlapping mark ranges) over the bundled-family schemas are applied, merged and compared on the real code; the model's merge is applied by the real code as well.",
   note="Trusted: Lean kernel, models tied by sampling, harness. That the merged step applies whenever the pair does is decided by search (theorems are conditional on it); which pairs merge is not pinned.",
   design="§5 C16"),
 "C18": dict(
   technique="Lean 4 theorems: a step whose range lies within an isolating node leaves every token up to its open token and after its closing untouched (strict and boundary-inclusive forms, all step kinds; pure insertions remove nothing); exact tie of Slice.max_open; relational monitor on every emitted step; outside-tokens oracle incl. whole-content ranges; lift/split probes",
   text="3 kernel-checked theorems (Props/C18.lean); Slice.max_open is compared exactly with the model for both flags; for every isolating node of generated documents of the isolating / table-like schemas, ranges inside it (incl. its whole content) are edited with all replace-family operations: every token up to and including the node's opening and from its closing on must be unchanged (the property read literally: nothing removed, split, merged or added outside the node's content), emitted steps are reproduced by the model and classified by the monitor (most fall under the theorem; the rest re-create the node's own close tokens and are decided by the oracle); lift_target / can_split must not cross the boundary. Two upstream behaviours violate the literal reading and are recorded as open findings (the Fitter places content that does not fit after a closed copy of the node; insert_point walks out of it).",
   note="Trusted: Lean kernel, models tied by sampling, harness. The range-expansion / fitting heuristics are not modelled; the monitor is sufficient, not necessary (coverage reported in evidence). The oracle states the property literally; the two upstream behaviours that violate it are open known findings narrowed by the frozen reference copy (DESIGN.md §2.5, §7).",
   design="§5 C18"),
 "C19": dict(
   technique="Lean 4 theorems for the part that is logic: html.escape is lossless and leaves no raw markup, the mark-stack serializer carries the document text; exact tie of the serialised HTML with the model (PM/Dom.lean); search for everything in lxml/cssselect/re: parse terminates (alarm), never crashes, yields valid documents, context rules apply only under matching ancestors, serialise->parse round trip on whitespace-normal documents",
   text="Partial by nature: 4 kernel-checked theorems (Props/C19.lean) about escaping and text preservation of the serializer model, which is compared string-for-string with the real serializer on generated documents; HTML import is exercised on generated fragments over the block / inline / list / table / ignorable vocabulary with whitespace, style attributes, missing attributes and comments under three schemas (basic, list, context-rule), each call under an alarm; results are validated by check() and the independent validator; round trip on whitespace-normal documents with rule-carried attributes.",
   note="Trusted: Lean kernel, model tied by sampling, harness, lxml as independent HTML reader for the escaping oracle. NOT modelled: the parser's placement core, DOM walking, rule/selector/regex matching — termination and crash-freedom of import are decided by search only (stated in evidence).",
   design="§5 C19"),
}

NOT_YET = {
}

def main():
    props = [json.loads(l) for l in open(os.path.join(V, "properties.jsonl"))]
    checks = []
    na = []
    for p in props:
        pid = p["id"]
        if pid in CLAIMED:
            c = CLAIMED[pid]
            checks.append({
                "property_id": pid,
                "quick_cmd": f"./check {pid} quick",
                "thorough_cmd": f"./check {pid} thorough",
                "evidence_file": f"/verif/evidence/{pid}.json",
                "replay_cmd_template": "./check --replay {path}",
                "engine": "lean-proof+correspondence",
                "level_claimed": {"category": "proof", "text": c["text"], "design_ref": c["design"]},
                "level_note": c["note"],
                "technique": c["technique"],
            })
        else:
            na.append({"property_id": pid, "reason": NOT_YET.get(pid, "machinery for this property is still under construction in this tree; not claimed until its theorems and correspondence check are in place (see DESIGN.md §5)")})
    m = {
        "version": 1,
        "setup_cmd": "cd /verif/lean && lake build PM Proofs Props pmdriver",
        "hooks": {
            "guard": "PROSEMIRROR_PY_VERIF",
            "enable": "no source hooks: checks import /repo's working tree in-process (PYTHONPATH=/repo) and observe the public API; the variable is set by ./check for completeness",
            "baseline_off_cmd": "cd /repo && /venv/bin/python -m pytest -ra -q -p no:cacheprovider --timeout=900 --continue-on-collection-errors",
            "source_commits": [],
            "add_only": True,
        },
        "engines": [{
            "name": "lean-proof+correspondence",
            "path": "/verif/check",
            "serves_properties": [c["property_id"] for c in checks],
            "kind_free_text": "Lean 4 theorems about a hand-written executable model (lean/PM, lean/Props) + differential correspondence of the model with the real Python code through a JSON-lines driver (lean/Driver) + Python property oracles as failing-input search (harness/)",
        }],
        "checks": checks,
        "not_applicable": na,
        "notes": "See DESIGN.md. Fix commits in /repo (31) and the 9 open findings are recorded in KNOWN_FINDINGS.jsonl; an open finding matches a violation only if its class predicate (harness/findings.py) holds and the tree under check behaves on that input exactly as the frozen copy of the library under /verif/reference (harness/reference.py). Seeded changes used to test the checks are under /verif/seeded (DESIGN.md §9).",
    }
    json.dump(m, open(os.path.join(V, "MANIFEST.json"), "w"), indent=1)
    print("claimed", [c["property_id"] for c in checks])

main()
