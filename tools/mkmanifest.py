#!/usr/bin/env python3
"""Regenerates MANIFEST.json from the table below (kept in one place so it stays valid)."""
import json, os
V = os.path.dirname(os.path.dirname(os.path.abspath(__file__)))

CLAIMED = {
 "C08": dict(
   technique="Lean 4 theorems over an executable model of StepMap/Mapping (prefix-sum rule, monotonicity, deletion flags, recover, for_each, touches, inversion, composition, mirror round trip) + exact differential correspondence of every map/mapping operation with the model + documented-rule oracle on the real code",
   text="19 kernel-checked theorems (Props/C08.lean) state the documented mapping rule in closed prefix-sum form for maps with any number of ranges of any size, both orientations and sides; the model is tied to /repo on every run by running the real StepMap/Mapping and the model on the same maps (exhaustive small scope in the thorough tier) and diffing; an independent Python statement of the rule searches for failing inputs.",
   note="Trusted: Lean kernel + propext/Classical.choice/Quot.sound; the hand-written model lean/PM/Map.lean (tied by sampling, not proved equal to the Python); harness generators/codec. The k-map mirror round trip is proved for one mirrored pair (mirror_roundtrip_one); longer rebasing-style chains are covered by correspondence + search only.",
   design="§5 C08"),
}

NOT_YET = {
}

def main():
    props = [json.loads(l) for l in open(os.path.join(V, "properties.jsonl"))]
    checks = []
    na = []
    for p in props:
        pid = p["id"]
        if pid in CLAIMED:
            c = CLAIMED[pid]
            checks.append({
                "property_id": pid,
                "quick_cmd": f"./check {pid} quick",
                "thorough_cmd": f"./check {pid} thorough",
                "evidence_file": f"/verif/evidence/{pid}.json",
                "replay_cmd_template": "./check --replay {path}",
                "engine": "lean-proof+correspondence",
                "level_claimed": {"category": "proof", "text": c["text"], "design_ref": c["design"]},
                "level_note": c["note"],
                "technique": c["technique"],
            })
        else:
            na.append({"property_id": pid, "reason": NOT_YET.get(pid, "machinery for this property is still under construction in this tree; not claimed until its theorems and correspondence check are in place (see DESIGN.md §5)")})
    m = {
        "version": 1,
        "setup_cmd": "cd /verif/lean && lake build PM Proofs Props pmdriver",
        "hooks": {
            "guard": "PROSEMIRROR_PY_VERIF",
            "enable": "no source hooks: checks import /repo's working tree in-process (PYTHONPATH=/repo) and observe the public API; the variable is set by ./check for completeness",
            "baseline_off_cmd": "cd /repo && /venv/bin/python -m pytest -ra -q -p no:cacheprovider --timeout=900 --continue-on-collection-errors",
            "source_commits": [],
            "add_only": True,
        },
        "engines": [{
            "name": "lean-proof+correspondence",
            "path": "/verif/check",
            "serves_properties": [c["property_id"] for c in checks],
            "kind_free_text": "Lean 4 theorems about a hand-written executable model (lean/PM, lean/Props) + differential correspondence of the model with the real Python code through a JSON-lines driver (lean/Driver) + Python property oracles as failing-input search (harness/)",
        }],
        "checks": checks,
        "not_applicable": na,
        "notes": "See DESIGN.md. Fix commits in /repo are recorded in KNOWN_FINDINGS.jsonl.",
    }
    json.dump(m, open(os.path.join(V, "MANIFEST.json"), "w"), indent=1)
    print("claimed", [c["property_id"] for c in checks])

main()
