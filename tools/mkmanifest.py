#!/usr/bin/env python3
"""Regenerates MANIFEST.json from the table below (kept in one place so it stays valid)."""
import json, os, re
V = os.path.dirname(os.path.dirname(os.path.abspath(__file__)))

T = ("Trusted: Lean kernel (+ propext, Classical.choice, Quot.sound), the hand-written model tied to /repo by differential "
     "sampling on every run, the harness (generators, codec, oracles). ")

CLAIMED = {
 "C01": dict(
   technique="Lean 4 theorems apply_valid (whatever apply returns for a valid document and valid payload is valid, all eight step kinds) and apply_no_internal (a step with a well-formed payload never ends in the internal-error outcome, no hypothesis on positions) over the executable model of Step.apply; exact differential correspondence of Step.apply incl. JSON-decoded, ill-formed and unordered steps; check() + independent spec validator as oracle",
   text="27 kernel-checked theorems (Props/C01.lean; Proofs/ReplaceValid, StepValid, NoInternal, MarkupSuccess, MarkSuccess): validity of every result, absence of the internal-error outcome under the decidable payload condition StepWF (each hypothesis shown necessary by an example reproduced on the real code), and success characterisations (node-markup steps apply iff the parent allows the marks; range mark steps always apply under TextLoop). The model is tied to the code on generated (schema, document, step) cases every run; any non-ValueError exception for in-document positions is a violation.",
   note=T + "Guards: payload validity (`openValid`), `TextStable`/`TextLoop` for mark steps (counterexample schema `text?` evaluated in model and code), `StepWF` (slice open depths within its spines, insert within the slice).",
   design="§5 C01"),
 "C02": dict(
   technique="Lean 4 theorems: replace = token splice, slice = token range with open depths, size arithmetic, normal form, token injectivity, and re-insertion SUCCEEDS and is the identity (reinsert_succeeds) — over a structural-recursion model of replace/slice/cut; exact differential correspondence incl. ranges that end before they start",
   text="17 kernel-checked theorems (Props/C02.lean, ~4 k lines of supporting proofs in Proofs/TokCore, ReplaceToks, Reinsert) about the executable model of Fragment.cut / Node.slice / replace for unbounded trees and every schema; re-insertion of a cut slice is proved to apply and to give back the document for every valid normal-form document. Exact correspondence of slice / cut / replace and a token-level oracle written independently of the model on every run.",
   note=T + "Guards: normal form (documents with adjacent same-markup text exist only via hand-written JSON), pair-aligned positions (a cut inside a surrogate pair is a ValueError in code and model).",
   design="§5 C02"),
 "C03": dict(
   technique="Lean 4 theorems: for every step kind the size delta is the map's delta and every old token outside the replaced ranges is found at the mapped position (replace, replace-around, markup steps; every position; whole histories through Transform.mapping); exact correspondence of get_map; per-position oracle on primitive and emitted steps",
   text="14 kernel-checked theorems (Props/C03.lean) on top of the token-level semantics of all eight step kinds (Proofs/StepToks.lean) for unbounded documents, incl. the last sentence of the property for all step kinds and for composed mappings of whole histories.",
   note=T + "Guard of the replace-around theorems: not (empty gap at the end of the range with slice content after it) — the excluded shape is a recorded finding (C03-touching-empty-gap), no library operation emits it.",
   design="§5 C03"),
 "C04": dict(
   technique="Lean 4 theorems: history bookkeeping invariant for any sequence of attempted steps; inverse maps; EXACT UNDO INCLUDING SUCCESS of replace steps (replace_undo, guard sidesCompatible; unguarded when a slice side is closed or compatibility is transitive), replace-around steps (guards gapFitsBack / sidesCompatibleAround / structure), attribute, doc-attribute, node-mark and range mark steps (exact iff-guards removeMarkUndoable / addMarkUndoable); composition to whole histories (history_undo_of_steps, markHistory_undo for any successful list of add_mark/remove_mark calls, family_history_undo for replayed histories over all eight step kinds under compatTransB and TextLoop); guards tied exactly to the real code; effect-level correspondence of invert; histories replayed and undone",
   text="{n} kernel-checked theorems (Props/C04.lean; ~9 k lines in Proofs/Undo*, Reinsert, MarkupSuccess, MarkUndo, MarkPlanUndo*, MarkHistory, HistoryUndo): the inverse of an applied step applies and restores the document, for all documents and slices, under explicit decidable guards each of which is shown necessary by a counterexample theorem evaluated in the model and reproduced on the real code (recorded findings: non-transitive join, text gap, structure flag, node marks, same-type mark order); single-step results are composed to histories of any length.",
   note=T + "The guards are Bool predicates of the model (PM/UndoGuard.lean) compared exactly with the same quantities computed from the real code on every generated case; guard true and real undo failing would be reported.",
   design="§5 C04"),
 "C05": dict(
   technique="Lean 4 round-trip theorems fromJson(toJson x) = x for marks, nodes (any depth), fragments, slices and the eight step kinds, attribute defaulting, registry; exact correspondence of to_json/from_json through real json.dumps/loads; aliasing probe; registry probed from a fresh interpreter; malformed-JSON stream",
   text="10 kernel-checked theorems (Props/C05.lean) over a model of the JSON forms for unbounded documents; real to_json / from_json compared both ways on generated objects incl. structured attribute values.",
   note=T + "Python's json/str encoding is modelled as the identity on JSON data. 'Does not alias live attribute objects' is object identity, outside a pure model: decided by the mutation probe only.",
   design="§5 C05"),
 "C06": dict(
   technique="Lean 4 theorems compile_accepts / compile_live: for EVERY expression the automaton produced by the model of the real compiler (parser AST, nfa, null_from, dfa, BFS numbering) accepts exactly the expression's language and keeps exactly the extendable prefixes alive, plus compile_deadEnd; the model is tied exactly to the real compiler (AST, NFA, closures, automaton, accept/reject) on every generated expression; additionally a verified certificate checker re-proves equivalence by the kernel for the bundled expressions against the automata dumped from the running code (regenerated lean/Gen/DfaCerts.lean)",
   text="{n} kernel-checked theorems (Props/C06.lean; Proofs/Compile*.lean, Proofs/Regex.lean, Proofs/SpecParse.lean; semantics = Mathlib RegularExpression.matches') for all expressions and sequences of unbounded length, plus ~50 regenerated certificate theorems per run; schema construction (buildSchema) accepts exactly the well-formed, live specs and its automata accept the specified languages. The proof of the general theorem exposed two defects of the pinned code (`{0,}` loop on a shared node; local dead-end check), both repaired.",
   note=T + "The grammar reader specParse (60 lines, total) is the specification of 'the expression read as a regular expression'; parse_agrees proves that the model of the code's parser reads every expression with plain numbers exactly as specParse does (PlainNumbers: what Python's int() accepts beyond ASCII digits is tied, not proved).",
   design="§5 C06"),
 "C07": dict(
   technique="Lean 4 theorems: valid_content / check / can_replace / can_replace_with / can_append / create_checked equal the definition of validity over the spliced child sequence; node-level tables of a compiled schema follow from the spec (compileSchema); exact correspondence of all predicates, of create_checked and of schema construction field by field",
   text="18 kernel-checked theorems (Props/C07.lean) for arbitrary automata and nodes; exact correspondence of the predicates on generated nodes, index ranges, replacement fragments and candidate types every run; the independent validator decides the expected answers.",
   note=T + "The automaton is an input here; its agreement with the content expression is C06's subject.",
   design="§5 C07"),
 "C08": dict(
   technique="Lean 4 theorems over an executable model of StepMap/Mapping (prefix-sum rule, monotonicity, deletion flags, recover, for_each, touches, inversion, composition under slice/append/invert, mirror round trip for palindrome chains of any length) + exact correspondence of every map/mapping operation + copy-independence oracle",
   text="23 kernel-checked theorems (Props/C08.lean) for maps with any number of ranges of any size, both orientations and sides; exhaustive small scope in the thorough tier.",
   note=T + "Guards: WF (sorted, non-overlapping) for the rule; StrictWF (a position between ranges) for for_each/map agreement and mirror round trips, with counterexample theorems showing the guard is needed.",
   design="§5 C08"),
 "C09": dict(
   technique="Lean 4 theorems relating resolve and every accessor (depth, ancestors, indices, start/end/before/after, offsets, node before/after, marks, marks_across, shared depth, block range, NodeRange), node_at, nodes_between (sound AND complete, document order), range_has_mark and text_between (with separators) to the flat UTF-16 token sequence; exact correspondence of every accessor at every aligned position / range; token-picture oracles",
   text="40 kernel-checked theorems (Props/C09.lean; Proofs/Resolve, ResolveNodes, Traverse, Range) for unbounded documents.",
   note=T + "Guards: pair-aligned positions; NoEmptyText (implied by normal form) where the code clips empty text nodes.",
   design="§5 C09"),
 "C10": dict(
   technique="effect summary regenerated from the source on every run (AST mutation-site table with reaching definitions -> lean/Gen/Effects.lean, `decide +kernel`: no site is external) + Lean append-only frame theorems for the two accumulators + snapshot search over random histories incl. operation arguments, DOM parsing with mark-clearing style rules, mirrored mappings",
   text="Partial by nature: a pure model cannot prove absence of in-place mutation. 3 theorems + 1 regenerated obligation; the translator keys every syntactic mutation site by function, receiver, mutator and reaching definitions and classifies it by rule (private state = an object's own fields only).",
   note=T + "Largest trusted piece: the syntactic, intra-procedural escape analysis and its reviewed-site table; mutation through aliases made in another function, setattr or C extensions is found by the snapshot search only.",
   design="§5 C10"),
 "C11": dict(
   technique="Lean 4 theorems over an executable model of replace_step incl. the Fitter as a state machine, fits_trivially, delete_range, replace_range, replace_range_with and close_fragment: the emitted step starts at `from`, extends the range only over close tokens (fit_range), inserts only an in-order subsequence of the requested text (fitter text invariant), hence content preservation for every fitted replace step, for delete_range and for replace_range as wholes; TERMINATION of the fitting loop characterised exactly (fitStep_decreases, fitLoop_outOfFuel_exact: the model runs out of fuel iff the loop provably cycles; fitLoop_terminates under the decidable guard termGuard); TOTALITY proved for deletions (delete_total, deleteRange_total) and closed slices of leaf/text nodes (insertInline_total); exact correspondence of the emitted step with the real replace_step / delete_range / replace_range on every generated case, guards evaluated on every request; totality for other slices by search over the bundled family",
   text="{n} kernel-checked theorems (Props/C11.lean; Proofs/Fitter, FitterText, RangeOps, ReplaceRange, Respects, FitMeasure, FitTerm, FitLoop, FitTotal, FitDelete, FitInline, FillOrder). The Fitter model agrees with the real fitter on >10^5 generated requests per thorough run.",
   note=T + "fitter_respects is partial for replace-around steps (one conjunct stays a monitored hypothesis); 'never raises' for slices that get opened is proved only as far as fuel (fit_no_internal_partial) and otherwise decided by search (open finding C11-fitter-partial-node: clipboard-style slices); a divergence example outside the bundled family is proved in the model and reproduced on the real code in every run; termination of the real loops by a per-call alarm.",
   design="§5 C11"),
 "C12": dict(
   technique="Lean 4 theorems over executable models of the four builders (lift, wrap, split, join) and all helpers (can_split, can_join, join_point, lift_target, find_wrapping, insert_point, drop_point, can_change_type): every built step is structural and, if it applies, preserves the text/leaf sequence exactly; returned positions/depths are in range; the helpers never raise on valid documents and in-range, aligned input; AN APPROVED EDIT SUCCEEDS for split, join, wrap and lift (canSplit_split_applies, canJoin_join_applies, findWrapping_wrap_succeeds, liftTarget_lift_applies) under decidable guards found by the proofs; exact correspondence of every built step, every helper answer and the guards",
   text="{n} kernel-checked theorems (Props/C12.lean; Proofs/StructEdit, Structure, Structure2, SplitSuccess, JoinSuccess, WrapSuccess, LiftSuccess).",
   note=T + "The success theorems carry guards (splitGuard, joinGuard, wrapGuard, liftGuard) that hold on the bundled family wherever the helper approves, are evaluated on every approved case, and are each shown necessary on exotic schemas; success after insert_point / drop_point is decided by search on the bundled family; open findings: lift of nested list items, wrap ignoring marks, fitter-partial-node in the drop_point follow-up.",
   design="§5 C12"),
 "C13": dict(
   technique="Lean 4 theorems over executable models of the planners (add_mark, remove_mark incl. mark-type and all-marks forms, add/remove_node_mark, set_node_attribute, set_node_markup, clear_incompatible, set_block_type): token-level effect of the whole plan (documented add rule, nothing matching left after removal, structure/text and marks outside unchanged, node-level edits local, retyping keeps children), the range planners never fail on valid documents (addMark_total, removeMark_total); the node planners are proved both against recorded Fitter answers and with the Fitter model plugged in (TypePlanFit: *_agrees, clearIncompatibleF_spec, setBlockTypeF_spec_plain); exact correspondence of the emitted step lists, final documents and Fitter consultations",
   text="{n} kernel-checked theorems (Props/C13.lean; Proofs/MarkPlan, MarkEffect, MarkTotal, TypePlan, TypePlanFit, KeptChildren).",
   note=T + "planAddMark_exact carries the flat-range hypothesis (an inline node with content in the range makes the exact rule false in code and upstream; the general planAddMark_effect holds everywhere). Where clear_incompatible consults the Fitter for fillers the theorem states exactly what is known of the answer (no text, close tokens only); for plain target types the Fitter is provably never consulted.",
   design="§5 C13"),
 "C14": dict(
   technique="Lean 4 theorems: add_to_set equals the documented rule, canonical form is an invariant of every add/remove sequence, check()'s mark test accepts exactly canonical sets, removal/membership/equality/filtering are the set operations; the exclusion and permission tables of a compiled schema follow from the spec (excluded_spec, markSet_spec, compile_accepts_iff); exact correspondence of every mark operation and of schema construction",
   text="30 kernel-checked theorems (Props/C14.lean; Proofs/Marks, SchemaCompile).",
   note=T,
   design="§5 C14"),
 "C15": dict(
   technique="Lean 4 theorems: filler search sound and complete; wrapper search sound, COMPLETE and SHORTEST; create_and_fill returns a valid node containing the content in order, returns nothing exactly when no filling exists (LiveSchema), never dies internally; the copies of these searches used by the Fitter, the planners and the HTML parser are proved equal to them (Proofs/Unify) so the theorems transfer; exact correspondence of fill_before, find_wrapping (same chain) and create_and_fill",
   text="{n} kernel-checked theorems (Props/C15.lean; Proofs/Fill, Wrap, CreateFill, MkNode, Unify, FillOrder).",
   note=T + "Guards: deterministic automata, LiveSchema (what the repaired dead-end check of the schema constructor guarantees). Recursion of create_and_fill on ill-founded schemas is modelled by fuel with an explicit outOfFuel outcome.",
   design="§5 C15"),
 "C16": dict(
   technique="Lean 4 theorems: a merged step yields the token sequence / document of the two steps; merged mark steps APPLY whenever the pair does (merge_succeeds_marks, unconditional equivalence merge_equiv_marks under TextLoop); merged replace steps apply — flat slices in every schema (merge_succeeds_replace_flat), slices open on their outer sides and ranges across node boundaries under compatTransB (merge_succeeds_replace; merge_needs_guard shows the guard necessary); relational correspondence of merge; search over bundled and random schemas",
   text="{n} kernel-checked theorems (Props/C16.lean; Proofs/Merge, MarkMerge, FlatReplace, MergeOpen, MergeRel, SpineCongr, ReplaceAligned).",
   note=T + "compatTransB (compatible_content transitive) holds for every bundled-family schema and is evaluated through the driver on each; which pairs merge is not pinned by the property.",
   design="§5 C16"),
 "C17": dict(
   technique="Lean 4 theorems: rebasing over a separated step never drops a step and shifts it exactly (replace, replace-around, markup steps, also inside a replace-around step's kept gap); both orders give equal token sequences / documents for replace-replace, replace-node-step, markup-markup, replace-around against replace / replace-around / node / mark steps, and replace-mark pairs under the explicit guard ParentStable; BOTH ORDERS APPLY (commute_succeeds_*) for replace-replace and replace vs. replace-around under the decidable commuteGuard; exact correspondence of Step.map incl. overlapping pairs and of the whole rebase-and-apply square; convergence search",
   text="{n} kernel-checked theorems (Props/C17.lean; Proofs/Commute*, CommuteAround*, ContentBetweenToks).",
   note=T + "Success of both orders is not yet proved for a partner inside a replace-around step's gap and for two replace-around steps (convergence is; decided by search there); open finding C17-parent-retyped (the guard ParentStable is necessary).",
   design="§5 C17"),
 "C18": dict(
   technique="Lean 4 theorems: a step whose range lies within an isolating node leaves everything outside untouched; covered_depths, delete_range's widened range, lift_target and can_split never cross an isolating ancestor (over executable models tied exactly); exact correspondence of Slice.max_open, the emitted steps and the helpers; literal token oracle",
   text="14 kernel-checked theorems (Props/C18.lean; Proofs/Structure, RangeOps).",
   note=T + "Open findings (upstream): the Fitter splits an isolating node when content cannot be placed; insert_point walks out of it; fitter-partial-node.",
   design="§5 C18"),
 "C19": dict(
   technique="Lean 4 theorems for both directions: escaping is lossless, the serializer carries the text; context expressions match exactly the declarative reading (matchesContext_spec, context_rules_apply_exactly); the WHOLE PARSE is modelled — the DOM walk over an abstract DOM (rule and style matching order, whitespace rewrites, normalize_list, pending/active marks, the placement core) with proved termination — and parse_total, parse_valid (whatever parse returns is schema-valid), parse_no_internal (no internal error under decidable guards on schema, rules and DOM) are proved for every DOM and every oracle; exact ties: serializer output, matches_context, schema_rules order, and the whole parse (event list, final document) against real parses",
   text="{n} kernel-checked theorems (Props/C19.lean; Proofs/Dom, FromDom, Placement*, DomWalk, DomWalkSafe, PlacementNoInternal).",
   note=T + "Oracle boundary (NOT modelled, answers recorded from the real run and fed to the model): lxml's HTML tokenizer, CSS selector matching, get_attrs callables, parse_styles' regex, clear_mark callables; their termination and crash-freedom are decided by search with a per-call alarm. The export-import round trip is decided by search. parse_valid needs Det, TextStable, LeafOk (counterexample schemas recorded).",
   design="§5 C19"),
 "C20": dict(
   technique="Lean 4 theorems: find_diff_start/end return none iff equal and otherwise the common prefix/suffix length of the marked-up token sequences; exact correspondence incl. identity-sharing before/after pairs under a per-call alarm",
   text="6 kernel-checked theorems (Props/C20.lean).",
   note=T + "Termination of the Python loops is decided by the alarm; guard: normal form.",
   design="§5 C20"),
}

NOT_YET = {
}

def ntheorems(pid):
    import re
    src = open(os.path.join(V, "lean", "Props", pid + ".lean")).read()
    return len(re.findall(r"^theorem ", src, re.M))

def main():
    props = [json.loads(l) for l in open(os.path.join(V, "properties.jsonl"))]
    checks = []
    na = []
    for p in props:
        pid = p["id"]
        if pid in CLAIMED:
            c = CLAIMED[pid]
            checks.append({
                "property_id": pid,
                "quick_cmd": f"./check {pid} quick",
                "thorough_cmd": f"./check {pid} thorough",
                "evidence_file": f"/verif/evidence/{pid}.json",
                "replay_cmd_template": "./check --replay {path}",
                "engine": "lean-proof+correspondence",
                "level_claimed": {"category": "proof", "text": re.sub(r"^(\{n\}|\d+) kernel-checked", f"{ntheorems(pid)} kernel-checked", c["text"]), "design_ref": c["design"]},
                "level_note": c["note"],
                "technique": c["technique"],
            })
        else:
            na.append({"property_id": pid, "reason": NOT_YET.get(pid, "machinery for this property is still under construction in this tree; not claimed until its theorems and correspondence check are in place (see DESIGN.md §5)")})
    m = {
        "version": 1,
        "setup_cmd": "cd /verif/lean && lake build PM Proofs Props pmdriver",
        "hooks": {
            "guard": "PROSEMIRROR_PY_VERIF",
            "enable": "no source hooks: checks import /repo's working tree in-process (PYTHONPATH=/repo) and observe the public API; the variable is set by ./check for completeness",
            "baseline_off_cmd": "cd /repo && /venv/bin/python -m pytest -ra -q -p no:cacheprovider --timeout=900 --continue-on-collection-errors",
            "source_commits": [],
            "add_only": True,
        },
        "engines": [{
            "name": "lean-proof+correspondence",
            "path": "/verif/check",
            "serves_properties": [c["property_id"] for c in checks],
            "kind_free_text": "Lean 4 theorems about a hand-written executable model (lean/PM, lean/Props) + differential correspondence of the model with the real Python code through a JSON-lines driver (lean/Driver) + Python property oracles as failing-input search (harness/)",
        }],
        "checks": checks,
        "not_applicable": na,
        "notes": "See DESIGN.md. Fix commits in /repo (37) and the open findings are recorded in KNOWN_FINDINGS.jsonl; an open finding matches a violation only if its class predicate (harness/findings.py) holds and the tree under check behaves on that input exactly as the frozen copy of the library under /verif/reference (harness/reference.py). Seeded changes used to test the checks are under /verif/seeded (DESIGN.md §9).",
    }
    json.dump(m, open(os.path.join(V, "MANIFEST.json"), "w"), indent=1)
    print("claimed", [c["property_id"] for c in checks])

main()
