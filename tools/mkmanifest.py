#!/usr/bin/env python3
"""Regenerates MANIFEST.json from the table below (kept in one place so it stays valid)."""
import json, os
V = os.path.dirname(os.path.dirname(os.path.abspath(__file__)))

CLAIMED = {
 "C08": dict(
   technique="Lean 4 theorems over an executable model of StepMap/Mapping (prefix-sum rule, monotonicity, deletion flags, recover, for_each, touches, inversion, composition, mirror round trip) + exact differential correspondence of every map/mapping operation with the model + documented-rule oracle on the real code",
   text="19 kernel-checked theorems (Props/C08.lean) state the documented mapping rule in closed prefix-sum form for maps with any number of ranges of any size, both orientations and sides; the model is tied to /repo on every run by running the real StepMap/Mapping and the model on the same maps (exhaustive small scope in the thorough tier) and diffing; an independent Python statement of the rule searches for failing inputs.",
   note="Trusted: Lean kernel + propext/Classical.choice/Quot.sound; the hand-written model lean/PM/Map.lean (tied by sampling, not proved equal to the Python); harness generators/codec. The k-map mirror round trip is proved for one mirrored pair (mirror_roundtrip_one); longer rebasing-style chains are covered by correspondence + search only.",
   design="§5 C08"),

 "C02": dict(
   technique="Lean 4 theorems: replace = token splice, slice = token range with open depths, size arithmetic, normal form, re-insertion identity, token injectivity — over a structural-recursion model of replace/slice/cut; exact differential correspondence with Node.slice/cut/replace; token-splice oracle on the real code",
   text="13 kernel-checked property theorems (Props/C02.lean, ~2700 lines of supporting proofs) about the executable model of Fragment.cut / Node.slice / replace (three-way/two-way rebuild incl. joins, close checks, text merging) for unbounded trees and every open-depth combination; the model is run against the real code on generated (schema, document, range, slice) cases every run and outputs/outcomes are diffed; an independent Python tokenizer states the splice law directly on the real code.",
   note="Trusted: Lean kernel (+ propext, Classical.choice, Quot.sound), the model lean/PM/{Basic,Fragment,Content,Replace}.lean tied by sampling, harness. Success of re-insertion ('the replace returns') is checked by correspondence/search, the theorem `reinsert` is conditional on it. Positions inside a surrogate pair are outside the guard (Python cannot represent the cut).",
   design="§5 C02"),
 "C14": dict(
   technique="Lean 4 theorems: add_to_set equals the documented rule for every schema/set, canonical form is an invariant of every add/remove sequence, check()'s mark test accepts exactly canonical sets, removal/membership/equality/filtering are the set operations; exact differential correspondence over random mark configurations",
   text="18 kernel-checked theorems (Props/C14.lean) over the model of Mark.add_to_set/remove_from_set/is_in_set/same_set/set_from and NodeType.allowed_marks/allows_marks for arbitrary exclusion relations and unbounded sets; exact correspondence and a documented-rule oracle on random configurations ('_', empty, names, groups) every run.",
   note="Trusted: Lean kernel, model lean/PM/Marks.lean tied by sampling, harness; compilation of `excludes`/`marks` spec strings into tables is compared with an independent reading of the spec in the harness, not proved.",
   design="§5 C14"),
 "C20": dict(
   technique="Lean 4 theorems: find_diff_start/end return none iff equal and otherwise the common prefix/suffix length of the marked-up token sequences; exact differential correspondence incl. identity-sharing before/after pairs under a per-call alarm",
   text="6 kernel-checked theorems (Props/C20.lean) about the structural model of find_diff_start/find_diff_end (UTF-16 units); the real functions are run on self pairs, JSON-rebuilt copies, before/after pairs of random edits (sharing nodes by identity) and unrelated documents, each call under a 2 s alarm, and compared with the model and with an lcp/lcs oracle over to_json().",
   note="Trusted: Lean kernel, model lean/PM/Diff.lean tied by sampling, harness. Termination of the Python loops cannot be a theorem about a total Lean function: it is decided by the alarm (a hang is a violation with the pair as replay). Guard: documents in normal form (no empty text, adjacent same-markup text merged), which every library constructor maintains.",
   design="§5 C20"),
}

NOT_YET = {
}

def main():
    props = [json.loads(l) for l in open(os.path.join(V, "properties.jsonl"))]
    checks = []
    na = []
    for p in props:
        pid = p["id"]
        if pid in CLAIMED:
            c = CLAIMED[pid]
            checks.append({
                "property_id": pid,
                "quick_cmd": f"./check {pid} quick",
                "thorough_cmd": f"./check {pid} thorough",
                "evidence_file": f"/verif/evidence/{pid}.json",
                "replay_cmd_template": "./check --replay {path}",
                "engine": "lean-proof+correspondence",
                "level_claimed": {"category": "proof", "text": c["text"], "design_ref": c["design"]},
                "level_note": c["note"],
                "technique": c["technique"],
            })
        else:
            na.append({"property_id": pid, "reason": NOT_YET.get(pid, "machinery for this property is still under construction in this tree; not claimed until its theorems and correspondence check are in place (see DESIGN.md §5)")})
    m = {
        "version": 1,
        "setup_cmd": "cd /verif/lean && lake build PM Proofs Props pmdriver",
        "hooks": {
            "guard": "PROSEMIRROR_PY_VERIF",
            "enable": "no source hooks: checks import /repo's working tree in-process (PYTHONPATH=/repo) and observe the public API; the variable is set by ./check for completeness",
            "baseline_off_cmd": "cd /repo && /venv/bin/python -m pytest -ra -q -p no:cacheprovider --timeout=900 --continue-on-collection-errors",
            "source_commits": [],
            "add_only": True,
        },
        "engines": [{
            "name": "lean-proof+correspondence",
            "path": "/verif/check",
            "serves_properties": [c["property_id"] for c in checks],
            "kind_free_text": "Lean 4 theorems about a hand-written executable model (lean/PM, lean/Props) + differential correspondence of the model with the real Python code through a JSON-lines driver (lean/Driver) + Python property oracles as failing-input search (harness/)",
        }],
        "checks": checks,
        "not_applicable": na,
        "notes": "See DESIGN.md. Fix commits in /repo are recorded in KNOWN_FINDINGS.jsonl.",
    }
    json.dump(m, open(os.path.join(V, "MANIFEST.json"), "w"), indent=1)
    print("claimed", [c["property_id"] for c in checks])

main()
