#!/usr/bin/env python3
"""tools/mutsweep.py [--n N] [--seed S] [--jobs J] [--files glob,...] [--out DIR] [--list]

Automatic mutation sweep: measures how tight the tie between the model and /repo's source is.

Small syntactic mutants of the library (comparison operators, +/-1, and/or, not, constants, slice bounds, dropped
`if` guards, `return`/`continue`/`break` swapped, …) are generated from the AST of the files the properties are
anchored in.  Each mutant is applied to a scratch worktree of /repo (never /repo itself), compiled, run against the
pinned test-suite, and — when the tests still pass, i.e. exactly the situation the checks exist for — run against the
quick checks of every property anchored in the mutated file (VERIF_REPO / VERIF_OUT point the check at the scratch
tree).  Outcome per mutant:

  tests      the existing test-suite fails (not interesting here)
  caught     some check exits 1 with a VIOLATION line (the first one is recorded; `no_witness` says whether only a
             proof obligation / correspondence broke)
  survived   tests pass and every relevant check is green: either an equivalent mutant (behaviour unchanged or changed
             only outside every property) or a blind spot of the generators — to be triaged by hand
  error      a check exited with another status (harness failure; to be looked at)

This is search, not proof: it decides nothing about the properties; it only says where the correspondence is thin.
Results: <out>/results.jsonl (one line per mutant), <out>/summary.json.
"""
import ast
import concurrent.futures as cf
import fnmatch
import json
import os
import random
import re
import subprocess
import sys
import time

import threading

VERIF = os.path.dirname(os.path.dirname(os.path.abspath(__file__)))
REPO = "/repo"
# C06 and C10 regenerate a Lean file of their own (lean/Gen/DfaCerts.lean, Effects.lean) before they build: one at a time
SERIAL = {"C06": threading.Lock(), "C10": threading.Lock()}


class _NoLock:
    def __enter__(self): return self
    def __exit__(self, *a): return False


def sh(cmd, timeout=None, env=None, cwd=None):
    try:
        return subprocess.run(cmd, shell=True, capture_output=True, text=True, timeout=timeout, env=env, cwd=cwd)
    except subprocess.TimeoutExpired as e:
        class R:  # noqa: D401
            returncode, stdout, stderr = 124, (e.stdout or b"").decode() if isinstance(e.stdout, bytes) else (e.stdout or ""), "timeout"
        return R()


def anchors():
    """file -> properties anchored in it"""
    m = {}
    for line in open(os.path.join(VERIF, "properties.jsonl")):
        p = json.loads(line)
        for f in p["anchors"]["files"]:
            m.setdefault(f, []).append(p["id"])
    return m


CMP = {ast.Lt: "<", ast.LtE: "<=", ast.Gt: ">", ast.GtE: ">=", ast.Eq: "==", ast.NotEq: "!=", ast.Is: "is", ast.IsNot: "is not",
       ast.In: "in", ast.NotIn: "not in"}
CMP_SWAP = {"<": ["<=", ">"], "<=": ["<", "=="], ">": [">=", "<"], ">=": [">", "=="], "==": ["!="], "!=": ["=="],
            "is": ["is not"], "is not": ["is"], "in": ["not in"], "not in": ["in"]}


def seg(src_lines, node):
    return ast.get_source_segment("\n".join(src_lines), node)


class Collector(ast.NodeVisitor):
    def __init__(self, src):
        self.src = src
        self.lines = src.split("\n")
        self.offs = [0]
        for l in self.lines:
            self.offs.append(self.offs[-1] + len(l.encode()) + 1)
        self.bsrc = src.encode()
        self.muts = []   # (start_byte, end_byte, replacement, kind, lineno)
        self.func = []

    def pos(self, lineno, col):
        return self.offs[lineno - 1] + col

    def span(self, node):
        return self.pos(node.lineno, node.col_offset), self.pos(node.end_lineno, node.end_col_offset)

    def add(self, a, b, rep, kind, lineno):
        self.muts.append((a, b, rep, kind, lineno, ".".join(self.func)))

    def visit_FunctionDef(self, node):
        self.func.append(node.name)
        self.generic_visit(node)
        self.func.pop()

    visit_AsyncFunctionDef = visit_FunctionDef

    def visit_ClassDef(self, node):
        self.func.append(node.name)
        self.generic_visit(node)
        self.func.pop()

    def visit_Compare(self, node):
        left = node.left
        for op, right in zip(node.ops, node.comparators):
            a = self.pos(left.end_lineno, left.end_col_offset)
            b = self.pos(right.lineno, right.col_offset)
            between = self.bsrc[a:b].decode()
            tok = CMP.get(type(op))
            if tok and tok in between and "\n" not in between and "(" not in between and ")" not in between:
                i = between.index(tok)
                for rep in CMP_SWAP[tok]:
                    self.add(a + i, a + i + len(tok), rep, f"cmp {tok}->{rep}", node.lineno)
            left = right
        self.generic_visit(node)

    def visit_BoolOp(self, node):
        for x, y in zip(node.values, node.values[1:]):
            a = self.pos(x.end_lineno, x.end_col_offset)
            b = self.pos(y.lineno, y.col_offset)
            between = self.bsrc[a:b].decode()
            tok = "and" if isinstance(node.op, ast.And) else "or"
            m = re.search(r"\b%s\b" % tok, between)
            if m and "(" not in between and ")" not in between:
                self.add(a + m.start(), a + m.end(), "or" if tok == "and" else "and", f"bool {tok}", node.lineno)
        # drop one operand
        if len(node.values) == 2:
            a, b = self.span(node)
            for keep in node.values:
                ka, kb = self.span(keep)
                self.add(a, b, self.bsrc[ka:kb].decode(), "bool drop-operand", node.lineno)
        self.generic_visit(node)

    def visit_UnaryOp(self, node):
        if isinstance(node.op, ast.Not):
            a, b = self.span(node)
            oa, ob = self.span(node.operand)
            self.add(a, b, "(" + self.bsrc[oa:ob].decode() + ")", "not removed", node.lineno)
        self.generic_visit(node)

    def visit_BinOp(self, node):
        if isinstance(node.op, (ast.Add, ast.Sub)):
            a = self.pos(node.left.end_lineno, node.left.end_col_offset)
            b = self.pos(node.right.lineno, node.right.col_offset)
            between = self.bsrc[a:b].decode()
            tok = "+" if isinstance(node.op, ast.Add) else "-"
            if tok in between and "(" not in between and ")" not in between and "\n" not in between:
                i = between.index(tok)
                self.add(a + i, a + i + 1, "-" if tok == "+" else "+", f"arith {tok}", node.lineno)
            # x + 1 -> x ; x - 1 -> x
            if isinstance(node.right, ast.Constant) and node.right.value == 1 and type(node.right.value) is int:
                sa, sb = self.span(node)
                la, lb = self.span(node.left)
                self.add(sa, sb, self.bsrc[la:lb].decode(), f"arith drop {tok}1", node.lineno)
        self.generic_visit(node)

    def visit_Constant(self, node):
        a, b = self.span(node)
        v = node.value
        if v is True:
            self.add(a, b, "False", "const True", node.lineno)
        elif v is False:
            self.add(a, b, "True", "const False", node.lineno)
        elif type(v) is int and v in (0, 1, 2, -1) and self.bsrc[a:b].decode().strip().lstrip("-").isdigit():
            self.add(a, b, str(v + 1), f"const {v}->{v + 1}", node.lineno)
            if v > 0:
                self.add(a, b, str(v - 1), f"const {v}->{v - 1}", node.lineno)

    def visit_If(self, node):
        # `if c: <return|continue|break|raise …>` without else: drop the guard entirely (replace the test by False)
        ta, tb = self.span(node.test)
        if not node.orelse and len(node.body) == 1 and isinstance(node.body[0], (ast.Return, ast.Continue, ast.Break, ast.Raise)):
            self.add(ta, tb, "False", "guard dropped", node.lineno)
        elif not node.orelse:
            self.add(ta, tb, "False", "if-body skipped", node.lineno)
        else:
            self.add(ta, tb, "not (" + self.bsrc[ta:tb].decode() + ")", "if negated", node.lineno)
        self.generic_visit(node)

    def visit_While(self, node):
        self.generic_visit(node)

    def visit_Continue(self, node):
        a, b = self.span(node)
        self.add(a, b, "break", "continue->break", node.lineno)

    def visit_Break(self, node):
        a, b = self.span(node)
        self.add(a, b, "continue", "break->continue", node.lineno)

    def visit_Subscript(self, node):
        s = node.slice
        if isinstance(s, ast.Slice):
            for part, nm in ((s.lower, "lower"), (s.upper, "upper")):
                if part is not None:
                    a, b = self.span(part)
                    self.add(a, b, "(" + self.bsrc[a:b].decode() + ") + 1", f"slice {nm}+1", node.lineno)
        self.generic_visit(node)

    def visit_IfExp(self, node):
        ta, tb = self.span(node.test)
        self.add(ta, tb, "not (" + self.bsrc[ta:tb].decode() + ")", "ifexp negated", node.lineno)
        self.generic_visit(node)

    def visit_Call(self, node):
        # swap first two positional arguments of a call when both are simple names/attributes (argument order slips)
        if len(node.args) >= 2 and all(isinstance(x, (ast.Name, ast.Attribute)) for x in node.args[:2]):
            a0, b0 = self.span(node.args[0])
            a1, b1 = self.span(node.args[1])
            x, y = self.bsrc[a0:b0].decode(), self.bsrc[a1:b1].decode()
            if x != y and node.args[0].lineno == node.args[1].end_lineno:
                self.add(a0, b1, y + self.bsrc[b0:a1].decode() + x, "args swapped", node.lineno)
        self.generic_visit(node)


def collect(path):
    src = open(os.path.join(REPO, path)).read()
    c = Collector(src)
    c.visit(ast.parse(src))
    out = []
    for (a, b, rep, kind, lineno, func) in c.muts:
        old = c.bsrc[a:b].decode()
        if old == rep:
            continue
        line = c.lines[lineno - 1]
        if "TYPE_CHECKING" in line or "isinstance" in line and kind.startswith("const"):
            continue
        out.append({"file": path, "a": a, "b": b, "rep": rep, "old": old, "kind": kind, "line": lineno, "func": func})
    return out


def run_mutant(m, idx, out, seeds, tier):
    wt = f"/tmp/mutsweep_wt_{idx}"
    res = dict(m, id=idx)
    t0 = time.time()
    sh(f"git -C {REPO} worktree remove --force {wt}")
    r = sh(f"git -C {REPO} worktree add -q --detach {wt} HEAD")
    if r.returncode:
        res["outcome"] = "error"; res["detail"] = "worktree: " + r.stderr[-200:]
        return res
    try:
        p = os.path.join(wt, m["file"])
        b = open(p, "rb").read()
        nb = b[:m["a"]] + m["rep"].encode() + b[m["b"]:]
        open(p, "wb").write(nb)
        res["diff"] = sh(f"git -C {wt} diff -U0 | tail -n +5").stdout[-600:]
        env = dict(os.environ, PYTHONPATH=wt, PYTHONDONTWRITEBYTECODE="1")
        c = sh(f"/venv/bin/python -c \"import ast,sys; ast.parse(open('{p}').read())\"", env=env)
        if c.returncode:
            res["outcome"] = "syntax"; return res
        t = sh(f"cd {wt} && /venv/bin/python -m pytest -q -x -p no:cacheprovider --timeout=60 2>&1 | tail -3", timeout=600, env=env)
        if not re.search(r"\b442 passed\b", t.stdout) or "failed" in t.stdout or "error" in t.stdout.lower():
            res["outcome"] = "tests"; res["tests_tail"] = t.stdout.strip()[-200:]
            return res
        res["checks"] = {}
        outdir = f"{wt}/_out"
        for prop in m["props"]:
            for seed in seeds:
                cenv = dict(os.environ, VERIF_SEED=str(seed), VERIF_REPO=wt, VERIF_OUT=outdir)
                with SERIAL.get(prop, _NoLock()):
                    c = sh(f"{VERIF}/check {prop} {tier}", timeout=1500, env=cenv)
                viol = [l for l in c.stdout.splitlines() if l.startswith("VIOLATION ")]
                res["checks"][f"{prop}@{seed}"] = {"exit": c.returncode, "violations": len(viol)}
                if c.returncode == 1 and viol:
                    kind = "?"
                    try:
                        kind = json.load(open(viol[0].split("replay=")[1].split()[0])).get("kind")
                    except Exception:  # noqa: BLE001
                        pass
                    res["outcome"] = "caught"
                    res["caught_by"] = prop
                    res["viol_kind"] = str(kind)[:200]
                    res["no_witness"] = all(l.endswith("no-failing-input-found") for l in viol)
                    return res
                if c.returncode not in (0, 1):
                    res["checks"][f"{prop}@{seed}"]["stderr"] = (c.stderr or "")[-400:]
        bad = [k for k, v in res["checks"].items() if v["exit"] not in (0, 1)]
        res["outcome"] = "error" if bad else "survived"
        return res
    finally:
        res["wall_s"] = round(time.time() - t0, 1)
        sh(f"git -C {REPO} worktree remove --force {wt}")
        sh(f"rm -rf {wt}")


def main():
    args = sys.argv[1:]
    n, seed, jobs, out, files, seeds, tier, only_list, cross = 200, 0, 8, os.path.join(VERIF, "mutsweep"), None, [1], "quick", False, False
    i = 0
    while i < len(args):
        if args[i] == "--n": n = int(args[i + 1]); i += 2
        elif args[i] == "--seed": seed = int(args[i + 1]); i += 2
        elif args[i] == "--jobs": jobs = int(args[i + 1]); i += 2
        elif args[i] == "--out": out = args[i + 1]; i += 2
        elif args[i] == "--files": files = args[i + 1].split(","); i += 2
        elif args[i] == "--seeds": seeds = [int(x) for x in args[i + 1].split(",")]; i += 2
        elif args[i] == "--list": only_list = True; i += 1
        elif args[i] == "--cross": cross = True; i += 1
        else: raise SystemExit("unknown argument " + args[i])
    anc = anchors()
    paths = sorted(anc)
    if files:
        paths = [p for p in paths if any(fnmatch.fnmatch(p, g) for g in files)]
    allm = []
    for p in paths:
        if not os.path.exists(os.path.join(REPO, p)) or "/tests/" in p:
            continue
        for m in collect(p):
            m["props"] = ["C%02d" % k for k in range(1, 21)] if cross else anc[p]
            allm.append(m)
    print(f"{len(allm)} mutation sites in {len(paths)} files", flush=True)
    if only_list:
        by = {}
        for m in allm:
            by[m["file"]] = by.get(m["file"], 0) + 1
        print(json.dumps(by, indent=1))
        return 0
    rnd = random.Random(seed)
    rnd.shuffle(allm)
    chosen = allm[:n]
    os.makedirs(out, exist_ok=True)
    resf = open(os.path.join(out, f"results-seed{seed}.jsonl"), "a")
    counts = {}
    t0 = time.time()
    with cf.ThreadPoolExecutor(jobs) as ex:
        futs = [ex.submit(run_mutant, m, seed * 100000 + k, out, seeds, tier) for k, m in enumerate(chosen)]
        for k, f in enumerate(cf.as_completed(futs)):
            r = f.result()
            counts[r["outcome"]] = counts.get(r["outcome"], 0) + 1
            resf.write(json.dumps(r) + "\n"); resf.flush()
            print(f"[{k + 1}/{len(chosen)} {int(time.time() - t0)}s] {r['outcome']:9s} {r['file']}:{r['line']} {r['func']} "
                  f"{r['kind']}  `{r['old']}` -> `{r['rep']}`  {r.get('caught_by', '')} {r.get('viol_kind', '')}"[:230], flush=True)
    json.dump({"seed": seed, "n": len(chosen), "sites": len(allm), "counts": counts, "wall_s": round(time.time() - t0)},
              open(os.path.join(out, f"summary-seed{seed}.json"), "w"), indent=1)
    print(counts)
    return 0


if __name__ == "__main__":
    sys.exit(main())
