#!/usr/bin/env python3
"""tools/seeded.py [name ...] [--tier quick|thorough] [--props C01,C02] [--seeds 1,2]

Runs the registered checks against the seeded changes kept under /verif/seeded/<name>/ (patch.diff,
demo.py, meta.json).  For each: `git -C /repo apply patch.diff`, run the checks named in
meta.json["property"] (+ --props), record which reported a VIOLATION, and undo with
`git -C /repo checkout -- .` (always, also on error).  With --worktree the patch is applied to a scratch
worktree /tmp/seedrun_<name> instead (VERIF_REPO / VERIF_OUT point the check at it; removed afterwards), so
several seeded changes can be run in parallel without touching /repo — not for C06/C10, whose generated
Lean files (lean/Gen) are shared.  Results go to seeded/<name>/result.json and a
summary table is printed.  /repo must be clean when this starts.
"""
import json
import os
import subprocess
import sys
import time

VERIF = os.path.dirname(os.path.dirname(os.path.abspath(__file__)))
SEEDED = os.path.join(VERIF, "seeded")


def sh(cmd, **kw):
    return subprocess.run(cmd, shell=True, capture_output=True, text=True, **kw)


def main():
    args = sys.argv[1:]
    tier, props, seeds, names, worktree, cross, skip = "quick", None, ["1"], [], False, False, []
    i = 0
    while i < len(args):
        if args[i] == "--tier":
            tier = args[i + 1]; i += 2
        elif args[i] == "--props":
            props = args[i + 1].split(","); i += 2
        elif args[i] == "--seeds":
            seeds = args[i + 1].split(","); i += 2
        elif args[i] == "--worktree":
            worktree = True; i += 1
        elif args[i] == "--skip":
            skip = args[i + 1].split(","); i += 2
        elif args[i] == "--cross":
            # every registered check against the change (which other properties' checks notice it?)
            props = ["C%02d" % k for k in range(1, 21)]; cross = True; i += 1
        else:
            names.append(args[i]); i += 1
    if not names:
        names = sorted(d for d in os.listdir(SEEDED) if os.path.exists(os.path.join(SEEDED, d, "patch.diff")))
    if not worktree and sh("git -C /repo status --porcelain").stdout.strip():
        print("/repo is not clean; refusing", file=sys.stderr)
        return 2
    rows = []
    for name in names:
        d = os.path.join(SEEDED, name)
        meta = json.load(open(os.path.join(d, "meta.json")))
        todo = [x for x in (props or meta.get("checks") or [meta["property"]]) if x not in skip]
        repo, env_extra = "/repo", {}
        if worktree:
            repo = f"/tmp/seedrun_{name}"
            sh(f"git -C /repo worktree remove --force {repo}")
            sh(f"git -C /repo worktree add -q --detach {repo} HEAD")
            env_extra = {"VERIF_REPO": repo, "VERIF_OUT": f"{repo}/_out"}
        r = sh(f"git -C {repo} apply {d}/patch.diff")
        if r.returncode:
            print(f"{name}: patch does not apply: {r.stderr.strip()[:200]}")
            sh(f"git -C {repo} checkout -- .")
            rows.append((name, "patch-does-not-apply"))
            continue
        res = {}
        try:
            for p in todo:
                for seed in seeds:
                    t0 = time.time()
                    c = sh(f"{VERIF}/check {p} {tier}", env=dict(os.environ, VERIF_SEED=seed, **env_extra))
                    viol = [l for l in c.stdout.splitlines() if l.startswith("VIOLATION ")]
                    kinds = []
                    for l in viol:
                        try:
                            kinds.append(json.load(open(l.split("replay=")[1].split()[0])).get("kind"))
                        except Exception:  # noqa: BLE001
                            kinds.append("?")
                    res[f"{p}@{seed}"] = {"exit": c.returncode, "violations": len(viol), "kinds": sorted(set(map(str, kinds))),
                                          "no_witness": any(l.endswith("no-failing-input-found") for l in viol),
                                          "wall_s": round(time.time() - t0, 1)}
                    if c.returncode not in (0, 1):
                        res[f"{p}@{seed}"]["stderr"] = c.stderr[-600:]
        finally:
            sh(f"git -C {repo} checkout -- .")
            if worktree:
                sh(f"git -C /repo worktree remove --force {repo}")
        caught = sorted({k.split("@")[0] for k, v in res.items() if v["exit"] == 1})
        json.dump({"tier": tier, "seeds": seeds, "results": res, "caught_by": caught}, open(os.path.join(d, f"result-{'cross' if cross else tier}.json"), "w"), indent=1)
        rows.append((name, ("caught by " + ",".join(caught)) if caught else "MISSED", res))
        print(name, rows[-1][1], {k: (v["exit"], v["kinds"]) for k, v in res.items()}, flush=True)
    assert not sh("git -C /repo status --porcelain").stdout.strip()
    return 0


if __name__ == "__main__":
    sys.exit(main())
