import re,subprocess,sys,os
LEAN='/verif/lean'
groups={
 'T':['PM/MarkPlan','PM/TypePlan','Proofs/MarkPlan','Props/C13','Driver/ExtMarkPlan'],
 'O':['PM/RangeOps','PM/FillOrder','PM/Fitter','Proofs/Fitter','Proofs/FitterText','Proofs/RangeOps','Props/C11','Props/C18','Driver/ExtRange'],
 'D':['PM/FromDom','Proofs/FromDom','Proofs/Placement','Proofs/PlacementValid','Proofs/PlacementMarks','Props/C19','Driver/ExtDom'],
}
def group_of(mod):
    path=mod.replace('.','/')
    for g,fs in groups.items():
        if path in fs: return g
    return None
for it in range(30):
    p=subprocess.run(['lake','build','PM'],cwd=LEAN,capture_output=True,text=True)
    out=p.stdout+p.stderr
    m=re.search(r"import (\S+) failed, environment already contains '([^']+)' from (\S+)",out)
    if not m:
        print('PM builds' if p.returncode==0 else out[-1500:]); break
    B,name,A=m.groups()
    base=re.sub(r"\.(match_\d+|_f|_unary|_sunfold|eq_\d+|eq_def|induct\w*|proof_\d+|_proof_\d+|fun_cases\w*)$","",name)
    base=re.sub(r"\.(match_\d+|_f)$","",base)
    short=base.split('.')[-1]
    g=group_of(B) or group_of(A)
    tgt=B if group_of(B) else A
    print('clash',name,'between',A,B,'-> rename',short,'in group',g)
    if g is None: print('no group'); break
    for f in groups[g]:
        path=os.path.join(LEAN,f+'.lean')
        if not os.path.exists(path): continue
        s=open(path).read()
        s2=re.sub(r"(?<![\w'])"+re.escape(short)+r"(?![\w'])",short+g,s)
        if s2!=s: open(path,'w').write(s2)
