"""The export→import tables of a schema (C19): `DOMParser.from_schema(S)` in restricted form (`PM.RoundTrip.RParser`) and the
`toDOM` functions as data (`PM.RoundTrip.ToDomT`, lean/PM/RoundTripSchema.lean), read off the running library.

One function, `tables(info)`, feeds both users:
  * harness/translate_schemas.py renders its result as the Lean literals of lean/Gen/RoundTrip.lean (`rBasic`, `dtBasic`, …)
    whose schema part `rtSchemaOk` the kernel decides;
  * harness/props/c19.py sends the very same structure to the model driver with every round-trip case (`roundTripT`).

A `toDOM` function is turned into data by *probing*: it is called on a node / mark whose attribute values are marker
strings; a marker found whole as an attribute value is `node.attrs[k]`, a marker found inside the tag name is an f-string
part.  The function is then called at the attribute patterns the parse rules and the defaults name (heading levels 1–6,
`order == 1`, …): where the real output differs from the evaluated template (a conditional in `toDOM`), the pattern gets
its own entry.  That the table *is* the function is not assumed: the tie evaluates the table (`eval_node`, the Python twin
of `NodeT.eval`) on every node and mark of every generated document and compares with what the real `toDOM` returned
(`todom_template:*` counters), and the model's HTML — computed from the tables — is compared with the real serializer's.
"""
import json
import re

from .codec import jval

P0, P1 = "\x00P:", "\x00"
PROBE_RE = re.compile("\x00P:(.*?)\x00")
SEL_RE = re.compile(r"^([a-z][a-z0-9]*)((?:\[[a-z][a-z0-9-]*\])*)$")
UNSUPPORTED = ["s", ""]        # what `NodeT.eval` answers for a value outside the model (a list / dict attribute)


class NotRestricted(Exception):
    pass


class _ProbeDom:
    def get(self, a, default=None):
        return P0 + a + P1


def rule_sel(rule):
    """[tag, [needed attributes], None | [[key, dom attribute]]] of a tag rule, or None if it is not of that form"""
    m = SEL_RE.match(rule.tag or "")
    if not m or rule.namespace is not None or rule.get_content is not None or rule.content_element is not None:
        return None
    need = re.findall(r"\[([a-z0-9-]+)\]", m.group(2))
    copy = None
    if rule.get_attrs is not None:
        try:
            r = rule.get_attrs(_ProbeDom())
        except Exception:  # noqa: BLE001
            return None
        if not isinstance(r, dict) or not all(isinstance(v, str) and PROBE_RE.fullmatch(v) for v in r.values()):
            return None
        copy = [[k, PROBE_RE.fullmatch(v).group(1)] for k, v in r.items()]
    return [m.group(1), need, copy]


# ---- templates

def _parts(s):
    out, pos = [], 0
    for m in PROBE_RE.finditer(s):
        if m.start() > pos:
            out.append(["l", s[pos:m.start()]])
        out.append(["a", m.group(1)])
        pos = m.end()
    if pos < len(s) or not out:
        out.append(["l", s[pos:]])
    return out


def _tval(v):
    if v is None:
        return ["l", None]
    if isinstance(v, str):
        m = PROBE_RE.fullmatch(v)
        if m:
            return ["a", m.group(1)]
        if P0 in v:
            raise NotRestricted("an attribute value computed from an attribute")
        return ["l", v]
    if isinstance(v, bool) or not isinstance(v, (int, float)):
        raise NotRestricted("a constant attribute value that is not a string or number")
    return ["l", str(v)]


def template(structure):
    """an output spec computed on probe attributes → TSpec"""
    if isinstance(structure, str):
        if P0 in structure:
            raise NotRestricted("a text output computed from an attribute")
        return ["s", structure]
    if isinstance(structure, int) and structure == 0:
        return ["h"]
    if not isinstance(structure, (list, tuple)) or not structure or not isinstance(structure[0], str):
        raise NotRestricted("an output spec that is not a string or [tag, …]")
    attrs, start = [], 1
    if len(structure) > 1 and isinstance(structure[1], dict):
        start = 2
        for k, v in structure[1].items():
            if not isinstance(k, str) or P0 in k:
                raise NotRestricted("a computed attribute name")
            attrs.append([k, _tval(v)])
    return ["e", _parts(structure[0]), attrs, [template(c) for c in structure[start:]]]


def py_str(text):
    """`pyStr` of lean/PM/RoundTripSchema.lean on the canonical JSON text of a value: (supported, None | str)"""
    v = json.loads(text)
    if v is None:
        return True, None
    if v is True:
        return True, "True"
    if v is False:
        return True, "False"
    if isinstance(v, str):
        return True, v
    if isinstance(v, (int, float)):
        return (re.fullmatch(r"-?[0-9][0-9eE+.\-]*", text) is not None), text
    return False, None


def eval_spec(t, attrs):
    """`TSpec.eval`: the output spec in the encoding of `c19.spec_json`, or None (outside the model)"""
    if t[0] == "s":
        return ["s", t[1]]
    if t[0] == "h":
        return ["h"]
    a = dict(attrs)
    name = ""
    for kind, x in t[1]:
        if kind == "l":
            name += x
        else:
            if x not in a:
                return None
            ok, s = py_str(a[x])
            if not ok:
                return None
            name += "None" if s is None else s
    out_attrs = []
    for k, (kind, x) in t[2]:
        if kind == "l":
            out_attrs.append([k, x])
        else:
            if x not in a:
                return None
            ok, s = py_str(a[x])
            if not ok:
                return None
            out_attrs.append([k, s])
    kids = [eval_spec(c, attrs) for c in t[3]]
    if any(k is None for k in kids):
        return None
    return ["e", name, out_attrs, kids]


def eval_node(T, attrs):
    """`NodeT.eval`: None (no toDOM) or the output spec (UNSUPPORTED for a value outside the model)"""
    if T["generic"] is None:
        return None
    for pat, t in T["cases"]:
        if pat == attrs:
            r = eval_spec(t, attrs)
            return UNSUPPORTED if r is None else r
    r = eval_spec(T["generic"], attrs)
    return UNSUPPORTED if r is None else r


def _literal(structure):
    """a real output as a template without attribute references"""
    from .props.c19 import spec_json
    j = spec_json(structure)

    def conv(x):
        if x[0] == "s":
            return ["s", x[1]]
        if x[0] == "h":
            return ["h"]
        return ["e", [["l", x[1]]], [[k, ["l", v]] for k, v in x[2]], [conv(c) for c in x[3]]]
    return conv(j)


def _patterns(info, type_, rules):
    """attribute dicts: the defaults (when every attribute has one) and the static `attrs` of the type's parse rules"""
    from prosemirror.model.schema import compute_attrs
    pats = []
    for given in [None] + [r.attrs for r in rules if r.get_attrs is None and r.attrs is not None]:
        try:
            a = compute_attrs(type_.attrs, given)
        except Exception:  # noqa: BLE001
            continue
        if a not in pats:
            pats.append(a)
    return pats


def _table(info, type_, fn, make, rules):
    """NodeT of one `toDOM` function; `make(attrs)` builds the node / mark the function is called on"""
    from .props.c19 import spec_json
    if fn is None:
        return {"cases": [], "generic": None}
    probe = {n: P0 + n + P1 for n in type_.attrs}
    try:
        generic = template(fn(make(probe)))
    except NotRestricted:
        raise
    except Exception as e:  # noqa: BLE001
        raise NotRestricted("toDOM of %s raises on probe attributes: %s" % (type_.name, type(e).__name__)) from e
    cases = []
    for a in _patterns(info, type_, rules):
        enc = info.attrs(type_, a)
        real = spec_json(fn(make(a)))
        if eval_spec(generic, enc) != real:
            cases.append([enc, _literal(fn(make(a)))])
    return {"cases": cases, "generic": generic}


_CACHE = {}


def tables(info, parser=None):
    """{"groups", "wsPre", "tags", "styles", "sel", "toDom": {"nodes", "marks", "spanning"}} of the schema of `info`, or a
    string saying why its rules / toDOM functions are not of the restricted form"""
    key = id(info.schema)
    if key in _CACHE and _CACHE[key][0] is info.schema:
        return _CACHE[key][1]
    from prosemirror.model.from_dom import DOMParser
    from prosemirror.model.to_dom import DOMSerializer

    from .props import c19
    schema = info.schema
    parser = parser or DOMParser.from_schema(schema)
    res = None
    try:
        if any(r.clear_mark is not None for r in parser._styles):
            raise NotRestricted("a style rule with a clear_mark closure")
        oracle = c19.DomOracle(info, parser)
        if oracle.unsupported:
            raise NotRestricted(oracle.unsupported)
        sel = [rule_sel(r) for r in parser._tags]
        if any(x is None for x in sel):
            raise NotRestricted("a tag rule outside the restricted form (selector / get_attrs)")
        tags, styles = oracle.rules()
        ser = DOMSerializer.from_schema(schema)
        nodes, marks = [], []
        for n in info.node_names:
            t = schema.nodes[n]
            fn = None if t.is_text else ser.nodes.get(n)
            nodes.append(_table(info, t, fn, lambda a, t=t: t.create(a), [r for r in parser._tags if r.node == n]))
        for n in info.mark_names:
            t = schema.marks[n]
            fn = ser.marks.get(n)
            rules = [r for r in parser._tags if r.mark == n]
            marks.append({
                "inl": _table(info, t, (lambda m: fn(m, True)) if fn else None, lambda a, t=t: t.create(a), rules),
                "blk": _table(info, t, (lambda m: fn(m, False)) if fn else None, lambda a, t=t: t.create(a), rules)})
        res = {"groups": [list(schema.nodes[n].groups) for n in info.node_names],
               "wsPre": [schema.nodes[n].whitespace == "pre" for n in info.node_names],
               "tags": tags, "styles": styles, "sel": sel,
               "toDom": {"nodes": nodes, "marks": marks,
                         "spanning": [schema.marks[n].spec.get("spanning") is not False for n in info.mark_names]}}
    except NotRestricted as e:
        res = str(e)
    _CACHE[key] = (schema, res)
    return res


def check_doc(info, ser, T, d, count):
    """the table against the real `toDOM` on every node and mark of document `d`: [] or the list of differences"""
    from .props.c19 import spec_json
    bad = []

    def visit(n):
        if not n.is_text and n.type.name in ser.nodes:
            enc = info.attrs(n.type, n.attrs)
            want = spec_json(ser.nodes[n.type.name](n))
            got = eval_node(T["nodes"][info.nid[n.type.name]], enc)
            if got == UNSUPPORTED and want != UNSUPPORTED:
                count("todom_template:value-outside-model")
            elif got != want:
                bad.append((n.type.name, enc, want, got))
            else:
                count("todom_template:node-agree")
        for m in n.marks:
            fn = ser.marks.get(m.type.name)
            enc = info.attrs(m.type, m.attrs)
            want = spec_json(fn(m, n.is_inline)) if fn else None
            got = eval_node(T["marks"][info.mid[m.type.name]]["inl" if n.is_inline else "blk"], enc)
            if got == UNSUPPORTED and want != UNSUPPORTED:
                count("todom_template:value-outside-model")
            elif got != want:
                bad.append((m.type.name, enc, want, got))
            else:
                count("todom_template:mark-agree")
        for c in n.content.content:
            visit(c)
    for c in d.content.content:
        visit(c)
    return bad


def digest(T):
    import hashlib
    return hashlib.sha256(jval(T).encode("utf-8", "surrogatepass")).hexdigest()[:16]
