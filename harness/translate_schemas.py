"""Translator: the bundled schema family as Lean data, regenerated from the running library on every run.

For every schema of `harness/schemas.py: family()` (and `extra()`) the schema is built with the real
`prosemirror.model.Schema(spec)` and written to `lean/Gen/Schemas.lean` twice: as the *spec* (`PM.SchemaCompile.Spec`,
the encoding of `codec.spec_dump`, what `buildSchema` / `compileSchema` take) and as the *compiled* schema (`PM.Schema`,
the encoding of `SchemaInfo.dump()`: node table, automata numbered breadth-first, mark tables, attributes, flags — exactly
what the harness sends to the model driver).  Next to the data, per schema:

  lean/Gen/Schemas.lean               the data, `familySchemas`, `extraSchemas`, `domFamilySchemas`
  lean/Gen/Guards/<Guard>.lean        one module per schema guard (`detB`, `compatTransB`, `textLoopB`, …): per schema
                                      `<name>_<guard> : <guard> s<Name> = true` (or `= false` where EXPECT_FALSE says so) by
                                      `decide +kernel`, and `family_<guard> : ∀ S ∈ familySchemas, <guard> S = true`
  lean/Gen/SchemaFacts.lean           the bundle: `<name>_guards : PM.Family.Facts s<Name>`, `family_facts`
  lean/Gen/SchemaBuilds/<Name>.lean   `<name>_builds : buildSchema <spec> = .ok <compiled>` (the model of the schema
                                      constructor produces exactly what the real constructor produced) and `<name>_compiles`
                                      (the table compiler alone, automata given), `decide +kernel`
  lean/Gen/SchemaBuilds.lean          `family_builds : ∀ p ∈ familySpecs, buildSchema p.1 = .ok p.2`, `family_compiles`
  lean/Gen/Parsers.lean               `DOMParser.from_schema(S)` of the family schemas as `PM.DomWalk.Parser` data (rules in
                                      the encoding of the C19 tie), `<name>_rulesOk`, `family_rulesOk`
  lean/Gen/RoundTrip.lean             for the schemas of RT_SCHEMAS (the bundled basic and list schemas): the export→import
                                      tables of harness/rt_tables.py — `r<Name> : RParser` (the parser above + the selectors and
                                      `get_attrs` of its rules in restricted form), `dt<Name> : ToDomT` (the `toDOM` functions
                                      as data), `d<Name> := dt<Name>.toDom` — and `<name>_rtSchemaOk : rtSchemaOk r<Name> d<Name>
                                      = true` by `decide +kernel` (the schema part of the round-trip theorem's hypothesis),
                                      `<name>_rtForms` (how every node type is emitted and read back, as a table)

The files are deterministic functions of what the library compiled: an unchanged /repo gives byte-identical files (written
only when the text differs), so lake does not rebuild anything.  `lean/Family/Cxx.lean` (hand-written) instantiates the
guarded theorems of `Props/Cxx.lean` for `familySchemas`.
"""
import json
import os
import re

from . import core

GEN_DIR = os.path.join(core.LEAN, "Gen")

# the guards of `PM.Family.Facts` (lean/Props/Family.lean), in the order of its fields: (field, Lean term on `S`)
GUARDS = [
    ("det", "detB {S}"),
    ("compatTrans", "compatTransB {S}"),
    ("textLoop", "PM.Family.textLoopB {S}"),
    ("leafOk", "leafOkB {S}"),
    ("fillOk", "PM.Family.fillOkK {S}"),
    ("fillersOK", "{S}.fillersOKB"),
    ("wrapOK", "{S}.wrapOKB"),
    ("leafEmpty", "PM.Family.leafEmptyB {S}"),
    ("textTy", "PM.Family.textTyB {S}"),
]
# guards outside the bundle that hold of the whole family (added after the bundle was fixed)
MORE_GUARDS = [
    ("labelsOK", "{S}.labelsOKB"),        # every automaton edge is labelled with a node type of the schema (C11 `fit_emits_wf`)
    ("textStableC", "textStableC {S}"),   # Bool form of C01's `TextStable` (C11 `coherent_invariant`, C12)
    ("closable", "{S}.closableB"),        # `fill_before(Fragment.empty, True)` is never `None` (C11 `insertInline_emits_valid_payload`)
    # the guards of C11 `delete_applies` (lean/PM/DeleteGuards.lean)
    ("joinCompat", "joinCompatB {S}"),        # automata that share an edge label belong to `compatible_content` types
    ("reopenOK", "reopenOKB {S}"),            # every state is covered by a state reachable over generatable types
    ("textAbsorb", "textAbsorbB {S}"),        # reading a text node never loses a continuation
    ("inlineUniform", "inlineUniformB {S}"),  # automata of types with inline content: the same edges at every state
]
# guards outside the bundle: they hold of a part of the family only
EXTRA_GUARDS = [
    ("textStable", "textStableB {S}"),   # `FromDom.TextStable` (C19 `parse_valid`): fails where a textblock requires content
]
# the guards that are *expected* to be false, per schema (kernel-checked as `= false`).  Deliberately a fixed table, not
# computed: a guard that flips — because /repo compiles a schema differently — makes the generated theorem fail, which the
# checks report as a broken obligation.
EXPECT_FALSE = {
    "marks-x": {"textStable"},                       # `caption` has content `inline+`: its automaton has two states
    "bridge": {"compatTrans", "joinCompat"},         # built for the purpose (C04 guard cases): A "p q*" and B "q+" share `q`
    "bridge-local": {"compatTrans", "joinCompat"},
    "optional-text-local": {"textLoop", "textStable", "textAbsorb", "inlineUniform"},   # `text?`
}


def lean_str(s):
    out = ['"']
    for ch in s:
        o = ord(ch)
        if ch == '"':
            out.append('\\"')
        elif ch == "\\":
            out.append("\\\\")
        elif ch == "\n":
            out.append("\\n")
        elif ch == "\t":
            out.append("\\t")
        elif o < 32 or o == 127 or o > 126:
            out.append("\\u{%x}" % o)
        else:
            out.append(ch)
    out.append('"')
    return "".join(out)


def lean_bool(b):
    return "true" if b else "false"


def lean_opt_str(s):
    return "none" if s is None else "some " + lean_str(s)


def lean_ident(name):
    """Lean identifier / module-name fragment of a schema name"""
    parts = [p for p in re.split(r"[^A-Za-z0-9]+", name) if p]
    return "".join(p[0].upper() + p[1:] for p in parts)


def lean_dfa(dfa):
    return "#[" + ", ".join("⟨%s, [%s]⟩" % (lean_bool(v), ", ".join("(%d, %d)" % (a, b) for a, b in edges))
                            for v, edges in dfa) + "]"


def lean_attr_decls(attrs):
    return "[" + ", ".join("⟨%s, %s, %s⟩" % (lean_str(n), lean_bool(h), lean_str(d)) for n, h, d in attrs) + "]"


def lean_nats(l):
    return "[" + ", ".join(str(x) for x in l) + "]"


def lean_schema(dump):
    """`SchemaInfo.dump()` as a `PM.Schema` literal"""
    nodes = []
    for n in dump["nodes"]:
        nodes.append(
            "    { name := %s, isText := %s, isInline := %s, isLeaf := %s, isAtom := %s, inlineContent := %s,\n"
            "      isolating := %s, defining := %s, code := %s,\n"
            "      dfa := %s,\n"
            "      markSet := %s, attrs := %s,\n"
            "      definingAsContext := %s, definingForContent := %s }" % (
                lean_str(n["name"]), lean_bool(n["isText"]), lean_bool(n["isInline"]), lean_bool(n["isLeaf"]),
                lean_bool(n["isAtom"]), lean_bool(n["inlineContent"]), lean_bool(n["isolating"]), lean_bool(n["defining"]),
                lean_bool(n["code"]), lean_dfa(n["dfa"]),
                "none" if n["markSet"] is None else "some " + lean_nats(n["markSet"]), lean_attr_decls(n["attrs"]),
                lean_bool(n["definingAsContext"]), lean_bool(n["definingForContent"])))
    marks = []
    for m in dump["marks"]:
        marks.append("    { name := %s, excluded := %s, inclusive := %s, attrs := %s }" % (
            lean_str(m["name"]), lean_nats(m["excluded"]), lean_bool(m["inclusive"]), lean_attr_decls(m["attrs"])))
    return ("{ nodes := #[\n" + ",\n".join(nodes) + "],\n  marks := #[" + ("\n" + ",\n".join(marks) if marks else "") +
            "],\n  top := %d, textTy := %d }" % (dump["top"], dump["text"]))


def lean_spec_attrs(attrs):
    return "[" + ", ".join("{ name := %s, default := %s }" % (lean_str(n), lean_opt_str(d)) for n, d in attrs) + "]"


def lean_spec(sd):
    """`codec.spec_dump(spec)` as a `PM.SchemaCompile.Spec` literal"""
    nodes = []
    for n in sd["nodes"]:
        nodes.append(
            "    { name := %s, content := %s, group := %s, marks := %s,\n"
            "      inline := %s, atom := %s, isolating := %s, defining := %s, code := %s, attrs := %s,\n"
            "      definingAsContext := %s, definingForContent := %s }" % (
                lean_str(n["name"]), lean_str(n["content"]), lean_opt_str(n["group"]), lean_opt_str(n["marks"]),
                lean_bool(n["inline"]), lean_bool(n["atom"]), lean_bool(n["isolating"]), lean_bool(n["defining"]),
                lean_bool(n["code"]), lean_spec_attrs(n["attrs"]),
                lean_bool(n["definingAsContext"]), lean_bool(n["definingForContent"])))
    marks = []
    for m in sd["marks"]:
        marks.append("    { name := %s, excludes := %s, group := %s, inclusive := %s, attrs := %s }" % (
            lean_str(m["name"]), lean_opt_str(m["excludes"]), lean_opt_str(m["group"]), lean_bool(m["inclusive"]),
            lean_spec_attrs(m["attrs"])))
    return ("{ nodes := [\n" + ",\n".join(nodes) + "],\n  marks := [" + ("\n" + ",\n".join(marks) if marks else "") +
            "],\n  topNode := %s }" % lean_opt_str(sd["topNode"]))


def lean_ref(r):
    """`None` = not set, `-1` = a name the schema lacks (`some none`), else the id"""
    return "none" if r is None else "some none" if r < 0 else "some (some %d)" % r


def lean_opt_attrs(attrs):
    if attrs is None:
        return "none"
    return "some [" + ", ".join("(%s, %s)" % (lean_str(k), lean_str(v)) for k, v in attrs) + "]"


def lean_ws(pw):
    return {None: ".unset", False: ".off", True: ".on", "full": ".full"}[pw]


def lean_parser(info, ident):
    """`DOMParser.from_schema(schema)` as a `PM.DomWalk.Parser` literal: the rules in the encoding the C19 tie sends to
    the model driver (`harness/props/c19.py: DomOracle.rules()`, `groups`, `wsPre` of its `domParse` request), rendered as
    Lean data.  None when a rule has a `clear_mark` predicate (a Python closure: not data) or the oracle does not
    support the parser."""
    from prosemirror.model.from_dom import DOMParser

    from .props import c19
    parser = DOMParser.from_schema(info.schema)
    if any(r.clear_mark is not None for r in parser._styles):
        return None
    oracle = c19.DomOracle(info, parser)
    if oracle.unsupported:
        return None
    jtags, jstyles = oracle.rules()
    tags = []
    for r in jtags:
        tags.append("    { context := %s.toList, node := %s, mark := %s, attrs := %s, ignore := %s, skip := %s,\n"
                    "      closeParent := %s, consuming := %s, preserveWs := %s, listTag := %s }" % (
                        lean_str(r["ctx"]), lean_ref(r["node"]), lean_ref(r["mark"]), lean_opt_attrs(r["attrs"]),
                        lean_bool(r["ignore"]), lean_bool(r["skip"]), lean_bool(r["closeParent"]), lean_bool(r["consuming"]),
                        lean_ws(r["pw"]), lean_bool(r["listTag"])))
    styles = []
    for r in jstyles:
        styles.append("    { style := %s.toList, context := %s.toList, mark := %s, attrs := %s, ignore := %s,\n"
                      "      clearMark := none, consuming := %s }" % (
                          lean_str(r["style"]), lean_str(r["ctx"]), lean_ref(r["mark"]), lean_opt_attrs(r["attrs"]),
                          lean_bool(r["ignore"]), lean_bool(r["consuming"])))
    groups = "[" + ", ".join("[" + ", ".join(lean_str(g) for g in info.schema.nodes[n].groups) + "]" for n in info.node_names) + "]"
    ws = "[" + ", ".join(lean_bool(info.schema.nodes[n].whitespace == "pre") for n in info.node_names) + "]"
    return ("{ S := s%s,\n  G := fun t => (%s : List (List String)).getD t [],\n  wsPre := fun t => (%s : List Bool).getD t false,\n"
            "  tags := [%s],\n  styles := [%s] }" % (ident, groups, ws, ("\n" + ",\n".join(tags)) if tags else "",
                                                     ("\n" + ",\n".join(styles)) if styles else ""))


# the schemas whose export→import tables are written to lean/Gen/RoundTrip.lean, with the expected value of the schema part
# `rtSchemaOk` (a fixed table: a value that flips because /repo changed a `toDOM` / `parseDOM` makes the theorem fail)
RT_SCHEMAS = {"basic": True, "list": True, "marks-on-doc": True,
              # family variants with a node type that has no `toDOM` / `parseDOM` (title, body, iso, table / row / cell, note /
              # caption): the serializer has nothing to emit for it — the schema part is false, the theorem does not close
              "title": False, "heading-body": False, "iso": False, "table": False, "marks-x": False}
RT_TABLES = {}   # schema name → harness/rt_tables.py: tables(info) of the freshly built schema (a str: why it has none)


def lean_chars(s):
    return lean_str(s) + ".toList"


def lean_tspec(t):
    if t[0] == "s":
        return "(.str %s)" % lean_chars(t[1])
    if t[0] == "h":
        return ".hole"
    parts = ", ".join(".lit %s" % lean_chars(x) if k == "l" else ".attr %s" % lean_str(x) for k, x in t[1])
    attrs = ", ".join("(%s, %s)" % (lean_chars(k), (".lit none" if x is None else ".lit (some %s)" % lean_chars(x)) if kind == "l"
                                    else ".attr %s" % lean_str(x)) for k, (kind, x) in t[2])
    return "(.el [%s] [%s] [%s])" % (parts, attrs, ", ".join(lean_tspec(c) for c in t[3]))


def lean_node_t(T):
    if T["generic"] is None and not T["cases"]:
        return "{}"
    cases = ", ".join("(%s, %s)" % (lean_opt_attrs(a)[5:], lean_tspec(t)) for a, t in T["cases"])
    return "{ cases := [%s], generic := %s }" % (cases, "none" if T["generic"] is None else "some " + lean_tspec(T["generic"]))


def lean_rt(name, ident, T):
    """the tables of harness/rt_tables.py as Lean text: `r<ident>`, `dt<ident>`, `d<ident>`"""
    sel = []
    for tag, need, copy in T["sel"]:
        f = ["tag := %s" % lean_str(tag)]
        if need:
            f.append("need := [%s]" % ", ".join(lean_str(x) for x in need))
        if copy is not None:
            f.append("copy := some [%s]" % ", ".join("(%s, %s)" % (lean_str(k), lean_str(a)) for k, a in copy))
        sel.append("{ " + ", ".join(f) + " }")
    D = T["toDom"]
    out = ["/-- `DOMParser.from_schema` of schema `%s` with the selectors and `get_attrs` of its tag rules in restricted form -/" % name,
           "def r%s : RParser :=\n  { P := p%s,\n    sel := [%s] }" % (ident, ident, ",\n            ".join(sel)), "",
           "/-- the `toDOM` functions of schema `%s` as data (by node type id / mark type id) -/" % name,
           "def dt%s : ToDomT :=\n  { nodes := [%s],\n    marks := [%s],\n    spanning := [%s] }" % (
               ident, ",\n             ".join(lean_node_t(x) for x in D["nodes"]),
               ",\n             ".join("{ inl := %s, blk := %s }" % (lean_node_t(x["inl"]), lean_node_t(x["blk"]))
                                         for x in D["marks"]),
               ", ".join(lean_bool(b) for b in D["spanning"])), "",
           "def d%s : ToDom := dt%s.toDom" % (ident, ident), ""]
    return out


def render_roundtrip(items):
    lr = [HEADER.rstrip("\n"), "import Gen.Parsers", "import PM.RoundTripSchema", "namespace PM.Gen.RoundTrip",
          "open PM PM.Dom PM.FromDom PM.DomWalk PM.RoundTrip PM.Gen.Schemas PM.Gen.Parsers", ""]
    for name, ident, fam, sd, dump in items:
        T = RT_TABLES.get(name)
        if name not in RT_SCHEMAS:
            continue
        if not isinstance(T, dict) or not PARSERS.get(name):
            # the rules / toDOM functions of a bundled schema left the restricted form: the corollaries of
            # lean/Family/C19RoundTrip.lean will not build, which the C19 check reports as a broken obligation
            lr += ["-- schema `%s`: no tables (%s)" % (name, T if isinstance(T, str) else "parser not translated"), ""]
            continue
        lr += lean_rt(name, ident, T)
        if RT_SCHEMAS[name]:
            lr += ["/-- the schema part of the hypothesis of the round-trip theorem (Props/C19.lean: roundtrip_of_parts), decided by the",
                   "    kernel on the tables above: every node / mark type of `%s` is, at its default attributes and at the static `attrs`" % name,
                   "    of its parse rules, emitted in a form its first matching rule reads back as the same type with the same attributes -/"]
        else:
            lr += ["/-- the schema part of the hypothesis of the round-trip theorem is *false* of `%s` (kernel-evaluated): some node type" % name,
                   "    has no `toDOM`, or is emitted in a form no rule reads back — `roundtrip_of_parts` does not close for this schema -/"]
        lr += ["theorem %s_rtSchemaOk : rtSchemaOk r%s d%s = %s := by decide +kernel" % (
            lname(ident), ident, ident, lean_bool(RT_SCHEMAS[name])), ""]
    lr += ["end PM.Gen.RoundTrip"]
    return "\n".join(lr) + "\n"


def collect():
    """[(schema name, Lean identifier, in_family, spec dump, compiled dump)] — built by the real constructor *now*:
    the spec of each family schema is compiled afresh with `Schema(spec)` (not the object the harness built earlier)"""
    import copy

    from prosemirror.model import Schema

    from . import schemas
    from .codec import SchemaInfo, spec_dump
    items = []
    seen = set()
    for fam, infos in ((True, schemas.family()), (False, schemas.extra())):
        for info in infos:
            ident = lean_ident(info.name)
            if ident in seen:
                raise RuntimeError("two schemas map to the Lean name " + ident)
            seen.add(ident)
            spec = info.schema.spec
            fresh = Schema(copy.deepcopy(spec))
            items.append((info.name, ident, fam, spec_dump(spec), SchemaInfo(fresh, info.name).dump()))
            PARSERS[info.name] = None
            if fam:
                try:
                    PARSERS[info.name] = lean_parser(SchemaInfo(fresh, info.name), ident)
                except Exception:  # noqa: BLE001  (reported by the C19 check: its closed corollaries will not build)
                    pass
            if info.name in RT_SCHEMAS:
                from . import rt_tables
                try:
                    RT_TABLES[info.name] = rt_tables.tables(SchemaInfo(fresh, info.name))
                except Exception as e:  # noqa: BLE001
                    RT_TABLES[info.name] = "translator: %s: %s" % (type(e).__name__, str(e)[:200])
    return items


PARSERS = {}   # schema name → `DOMParser.from_schema` of the freshly built schema as a Lean literal (family only)


HEADER = "/- GENERATED on every run by harness/translate_schemas.py from the schemas the running library compiled. Do not edit. -/\n"


def render(items):
    """{relative path under lean/Gen: text}"""
    files = {}
    lines = [HEADER.rstrip("\n"),
             "import PM.Basic", "import PM.SchemaCompile", "namespace PM.Gen.Schemas", "open PM PM.SchemaCompile", ""]
    for name, ident, fam, sd, dump in items:
        lines.append("/-- the spec of schema `%s` (%s) as the harness reads it from `schema.spec` -/" % (
            name, "bundled family" if fam else "extra, outside the family"))
        lines.append("def spec%s : Spec :=\n  %s" % (ident, lean_spec(sd).replace("\n", "\n  ")))
        lines.append("")
        lines.append("/-- schema `%s` as `Schema(spec)` of the running library compiled it -/" % name)
        lines.append("def s%s : Schema :=\n  %s" % (ident, lean_schema(dump).replace("\n", "\n  ")))
        lines.append("")
    lines.append("end PM.Gen.Schemas")
    fam0 = [it for it in items if it[2]]
    dom0 = [it for it in fam0 if "textStable" not in EXPECT_FALSE.get(it[0], set())]
    lines += [
        "", "namespace PM.Gen", "open PM PM.Gen.Schemas", "",
        "/-- the bundled basic and list schemas and the hand-written strict, isolating and table-like variants",
        "    (`harness/schemas.py: family()`), as the running library compiled them -/",
        "def familySchemas : List Schema := [%s]" % ", ".join("s" + it[1] for it in fam0), "",
        "/-- the further hand-written schemas of `harness/schemas.py: extra()` -/",
        "def extraSchemas : List Schema := [%s]" % ", ".join("s" + it[1] for it in items if not it[2]), "",
        "/-- the schemas of the family of which `FromDom.TextStable` holds too (the guard of C19 `parse_valid`) -/",
        "def domFamilySchemas : List Schema := [%s]" % ", ".join("s" + it[1] for it in dom0), "",
        "theorem domFamily_sub : ∀ S ∈ domFamilySchemas, S ∈ familySchemas := by",
        "  intro S hS",
        "  simp only [domFamilySchemas, List.mem_cons, List.not_mem_nil, or_false] at hS",
        "  simp only [familySchemas, List.mem_cons, List.not_mem_nil, or_false]",
        "  rcases hS with " + " | ".join(["rfl"] * len(dom0)) + " <;> simp",
        "", "end PM.Gen"]
    files["Schemas.lean"] = "\n".join(lines) + "\n"

    fam_items = [it for it in items if it[2]]
    dom_items = [it for it in fam_items if "textStable" not in EXPECT_FALSE.get(it[0], set())]
    # one module per guard: a check builds (and is broken by) only the guards its theorems use
    for field, term in GUARDS + MORE_GUARDS + EXTRA_GUARDS:
        Field = field[0].upper() + field[1:]
        lg = [HEADER.rstrip("\n"), "import Gen.Schemas", "import Props.Family", "import PM.Structure2", "import PM.FitGuards",
              "import PM.DeleteGuards",
              "namespace PM.Gen.Guards",
              "open PM PM.FromDom PM.Gen.Schemas", ""]
        for name, ident, fam, sd, dump in items:
            lg.append("theorem %s_%s : %s = %s := by decide +kernel" % (
                lname(ident), field, term.format(S="s" + ident), "false" if field in EXPECT_FALSE.get(name, set()) else "true"))
            if fam and field in EXPECT_FALSE.get(name, set()) and (field, term) in GUARDS:
                raise RuntimeError("EXPECT_FALSE names a bundle guard of the family schema " + name)
        over = dom_items if (field, term) in EXTRA_GUARDS else fam_items
        lg += ["", "end PM.Gen.Guards", "", "namespace PM.Gen", "open PM PM.FromDom PM.Gen.Schemas", "",
               "theorem family_%s : ∀ S ∈ %s, %s = true := by" % (
                   field, "domFamilySchemas" if (field, term) in EXTRA_GUARDS else "familySchemas", term.format(S="S")),
               "  intro S hS",
               "  simp only [%s, List.mem_cons, List.not_mem_nil, or_false] at hS" % (
                   "domFamilySchemas" if (field, term) in EXTRA_GUARDS else "familySchemas"),
               "  rcases hS with " + " | ".join(["rfl"] * len(over))]
        lg += ["  · exact Guards.%s_%s" % (lname(it[1]), field) for it in over]
        lg += ["", "end PM.Gen"]
        files["Guards/%s.lean" % Field] = "\n".join(lg) + "\n"

    for name, ident, fam, sd, dump in items:
        lid = ident[0].lower() + ident[1:]
        # construction
        lb = [HEADER.rstrip("\n"), "import Gen.Schemas", "import PM.SchemaBuild", "import Proofs.SchemaDecEq",
              "import Proofs.BuildKernel",
              "namespace PM.Gen.SchemaBuilds", "open PM PM.SchemaCompile PM.SchemaBuild PM.Gen.Schemas", "",
              "/-- the model of the table compiler (`NodeType.compile`, `MarkType.compile`, `gather_marks`, flags, attributes),",
              "    given the automata, produces exactly the tables the real constructor produced for `%s` -/" % name,
              "theorem %s_compiles : compileSchema spec%s (s%s.nodes.toList.map (·.dfa)) = .ok s%s := by decide +kernel" % (
                  lid, ident, ident, ident), "",
              "/-- the model of the whole schema constructor (content expressions parsed and compiled to automata included), run",
              "    by the kernel on the spec of `%s`, produces exactly what the real constructor produced.  (Evaluated on the" % name,
              "    structurally recursive twin `buildSchemaK`, equal to `buildSchema` by Proofs/BuildKernel.lean.) -/",
              "theorem %s_builds : buildSchema spec%s = .ok s%s := by" % (lid, ident, ident),
              "  rw [← PM.BuildK.buildSchemaK_eq]; decide +kernel", "",
              "end PM.Gen.SchemaBuilds"]
        files["SchemaBuilds/%s.lean" % ident] = "\n".join(lb) + "\n"

    par_items = [it for it in fam_items if PARSERS.get(it[0])]
    lp = [HEADER.rstrip("\n"), "import Gen.Schemas", "import PM.DomWalk", "namespace PM.Gen.Parsers",
          "open PM PM.FromDom PM.DomWalk PM.Gen.Schemas", ""]
    for it in par_items:
        lp += ["/-- `DOMParser.from_schema` of schema `%s`: the rules of the `parseDOM` specs, in the parser's order -/" % it[0],
               "def p%s : Parser :=\n  %s" % (it[1], PARSERS[it[0]].replace("\n", "\n  ")), "",
               "theorem %s_rulesOk : p%s.rulesOk = true := by decide +kernel" % (lname(it[1]), it[1]), ""]
    lp += ["end PM.Gen.Parsers", "", "namespace PM.Gen", "open PM PM.DomWalk PM.Gen.Schemas PM.Gen.Parsers", "",
           "/-- the parsers `DOMParser.from_schema(S)` of the family schemas -/",
           "def familyParsers : List Parser := [%s]" % ", ".join("p" + it[1] for it in par_items), "",
           "theorem family_rulesOk : ∀ P ∈ familyParsers, P.rulesOk = true ∧ P.S ∈ familySchemas := by",
           "  intro P hP",
           "  simp only [familyParsers, List.mem_cons, List.not_mem_nil, or_false] at hP",
           "  rcases hP with " + " | ".join(["rfl"] * len(par_items))]
    lp += ["  · exact ⟨Parsers.%s_rulesOk, by simp [familySchemas, Parsers.p%s]⟩" % (lname(it[1]), it[1]) for it in par_items]
    lp += ["", "end PM.Gen"]
    files["Parsers.lean"] = "\n".join(lp) + "\n"
    files["RoundTrip.lean"] = render_roundtrip(items)
    lf = [HEADER.rstrip("\n")] + ["import Gen.Guards.%s" % (f[0].upper() + f[1:]) for f, _ in GUARDS + MORE_GUARDS + EXTRA_GUARDS] + [
        "namespace PM.Gen", "open PM PM.Gen.Schemas", ""]
    for name, ident, fam, sd, dump in items:
        if not any(f in EXPECT_FALSE.get(name, set()) for f, _ in GUARDS):
            lf += ["/-- every schema guard of the bundle `PM.Family.Facts` holds of schema `%s` (kernel-evaluated) -/" % name,
                   "theorem %s_guards : PM.Family.Facts s%s :=\n  ⟨%s⟩" % (
                       lname(ident), ident, ", ".join("Guards.%s_%s" % (lname(ident), f) for f, _ in GUARDS)), ""]
    lf += [
        "theorem family_facts : ∀ S ∈ familySchemas, PM.Family.Facts S := by",
        "  intro S hS",
        "  simp only [familySchemas, List.mem_cons, List.not_mem_nil, or_false] at hS",
        "  rcases hS with " + " | ".join(["rfl"] * len(fam_items)),
    ] + ["  · exact %s_guards" % lname(it[1]) for it in fam_items] + ["", "end PM.Gen"]
    files["SchemaFacts.lean"] = "\n".join(lf) + "\n"

    lb = [HEADER.rstrip("\n")] + ["import Gen.SchemaBuilds.%s" % it[1] for it in items] + [
        "namespace PM.Gen", "open PM PM.SchemaCompile PM.SchemaBuild PM.Gen.Schemas", "",
        "/-- (spec, compiled) of every schema of the family -/",
        "def familySpecs : List (Spec × Schema) := [%s]" % ", ".join("(spec%s, s%s)" % (it[1], it[1]) for it in fam_items), "",
        "theorem family_builds : ∀ p ∈ familySpecs, buildSchema p.1 = .ok p.2 := by",
        "  intro p hp",
        "  simp only [familySpecs, List.mem_cons, List.not_mem_nil, or_false] at hp",
        "  rcases hp with " + " | ".join(["rfl"] * len(fam_items)),
    ] + ["  · exact SchemaBuilds.%s_builds" % (it[1][0].lower() + it[1][1:]) for it in fam_items] + [
        "",
        "theorem family_compiles : ∀ p ∈ familySpecs, compileSchema p.1 (p.2.nodes.toList.map (·.dfa)) = .ok p.2 := by",
        "  intro p hp",
        "  simp only [familySpecs, List.mem_cons, List.not_mem_nil, or_false] at hp",
        "  rcases hp with " + " | ".join(["rfl"] * len(fam_items)),
    ] + ["  · exact SchemaBuilds.%s_compiles" % (it[1][0].lower() + it[1][1:]) for it in fam_items] + [
        "", "end PM.Gen"]
    files["SchemaBuilds.lean"] = "\n".join(lb) + "\n"
    return files


def write(files):
    """write the files whose text changed; remove stale per-schema files; returns the list of changed paths"""
    changed = []
    for sub in ("Guards", "SchemaBuilds", "SchemaFacts"):
        d = os.path.join(GEN_DIR, sub)
        if sub == "SchemaFacts" and not os.path.isdir(d):
            continue        # the layout of an earlier version (one module per schema): cleaned when met
        os.makedirs(d, exist_ok=True)
        for f in os.listdir(d):
            if f.endswith(".lean") and "%s/%s" % (sub, f) not in files:
                os.unlink(os.path.join(d, f))
                changed.append("%s/%s (removed)" % (sub, f))
    for rel, text in sorted(files.items()):
        path = os.path.join(GEN_DIR, rel)
        if not os.path.exists(path) or open(path).read() != text:
            tmp = path + ".tmp%d" % os.getpid()
            with open(tmp, "w") as f:
                f.write(text)
            os.replace(tmp, path)
            changed.append(rel)
    return changed


def regenerate():
    """returns (items, changed paths)"""
    items = collect()
    return items, write(render(items))


def lname(ident):
    return ident[0].lower() + ident[1:]


def gen_theorems(items, builds, parsers=False, guards=None, roundtrip=False):
    """fully qualified names of the generated theorems a check audits; `guards` = the guard fields whose modules the
    check builds (None = all, with the bundle)"""
    names = []
    for f, _ in GUARDS + MORE_GUARDS + EXTRA_GUARDS:
        if guards is None or f in guards:
            names += ["PM.Gen.Guards.%s_%s" % (lname(it[1]), f) for it in items] + ["PM.Gen.family_" + f]
    names.append("PM.Gen.domFamily_sub")
    if guards is None:
        names += ["PM.Gen.%s_guards" % lname(it[1]) for it in items
                  if not any(f in EXPECT_FALSE.get(it[0], set()) for f, _ in GUARDS)] + ["PM.Gen.family_facts"]
    if parsers:
        names += ["PM.Gen.Parsers.%s_rulesOk" % lname(it[1]) for it in items if PARSERS.get(it[0])] + ["PM.Gen.family_rulesOk"]
    if roundtrip:
        names += ["PM.Gen.RoundTrip.%s_rtSchemaOk" % lname(it[1]) for it in items if it[0] in RT_SCHEMAS]
    if builds:
        for name, ident, fam, sd, dump in items:
            names.append("PM.Gen.SchemaBuilds.%s_compiles" % lname(ident))
            names.append("PM.Gen.SchemaBuilds.%s_builds" % lname(ident))
        names += ["PM.Gen.family_builds", "PM.Gen.family_compiles"]
    return names


def guards_used(prop):
    """the guard fields whose generated modules lean/Family/<prop>.lean imports"""
    used = []
    for m in core.import_closure("Family." + prop):
        if m.startswith("Gen.Guards."):
            f = m.split(".")[-1]
            used.append(f[0].lower() + f[1:])
    return sorted(used)


def guard_table(items, guards=None):
    """{schema: {"family": bool, "guards": {guard: the truth value the kernel confirmed}}} (what the generated theorems
    state; whether they were confirmed is the build's outcome)"""
    out = {}
    for name, ident, fam, sd, dump in items:
        bad = EXPECT_FALSE.get(name, set())
        out[name] = {"family": fam, "guards": {f: f not in bad for f, _ in GUARDS + MORE_GUARDS + EXTRA_GUARDS if guards is None or f in guards}}
    return out


def describe_error(loc):
    """`Gen/SchemaFacts/Basic.lean:7` → the theorem on that line"""
    m = re.match(r"(.*\.lean):(\d+)", loc)
    try:
        lines = open(os.path.join(core.LEAN, m.group(1))).read().splitlines()
        k = int(m.group(2)) - 1
        for back in range(0, 4):    # the error is reported at the tactic, which may sit below the `theorem` line
            t = re.match(r"\s*theorem\s+(\S+)\s*:\s*(.*?)\s*:=", lines[k - back]) if k - back >= 0 else None
            if t:
                return "%s: %s (%s)" % (m.group(1), t.group(1), t.group(2)[:160])
    except Exception:  # noqa: BLE001
        pass
    return loc


def family_modules(prop):
    """the Lean modules of the family layer a property's check builds and audits"""
    mods = []
    if os.path.exists(os.path.join(core.LEAN, "Family", prop + ".lean")):
        mods.append("Family." + prop)
    if os.path.exists(os.path.join(core.LEAN, "Family", prop + "RoundTrip.lean")):
        mods.append("Family." + prop + "RoundTrip")     # closed corollaries over lean/Gen/RoundTrip.lean (hand-written)
    return mods


if __name__ == "__main__":
    items, changed = regenerate()
    print(json.dumps({"schemas": [it[0] for it in items], "changed": changed}))
