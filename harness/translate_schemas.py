"""Translator: the bundled schema family as Lean data, regenerated from the running library on every run.

For every schema of `harness/schemas.py: family()` (and `extra()`) the schema is built with the real
`prosemirror.model.Schema(spec)` and written to `lean/Gen/Schemas.lean` twice: as the *spec* (`PM.SchemaCompile.Spec`,
the encoding of `codec.spec_dump`, what `buildSchema` / `compileSchema` take) and as the *compiled* schema (`PM.Schema`,
the encoding of `SchemaInfo.dump()`: node table, automata numbered breadth-first, mark tables, attributes, flags — exactly
what the harness sends to the model driver).  Next to the data, per schema:

  lean/Gen/SchemaFacts/<Name>.lean    one theorem per schema guard (`detB S = true`, `compatTransB S = true`, …) and their
                                      bundle `<name>_guards : PM.Family.Facts S`, by `decide +kernel`
  lean/Gen/SchemaBuilds/<Name>.lean   `<name>_builds : buildSchema <spec> = .ok <compiled>` (the model of the schema
                                      constructor produces exactly what the real constructor produced), `decide +kernel`
  lean/Gen/SchemaFacts.lean           `familySchemas`, `family_facts : ∀ S ∈ familySchemas, Facts S`
  lean/Gen/SchemaBuilds.lean          `family_builds : ∀ p ∈ familySpecs, buildSchema p.1 = .ok p.2`

The files are deterministic functions of what the library compiled: an unchanged /repo gives byte-identical files (written
only when the text differs), so lake does not rebuild anything.  `lean/Family/Cxx.lean` (hand-written) instantiates the
guarded theorems of `Props/Cxx.lean` for `familySchemas`.
"""
import json
import os
import re

from . import core

GEN_DIR = os.path.join(core.LEAN, "Gen")

# the guards of `PM.Family.Facts` (lean/Props/Family.lean), in the order of its fields: (field, Lean term on `S`)
GUARDS = [
    ("det", "detB {S} = true"),
    ("compatTrans", "compatTransB {S} = true"),
    ("textLoop", "PM.Family.textLoopB {S} = true"),
    ("textStable", "textStableB {S} = true"),
    ("leafOk", "leafOkB {S} = true"),
    ("fillOk", "PM.Family.fillOkK {S} = true"),
    ("fillersOK", "{S}.fillersOKB = true"),
    ("wrapOK", "{S}.wrapOKB = true"),
    ("leafEmpty", "PM.Family.leafEmptyB {S} = true"),
    ("textTy", "PM.Family.textTyB {S} = true"),
]


def lean_str(s):
    out = ['"']
    for ch in s:
        o = ord(ch)
        if ch == '"':
            out.append('\\"')
        elif ch == "\\":
            out.append("\\\\")
        elif ch == "\n":
            out.append("\\n")
        elif ch == "\t":
            out.append("\\t")
        elif o < 32 or o == 127 or o > 126:
            out.append("\\u{%x}" % o)
        else:
            out.append(ch)
    out.append('"')
    return "".join(out)


def lean_bool(b):
    return "true" if b else "false"


def lean_opt_str(s):
    return "none" if s is None else "some " + lean_str(s)


def lean_ident(name):
    """Lean identifier / module-name fragment of a schema name"""
    parts = [p for p in re.split(r"[^A-Za-z0-9]+", name) if p]
    return "".join(p[0].upper() + p[1:] for p in parts)


def lean_dfa(dfa):
    return "#[" + ", ".join("⟨%s, [%s]⟩" % (lean_bool(v), ", ".join("(%d, %d)" % (a, b) for a, b in edges))
                            for v, edges in dfa) + "]"


def lean_attr_decls(attrs):
    return "[" + ", ".join("⟨%s, %s, %s⟩" % (lean_str(n), lean_bool(h), lean_str(d)) for n, h, d in attrs) + "]"


def lean_nats(l):
    return "[" + ", ".join(str(x) for x in l) + "]"


def lean_schema(dump):
    """`SchemaInfo.dump()` as a `PM.Schema` literal"""
    nodes = []
    for n in dump["nodes"]:
        nodes.append(
            "    { name := %s, isText := %s, isInline := %s, isLeaf := %s, isAtom := %s, inlineContent := %s,\n"
            "      isolating := %s, defining := %s, code := %s,\n"
            "      dfa := %s,\n"
            "      markSet := %s, attrs := %s,\n"
            "      definingAsContext := %s, definingForContent := %s }" % (
                lean_str(n["name"]), lean_bool(n["isText"]), lean_bool(n["isInline"]), lean_bool(n["isLeaf"]),
                lean_bool(n["isAtom"]), lean_bool(n["inlineContent"]), lean_bool(n["isolating"]), lean_bool(n["defining"]),
                lean_bool(n["code"]), lean_dfa(n["dfa"]),
                "none" if n["markSet"] is None else "some " + lean_nats(n["markSet"]), lean_attr_decls(n["attrs"]),
                lean_bool(n["definingAsContext"]), lean_bool(n["definingForContent"])))
    marks = []
    for m in dump["marks"]:
        marks.append("    { name := %s, excluded := %s, inclusive := %s, attrs := %s }" % (
            lean_str(m["name"]), lean_nats(m["excluded"]), lean_bool(m["inclusive"]), lean_attr_decls(m["attrs"])))
    return ("{ nodes := #[\n" + ",\n".join(nodes) + "],\n  marks := #[" + ("\n" + ",\n".join(marks) if marks else "") +
            "],\n  top := %d, textTy := %d }" % (dump["top"], dump["text"]))


def lean_spec_attrs(attrs):
    return "[" + ", ".join("{ name := %s, default := %s }" % (lean_str(n), lean_opt_str(d)) for n, d in attrs) + "]"


def lean_spec(sd):
    """`codec.spec_dump(spec)` as a `PM.SchemaCompile.Spec` literal"""
    nodes = []
    for n in sd["nodes"]:
        nodes.append(
            "    { name := %s, content := %s, group := %s, marks := %s,\n"
            "      inline := %s, atom := %s, isolating := %s, defining := %s, code := %s, attrs := %s,\n"
            "      definingAsContext := %s, definingForContent := %s }" % (
                lean_str(n["name"]), lean_str(n["content"]), lean_opt_str(n["group"]), lean_opt_str(n["marks"]),
                lean_bool(n["inline"]), lean_bool(n["atom"]), lean_bool(n["isolating"]), lean_bool(n["defining"]),
                lean_bool(n["code"]), lean_spec_attrs(n["attrs"]),
                lean_bool(n["definingAsContext"]), lean_bool(n["definingForContent"])))
    marks = []
    for m in sd["marks"]:
        marks.append("    { name := %s, excludes := %s, group := %s, inclusive := %s, attrs := %s }" % (
            lean_str(m["name"]), lean_opt_str(m["excludes"]), lean_opt_str(m["group"]), lean_bool(m["inclusive"]),
            lean_spec_attrs(m["attrs"])))
    return ("{ nodes := [\n" + ",\n".join(nodes) + "],\n  marks := [" + ("\n" + ",\n".join(marks) if marks else "") +
            "],\n  topNode := %s }" % lean_opt_str(sd["topNode"]))


def collect():
    """[(schema name, Lean identifier, in_family, spec dump, compiled dump)] — built by the real constructor *now*:
    the spec of each family schema is compiled afresh with `Schema(spec)` (not the object the harness built earlier)"""
    import copy

    from prosemirror.model import Schema

    from . import schemas
    from .codec import SchemaInfo, spec_dump
    items = []
    seen = set()
    for fam, infos in ((True, schemas.family()), (False, schemas.extra())):
        for info in infos:
            ident = lean_ident(info.name)
            if ident in seen:
                raise RuntimeError("two schemas map to the Lean name " + ident)
            seen.add(ident)
            spec = info.schema.spec
            fresh = Schema(copy.deepcopy(spec))
            items.append((info.name, ident, fam, spec_dump(spec), SchemaInfo(fresh, info.name).dump()))
    return items


HEADER = "/- GENERATED on every run by harness/translate_schemas.py from the schemas the running library compiled. Do not edit. -/\n"


def render(items):
    """{relative path under lean/Gen: text}"""
    files = {}
    lines = [HEADER.rstrip("\n"),
             "import PM.Basic", "import PM.SchemaCompile", "namespace PM.Gen.Schemas", "open PM PM.SchemaCompile", ""]
    for name, ident, fam, sd, dump in items:
        lines.append("/-- the spec of schema `%s` (%s) as the harness reads it from `schema.spec` -/" % (
            name, "bundled family" if fam else "extra, outside the family"))
        lines.append("def spec%s : Spec :=\n  %s" % (ident, lean_spec(sd).replace("\n", "\n  ")))
        lines.append("")
        lines.append("/-- schema `%s` as `Schema(spec)` of the running library compiled it -/" % name)
        lines.append("def s%s : Schema :=\n  %s" % (ident, lean_schema(dump).replace("\n", "\n  ")))
        lines.append("")
    lines.append("end PM.Gen.Schemas")
    files["Schemas.lean"] = "\n".join(lines) + "\n"

    for name, ident, fam, sd, dump in items:
        # guards
        ls = [HEADER.rstrip("\n"), "import Gen.Schemas", "import Props.Family", "namespace PM.Gen.SchemaFacts",
              "open PM PM.FromDom PM.Gen.Schemas", ""]
        for field, term in GUARDS:
            ls.append("theorem %s_%s : %s := by decide +kernel" % (
                ident[0].lower() + ident[1:], field, term.format(S="s" + ident)))
        ls.append("")
        ls.append("/-- every schema guard the theorems use holds of schema `%s` (kernel-evaluated) -/" % name)
        lid = ident[0].lower() + ident[1:]
        ls.append("theorem %s_guards : PM.Family.Facts s%s :=\n  ⟨%s⟩" % (
            lid, ident, ", ".join("%s_%s" % (lid, f) for f, _ in GUARDS)))
        ls.append("")
        ls.append("end PM.Gen.SchemaFacts")
        files["SchemaFacts/%s.lean" % ident] = "\n".join(ls) + "\n"
        # construction
        lb = [HEADER.rstrip("\n"), "import Gen.Schemas", "import PM.SchemaBuild", "import Props.Family",
              "namespace PM.Gen.SchemaBuilds", "open PM PM.SchemaCompile PM.SchemaBuild PM.Gen.Schemas", "",
              "/-- the model of the schema constructor, run by the kernel on the spec of `%s`, produces exactly the tables" % name,
              "    the real constructor produced -/",
              "theorem %s_builds : buildSchema spec%s = .ok s%s := by decide +kernel" % (lid, ident, ident), "",
              "end PM.Gen.SchemaBuilds"]
        files["SchemaBuilds/%s.lean" % ident] = "\n".join(lb) + "\n"

    fam_items = [it for it in items if it[2]]
    lf = [HEADER.rstrip("\n")] + ["import Gen.SchemaFacts.%s" % it[1] for it in items] + [
        "namespace PM.Gen", "open PM PM.Gen.Schemas", "",
        "/-- the bundled basic and list schemas and the hand-written strict, isolating and table-like variants",
        "    (`harness/schemas.py: family()`), as the running library compiled them -/",
        "def familySchemas : List Schema := [%s]" % ", ".join("s" + it[1] for it in fam_items), "",
        "/-- the further hand-written schemas of `harness/schemas.py: extra()` -/",
        "def extraSchemas : List Schema := [%s]" % ", ".join("s" + it[1] for it in items if not it[2]), "",
        "theorem family_facts : ∀ S ∈ familySchemas, PM.Family.Facts S := by",
        "  intro S hS",
        "  simp only [familySchemas, List.mem_cons, List.not_mem_nil, or_false] at hS",
        "  rcases hS with " + " | ".join(["rfl"] * len(fam_items)),
    ] + ["  · exact SchemaFacts.%s_guards" % (it[1][0].lower() + it[1][1:]) for it in fam_items] + [
        "", "end PM.Gen"]
    files["SchemaFacts.lean"] = "\n".join(lf) + "\n"

    lb = [HEADER.rstrip("\n")] + ["import Gen.SchemaBuilds.%s" % it[1] for it in items] + [
        "namespace PM.Gen", "open PM PM.SchemaCompile PM.SchemaBuild PM.Gen.Schemas", "",
        "/-- (spec, compiled) of every schema of the family -/",
        "def familySpecs : List (Spec × Schema) := [%s]" % ", ".join("(spec%s, s%s)" % (it[1], it[1]) for it in fam_items), "",
        "theorem family_builds : ∀ p ∈ familySpecs, buildSchema p.1 = .ok p.2 := by",
        "  intro p hp",
        "  simp only [familySpecs, List.mem_cons, List.not_mem_nil, or_false] at hp",
        "  rcases hp with " + " | ".join(["rfl"] * len(fam_items)),
    ] + ["  · exact SchemaBuilds.%s_builds" % (it[1][0].lower() + it[1][1:]) for it in fam_items] + [
        "", "end PM.Gen"]
    files["SchemaBuilds.lean"] = "\n".join(lb) + "\n"
    return files


def write(files):
    """write the files whose text changed; remove stale per-schema files; returns the list of changed paths"""
    changed = []
    for sub in ("SchemaFacts", "SchemaBuilds"):
        d = os.path.join(GEN_DIR, sub)
        os.makedirs(d, exist_ok=True)
        for f in os.listdir(d):
            if f.endswith(".lean") and "%s/%s" % (sub, f) not in files:
                os.unlink(os.path.join(d, f))
                changed.append("%s/%s (removed)" % (sub, f))
    for rel, text in sorted(files.items()):
        path = os.path.join(GEN_DIR, rel)
        if not os.path.exists(path) or open(path).read() != text:
            tmp = path + ".tmp%d" % os.getpid()
            with open(tmp, "w") as f:
                f.write(text)
            os.replace(tmp, path)
            changed.append(rel)
    return changed


def regenerate():
    """returns (items, changed paths)"""
    items = collect()
    return items, write(render(items))


def family_modules(prop):
    """the Lean modules of the family layer a property's check builds and audits"""
    mods = []
    if os.path.exists(os.path.join(core.LEAN, "Family", prop + ".lean")):
        mods.append("Family." + prop)
    return mods


if __name__ == "__main__":
    items, changed = regenerate()
    print(json.dumps({"schemas": [it[0] for it in items], "changed": changed}))
