"""./check --replay <file>

A replay file names the property, the kind of violation, the concrete input (document, step, slice,
schema, history … as JSON) and the run (tier, seed) that found it.  Every random choice of a check
derives from one PRNG seeded by (VERIF_SEED, property), so re-running the same check with the same seed
on the current tree regenerates the same cases; this module does that and reports whether a violation
of the same kind — and, when the tree is unchanged, with the same input — is found again.

exit 0: the violation does not reproduce on the current tree; exit 1: it reproduces (the VIOLATION
line of the re-run is printed); exit 2: the replay file is unusable.
"""
import json
import os
import subprocess
import sys

from . import core


def main():
    if len(sys.argv) < 2 or not os.path.exists(sys.argv[1]):
        print("usage: ./check --replay <replay file>", file=sys.stderr)
        return 2
    rep = json.load(open(sys.argv[1]))
    prop, kind, run = rep.get("property"), rep.get("kind"), rep.get("run") or {}
    if not prop or "seed" not in run:
        print("replay file carries no property/run record", file=sys.stderr)
        return 2
    print(f"replaying {prop} kind={kind} tier={run.get('tier')} seed={run['seed']}")
    print("what: " + str(rep.get("what"))[:400])
    env = dict(os.environ, VERIF_SEED=str(run["seed"]), VERIF_TIER=run.get("tier", "quick"))
    p = subprocess.run([os.path.join(core.VERIF, "check"), prop, run.get("tier", "quick")], env=env, capture_output=True, text=True)
    again = []
    for line in p.stdout.splitlines():
        if line.startswith("VIOLATION "):
            path = line.split("replay=")[1].split()[0]
            try:
                r2 = json.load(open(path))
            except Exception:  # noqa: BLE001
                continue
            if r2.get("kind") == kind:
                again.append((path, r2))
    if not again:
        print(f"not reproduced: the re-run reported no violation of kind {kind!r} (exit status of the re-run: {p.returncode})")
        return 0
    strip = lambda r: {k: v for k, v in r.items() if k not in ("run",)}
    same = [pth for pth, r2 in again if strip(r2) == strip(rep)]
    print(f"reproduced: {len(again)} violation(s) of kind {kind!r}" + (f", identical input in {same[0]}" if same else ""))
    print(f"VIOLATION property={prop} replay={again[0][0]}")
    return 1


if __name__ == "__main__":
    sys.exit(main())
