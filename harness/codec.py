"""Canonical encoding of schemas / documents / slices / steps / maps for the Lean line protocol,
and decoding of the model's answers back into library objects."""
import json
import struct

from prosemirror.model import Fragment, Mark, Node, Slice
from prosemirror.model.content import ContentMatch
from prosemirror.transform import (
    AddMarkStep,
    AddNodeMarkStep,
    AttrStep,
    RemoveMarkStep,
    RemoveNodeMarkStep,
    ReplaceAroundStep,
    ReplaceStep,
    StepMap,
)
from prosemirror.transform.doc_attr_step import DocAttrStep


def units(s):
    b = s.encode("utf-16-le", "surrogatepass")
    return list(struct.unpack("<%dH" % (len(b) // 2), b))


def from_units(u):
    return struct.pack("<%dH" % len(u), *u).decode("utf-16-le", "surrogatepass")


def jval(v):
    return json.dumps(v, sort_keys=True, separators=(",", ":"), ensure_ascii=False)


class SchemaInfo:
    """ids for node / mark types of a schema + the protocol dump of its compiled form"""

    def __init__(self, schema, name="?"):
        self.schema = schema
        self.name = name
        self.node_names = list(schema.nodes.keys())
        self.mark_names = list(schema.marks.keys())
        self.nid = {n: i for i, n in enumerate(self.node_names)}
        self.mid = {n: i for i, n in enumerate(self.mark_names)}
        self.lean_id = None  # assigned when sent to a driver

    # -- schema dump
    def dump_dfa(self, start):
        states = [start]
        index = {id(start): 0}
        i = 0
        while i < len(states):
            st = states[i]
            for e in st.next:
                if id(e.next) not in index:
                    index[id(e.next)] = len(states)
                    states.append(e.next)
            i += 1
        return [
            [bool(st.valid_end), [[self.nid[e.type.name], index[id(e.next)]] for e in st.next]]
            for st in states
        ]

    def attr_decls(self, attrs):
        return [[n, bool(a.has_default), jval(a.default) if a.has_default else "null"] for n, a in attrs.items()]

    def dump(self):
        nodes = []
        for name in self.node_names:
            t = self.schema.nodes[name]
            nodes.append({
                "name": name,
                "isText": bool(t.is_text),
                "isInline": bool(t.is_inline),
                "isLeaf": bool(t.is_leaf),
                "isAtom": bool(t.is_atom),
                "inlineContent": bool(t.inline_content),
                "isolating": bool(t.spec.get("isolating")),
                "defining": bool(t.spec.get("defining")),
                "code": bool(t.spec.get("code")),
                "dfa": self.dump_dfa(t.content_match),
                "markSet": None if t.mark_set is None else [self.mid[m.name] for m in t.mark_set],
                "attrs": self.attr_decls(t.attrs),
                "definingAsContext": bool(t.spec.get("definingAsContext")),
                "definingForContent": bool(t.spec.get("definingForContent")),
            })
        marks = []
        for name in self.mark_names:
            t = self.schema.marks[name]
            marks.append({
                "name": name,
                "excluded": [self.mid[m.name] for m in t.excluded],
                "inclusive": t.spec.get("inclusive") is not False,
                "attrs": self.attr_decls(t.attrs),
            })
        return {
            "nodes": nodes,
            "marks": marks,
            "top": self.nid[self.schema.top_node_type.name],
            "text": self.nid["text"],
        }

    # -- values
    def attrs(self, type_, attrs):
        attrs = attrs or {}
        return [[n, jval(attrs.get(n))] for n in type_.attrs]

    def mark(self, m):
        return [self.mid[m.type.name], self.attrs(m.type, m.attrs)]

    def marks(self, ms):
        return [self.mark(m) for m in ms]

    def node(self, n):
        if n.is_text:
            return ["t", units(n.text), self.marks(n.marks)]
        tid = self.nid[n.type.name]
        if n.type.is_leaf:
            return ["l", tid, self.attrs(n.type, n.attrs), self.marks(n.marks)]
        return ["e", tid, self.attrs(n.type, n.attrs), self.marks(n.marks), self.frag(n.content)]

    def frag(self, f):
        return [self.node(c) for c in f.content]

    def slice(self, s):
        return [self.frag(s.content), s.open_start, s.open_end]

    def step(self, st):
        if isinstance(st, ReplaceStep):
            return ["replace", st.from_, st.to, self.slice(st.slice), bool(st.structure)]
        if isinstance(st, ReplaceAroundStep):
            return ["replaceAround", st.from_, st.to, st.gap_from, st.gap_to, self.slice(st.slice), st.insert,
                    bool(st.structure)]
        if isinstance(st, AddMarkStep):
            return ["addMark", st.from_, st.to, self.mark(st.mark)]
        if isinstance(st, RemoveMarkStep):
            return ["removeMark", st.from_, st.to, self.mark(st.mark)]
        if isinstance(st, AddNodeMarkStep):
            return ["addNodeMark", st.pos, self.mark(st.mark)]
        if isinstance(st, RemoveNodeMarkStep):
            return ["removeNodeMark", st.pos, self.mark(st.mark)]
        if isinstance(st, AttrStep):
            return ["attr", st.pos, st.attr, jval(st.value)]
        if isinstance(st, DocAttrStep):
            return ["docAttr", st.attr, jval(st.value)]
        raise TypeError(st)

    # -- decoding model answers into library objects (for applying them with the real code)
    def un_attrs(self, a):
        return {k: json.loads(v) for k, v in a}

    def un_mark(self, m):
        t = self.schema.marks[self.mark_names[m[0]]]
        return Mark(t, self.un_attrs(m[1]))

    def un_marks(self, ms):
        return [self.un_mark(m) for m in ms]

    def un_node(self, n):
        if n[0] == "t":
            return self.schema.text(from_units(n[1]), self.un_marks(n[2]))
        t = self.schema.nodes[self.node_names[n[1]]]
        if n[0] == "l":
            return Node(t, self.un_attrs(n[2]), None, self.un_marks(n[3]))
        return Node(t, self.un_attrs(n[2]), Fragment([self.un_node(c) for c in n[4]]), self.un_marks(n[3]))

    def un_frag(self, f):
        return Fragment([self.un_node(c) for c in f])

    def un_slice(self, s):
        return Slice(self.un_frag(s[0]), s[1], s[2])

    def un_step(self, s):
        k = s[0]
        if k == "replace":
            return ReplaceStep(s[1], s[2], self.un_slice(s[3]), s[4])
        if k == "replaceAround":
            return ReplaceAroundStep(s[1], s[2], s[3], s[4], self.un_slice(s[5]), s[6], s[7])
        if k == "addMark":
            return AddMarkStep(s[1], s[2], self.un_mark(s[3]))
        if k == "removeMark":
            return RemoveMarkStep(s[1], s[2], self.un_mark(s[3]))
        if k == "addNodeMark":
            return AddNodeMarkStep(s[1], self.un_mark(s[2]))
        if k == "removeNodeMark":
            return RemoveNodeMarkStep(s[1], self.un_mark(s[2]))
        if k == "attr":
            return AttrStep(s[1], s[2], json.loads(s[3]))
        if k == "docAttr":
            return DocAttrStep(s[1], json.loads(s[2]))
        raise ValueError(k)


def step_map(m):
    return [list(m.ranges), bool(m.inverted)]


# ---------------------------------------------------------------------------------------------
# the flat token sequence of a document, computed independently from `to_json()` output
def tokens_of_json(schema, j, out=None):
    """tokens of the *content* of node json j"""
    if out is None:
        out = []
    for c in j.get("content", []) or []:
        node_tokens(schema, c, out)
    return out


def _marks_key(ms):
    return tuple((m["type"], jval(m.get("attrs"))) for m in (ms or []))


def node_tokens(schema, c, out):
    mk = _marks_key(c.get("marks"))
    if c["type"] == "text":
        if not isinstance(c.get("text"), str):
            # a node of the text type without text (only broken code builds one): keep it visible as a token of its own
            out.append(("invalid-text-node", mk))
            return out
        for u in units(c["text"]):
            out.append(("u", u, mk))
        return out
    t = schema.nodes[c["type"]]
    ak = jval(c.get("attrs"))
    if t.is_leaf:
        out.append(("leaf", c["type"], ak, mk))
    else:
        out.append(("op", c["type"], ak, mk))
        tokens_of_json(schema, c, out)
        out.append(("cl",))
    return out


def doc_tokens(doc):
    return tokens_of_json(doc.type.schema, doc.to_json())


def frag_tokens(schema, frag):
    out = []
    for c in frag.content:
        node_tokens(schema, c.to_json(), out)
    return out


# ---------------------------------------------------------------------------------------------
# the schema *spec* (the dict handed to `Schema()`), for the model of schema construction (lean/PM/SchemaCompile.lean)
def dump_dfa(start, nid):
    """the automaton reachable from ContentMatch `start`, states numbered in breadth-first discovery order (as
    SchemaInfo.dump_dfa), node types numbered by `nid`"""
    states = [start]
    index = {id(start): 0}
    i = 0
    while i < len(states):
        st = states[i]
        for e in st.next:
            if id(e.next) not in index:
                index[id(e.next)] = len(states)
                states.append(e.next)
        i += 1
    return [[bool(st.valid_end), [[nid[e.type.name], index[id(e.next)]] for e in st.next]] for st in states]


def spec_attrs(attrs):
    return [[n, jval(o["default"]) if "default" in o else None] for n, o in (attrs or {}).items()]


def spec_dump(spec):
    """protocol encoding of a schema spec: the two dicts in insertion order, read key by key from the spec itself (nothing
    of a compiled Schema object is used)"""
    nodes = []
    for name, s in spec["nodes"].items():
        nodes.append({
            "name": name,
            "content": s.get("content", ""),
            "group": s["group"] if "group" in s else None,
            "marks": s.get("marks"),
            "inline": bool(s.get("inline")),
            "atom": bool(s.get("atom")),
            "isolating": bool(s.get("isolating")),
            "defining": bool(s.get("defining")),
            "code": bool(s.get("code")),
            "attrs": spec_attrs(s.get("attrs")),
            "definingAsContext": bool(s.get("definingAsContext")),
            "definingForContent": bool(s.get("definingForContent")),
        })
    marks = []
    for name, s in (spec.get("marks") or {}).items():
        marks.append({
            "name": name,
            "excludes": s.get("excludes"),
            "group": s.get("group"),
            "inclusive": s.get("inclusive") is not False,
            "attrs": spec_attrs(s.get("attrs")),
        })
    return {"nodes": nodes, "marks": marks, "topNode": spec.get("topNode")}
