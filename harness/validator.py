"""An independent statement of schema validity, derived from the schema *spec* (content expressions
read as regular expressions via Python's `re`, mark permissions and exclusions from the spec text),
not from the library's compiled automata or its own predicates."""
import re


class SpecError(ValueError):
    pass


class SpecValidator:
    def __init__(self, schema):
        self.schema = schema
        spec = schema.spec
        self.node_names = list(spec["nodes"].keys())
        self.mark_names = list((spec.get("marks") or {}).keys())
        self.char = {n: chr(0x100 + i) for i, n in enumerate(self.node_names)}
        self.groups = {}
        for n, s in spec["nodes"].items():
            for g in (s.get("group") or "").split(" "):
                if g:
                    self.groups.setdefault(g, []).append(n)
        self.inline = {n: bool(s.get("inline")) or n == "text" for n, s in spec["nodes"].items()}
        self.regex = {}
        self.first = {}       # node type -> types that can come first in its content
        self.inline_content = {}
        for n, s in spec["nodes"].items():
            self.regex[n], self.inline_content[n] = self.compile(s.get("content") or "")
            self.first[n] = set(self.last_first)
        self.mark_rank = {m: i for i, m in enumerate(self.mark_names)}
        self.mark_groups = {}
        for m, s in (spec.get("marks") or {}).items():
            for g in (s.get("group") or "").split(" "):
                if g:
                    self.mark_groups.setdefault(g, []).append(m)
        self.excl = {}
        for m, s in (spec.get("marks") or {}).items():
            e = s.get("excludes")
            self.excl[m] = {m} if e is None else self.gather(e)
        self.allowed = {}
        for n, s in spec["nodes"].items():
            me = s.get("marks")
            if me == "_":
                self.allowed[n] = None
            elif me:
                self.allowed[n] = self.gather(me)
            elif me == "" or not self.inline_content[n]:
                self.allowed[n] = set()
            else:
                self.allowed[n] = None

    def gather(self, expr):
        out = set()
        for name in expr.split(" "):
            if name == "_":
                out |= set(self.mark_names)
            elif name in self.mark_names:
                out.add(name)
            else:
                out |= set(self.mark_groups.get(name, []))
        return out

    def compile(self, expr):
        """content expression -> (compiled Python regex over one char per node type, inline_content);
        an independent recursive-descent reading of the documented grammar (every sub-expression is
        wrapped in a non-capturing group so that stacked subscripts such as `a+*` are legal regexes)"""
        toks = [t for t in re.findall(r"\w+|\W", expr) if t.strip()]
        pos = [0]
        inline = [None]

        def peek():
            return toks[pos[0]] if pos[0] < len(toks) else None

        def eat(t):
            if peek() == t:
                pos[0] += 1
                return True
            return False

        # every parse function returns (regex text, nullable, set of node types a matching sequence can start with)
        def p_expr():
            parts = [p_seq()]
            while eat("|"):
                parts.append(p_seq())
            return ("(?:" + "|".join(x[0] for x in parts) + ")", any(x[1] for x in parts), set().union(*[x[2] for x in parts]))

        def p_seq():
            parts = [p_sub()]
            while peek() is not None and peek() not in (")", "|"):
                parts.append(p_sub())
            first, nullable = set(), True
            for x in parts:
                if nullable:
                    first |= x[2]
                nullable = nullable and x[1]
            return ("(?:" + "".join(x[0] for x in parts) + ")", nullable, first)

        def p_num():
            t = peek()
            if t is None or not t.isdigit():
                raise SpecError("number expected")
            pos[0] += 1
            return int(t)

        def p_sub():
            e, nl, fs = p_atom()
            while True:
                if eat("+"):
                    e = "(?:" + e + ")+"
                elif eat("*"):
                    e, nl = "(?:" + e + ")*", True
                elif eat("?"):
                    e, nl = "(?:" + e + ")?", True
                elif eat("{"):
                    lo = p_num()
                    hi = lo
                    if eat(","):
                        hi = None if peek() == "}" else p_num()
                    if not eat("}"):
                        raise SpecError("unclosed range")
                    if hi is None:
                        e = "(?:" + e + "){%d,}" % lo
                    else:
                        e = "(?:" + e + "){%d,%d}" % (lo, max(lo, hi))
                        if max(lo, hi) == 0:
                            fs = set()
                    nl = nl or lo == 0
                else:
                    return e, nl, fs

        def p_atom():
            if eat("("):
                e = p_expr()
                if not eat(")"):
                    raise SpecError("missing )")
                return e
            t = peek()
            if t is None or not re.match(r"\w", t):
                raise SpecError("unexpected token")
            pos[0] += 1
            names = [t] if t in self.char else self.groups.get(t, [])
            if not names:
                raise SpecError("unknown name " + t)
            for n in names:
                if inline[0] is None:
                    inline[0] = self.inline[n]
                elif inline[0] != self.inline[n]:
                    raise SpecError("mixing inline and block")
            return ("[" + "".join(self.char[n] for n in names) + "]", False, set(names))

        self.last_first = set()
        if not toks:
            return re.compile(""), False
        rx, _nullable, first = p_expr()
        if pos[0] != len(toks):
            raise SpecError("trailing text")
        self.last_first = first
        return re.compile(rx), bool(inline[0])

    # ---------------------------------------------------------------------------------------
    def marks_problem(self, marks):
        names = [m["type"] for m in marks]
        for a, b in zip(names, names[1:]):
            if self.mark_rank[a] > self.mark_rank[b]:
                return "marks not in schema order"
        for i, a in enumerate(marks):
            for j, b in enumerate(marks):
                if i != j and a == b:
                    return "duplicate mark"
                if i != j and b["type"] in self.excl[a["type"]]:
                    return f"mark {a['type']} together with excluded {b['type']}"
        return None

    def problem(self, j, path="doc"):
        """None if the node JSON is fully valid, else a description of the first problem"""
        t = j["type"]
        spec = self.schema.spec["nodes"][t]
        mp = self.marks_problem(j.get("marks") or [])
        if mp:
            return f"{path}: {mp}"
        declared = list((spec.get("attrs") or {}).keys())
        if sorted((j.get("attrs") or {}).keys()) != sorted(declared):
            return f"{path}: attributes {sorted((j.get('attrs') or {}).keys())} != declared {sorted(declared)}"
        if t == "text":
            if not j.get("text"):
                return f"{path}: empty text"
            return None
        kids = j.get("content") or []
        seq = "".join(self.char[k["type"]] for k in kids)
        if not self.regex[t].fullmatch(seq):
            return f"{path}: content {[k['type'] for k in kids]} does not match '{spec.get('content') or ''}'"
        allowed = self.allowed[t]
        for idx, k in enumerate(kids):
            if allowed is not None:
                for m in k.get("marks") or []:
                    if m["type"] not in allowed:
                        return f"{path}/{idx}: mark {m['type']} not allowed in {t}"
            p = self.problem(k, f"{path}/{t}[{idx}]")
            if p:
                return p
        return None


_CACHE = {}


def validator(schema):
    v = _CACHE.get(id(schema))
    if v is None:
        v = SpecValidator(schema)
        _CACHE[id(schema)] = v
    return v
