"""Matchers for the `open` entries of KNOWN_FINDINGS.jsonl: small decidable predicates over a replay,
kept as narrow as the diagnosis allows. Never written at run time."""


def exact_fields(f, replay):
    """the finding lists `fields`: replay must agree on each of them"""
    for k, v in f.get("fields", {}).items():
        if replay.get(k) != v:
            return False
    return True
