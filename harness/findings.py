"""Matchers for the `open` entries of KNOWN_FINDINGS.jsonl: small decidable predicates over a replay,
kept as narrow as the diagnosis allows. Never written at run time."""


def exact_fields(f, replay):
    """the finding lists `fields`: replay must agree on each of them"""
    for k, v in f.get("fields", {}).items():
        if replay.get(k) != v:
            return False
    return True


def _leaf_type(schema_name, type_name):
    try:
        from . import schemas
        return schemas.by_name(schema_name).schema.nodes[type_name].is_leaf
    except Exception:  # noqa: BLE001
        return None


def c04_leaf_retype(f, replay):
    """C04 open finding: set_node_markup of an *empty* non-leaf node to a *leaf* type emits a replace-around
    step whose gap is empty and sits after the leaf wrapper; the inverse's structure check sees the leaf as
    content and fails.  Class: replace-around, empty gap, insert = 1, slice = one childless node of a leaf type."""
    st = replay.get("step") or {}
    if st.get("stepType") != "replaceAround" or st.get("gapFrom") != st.get("gapTo") or st.get("insert") != 1:
        return False
    content = (st.get("slice") or {}).get("content") or []
    if len(content) != 1 or content[0].get("content"):
        return False
    leaf = _leaf_type(replay.get("schema"), content[0]["type"])
    return leaf is True or (leaf is None and st.get("to", 0) - st.get("from", 0) == 2)


def c03_touching_empty_gap(f, replay):
    """C03 open finding: a replace-around step whose gap is empty and sits at the end of the replaced range
    (gapFrom == gapTo == to) while part of the slice lies after the insertion point: its map has two touching
    ranges [from, gapFrom-from, insert] and [gapTo, 0, size-insert]; `map(to, 1)` stops in the first one and
    lands between the two inserted halves, not after them (StepMap semantics with adjacent ranges, also upstream)."""
    st = replay.get("step") or {}
    if st.get("stepType") != "replaceAround":
        return False
    if not (st.get("gapFrom") == st.get("gapTo") == st.get("to")):
        return False
    return replay.get("pos") == st.get("to")
