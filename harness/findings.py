"""Matchers for the `open` entries of KNOWN_FINDINGS.jsonl: small decidable predicates over a replay,
kept as narrow as the diagnosis allows. Never written at run time."""


def exact_fields(f, replay):
    """the finding lists `fields`: replay must agree on each of them"""
    for k, v in f.get("fields", {}).items():
        if replay.get(k) != v:
            return False
    return True


def _leaf_type(schema_name, type_name):
    try:
        from . import schemas
        return schemas.by_name(schema_name).schema.nodes[type_name].is_leaf
    except Exception:  # noqa: BLE001
        return None


def c04_leaf_retype(f, replay):
    """C04 open finding: set_node_markup of an *empty* non-leaf node to a *leaf* type emits a replace-around
    step whose gap is empty and sits after the leaf wrapper; the inverse's structure check sees the leaf as
    content and fails.  Class: replace-around, empty gap, insert = 1, slice = one childless node of a leaf type."""
    st = replay.get("step") or {}
    if st.get("stepType") != "replaceAround" or st.get("gapFrom") != st.get("gapTo") or st.get("insert") != 1:
        return False
    content = (st.get("slice") or {}).get("content") or []
    if len(content) != 1 or content[0].get("content"):
        return False
    leaf = _leaf_type(replay.get("schema"), content[0]["type"])
    return leaf is True or (leaf is None and st.get("to", 0) - st.get("from", 0) == 2)


def c03_touching_empty_gap(f, replay):
    """C03 open finding: a replace-around step whose gap is empty and sits at the end of the replaced range
    (gapFrom == gapTo == to) while part of the slice lies after the insertion point: its map has two touching
    ranges [from, gapFrom-from, insert] and [gapTo, 0, size-insert]; `map(to, 1)` stops in the first one and
    lands between the two inserted halves, not after them (StepMap semantics with adjacent ranges, also upstream)."""
    st = replay.get("step") or {}
    if st.get("stepType") != "replaceAround":
        return False
    if not (st.get("gapFrom") == st.get("gapTo") == st.get("to")):
        return False
    return replay.get("pos") == st.get("to")


def c04_node_mark_inverse(f, replay):
    """C04 open finding: a single node-mark step cannot always be undone by a single node-mark step
    (AddNodeMarkStep.invert / RemoveNodeMarkStep.invert, same in upstream). Class — decided from the
    replay's `node_mark` data alone:
      add:    the new mark displaces two or more present marks, or displaces a mark that does not
              exclude the new mark in return (asymmetric exclusion: re-adding it is blocked), or
      either: the node carries two or more marks of the step's mark type (a type that does not exclude
              itself): removing and re-adding changes the order within the type."""
    nm = replay.get("node_mark")
    if not nm:
        return False
    present, mark, excl = nm["present"], nm["mark"], nm["excludes"]
    same_type = [p for p in present if p[0] == mark[0]]
    if len(same_type) >= 2 or (len(same_type) == 1 and same_type[0] != mark and mark[0] not in excl.get(mark[0], [])):
        return True
    if nm["add"]:
        displaced = [p for p in present if p[0] in excl.get(mark[0], []) and p != mark]
        if len(displaced) >= 2:
            return True
        if any(mark[0] not in excl.get(p[0], []) for p in displaced):
            return True
    return False


def _ancestor_types(doc, pos):
    r = doc.resolve(pos)
    return [r.node(d).type.name for d in range(r.depth + 1)]


def c17_parent_retyped(f, replay):
    """C17 open finding: one of the two steps re-types an ancestor of the other step's range (it joins a node
    of another type onto it through an open slice side, e.g. turns the paragraph holding the other range into a
    title / code block). The other step then applies to content in a differently typed parent, so orders can
    diverge or one order can fail. Class: for some step X of the pair, the chain of ancestor node types at an end
    of X's range differs between the base document and the document after the other step (at the mapped position)."""
    from prosemirror.model import Node
    from prosemirror.transform import Step
    from . import schemas
    from .props.c17 import span
    info = schemas.by_name(replay["schema"])
    doc = Node.from_json(info.schema, replay["doc"])
    a = Step.from_json(info.schema, replay["a"])
    b = Step.from_json(info.schema, replay["b"])
    for x, y in ((a, b), (b, a)):
        res = y.apply(doc)
        if res.doc is None:
            continue
        m = y.get_map()
        sp = span(x)
        for pos, assoc in ((sp[0], 1), (sp[1], -1)):
            try:
                if _ancestor_types(doc, pos) != _ancestor_types(res.doc, m.map(pos, assoc)):
                    return True
            except Exception:  # noqa: BLE001
                return True
    return False


def c12_lift_split_invalid(f, replay):
    """C12 open finding: `lift_target` approves a lift whose split leaves an invalid node behind.  `can_cut`
    only asks whether the children before / after the range are valid content *on their own*; when the lift
    splits several levels, the node left before (after) the range at level d also receives the split-off copy
    of its level-(d+1) child as its last (first) child, which `can_cut` does not look at — e.g. the first item
    of a nested list: ul(li(p, ol(li1, li2))) lifting li1 to depth 1 leaves li(ol(li2)) without its leading
    paragraph.  Upstream algorithm.  Class: recompute the nodes the split leaves on either side, level by
    level, and report the class when one of them is not valid content for its type."""
    from prosemirror.model import Fragment, Node
    from . import schemas
    if replay.get("helper") != "lift_target":
        return False
    info = schemas.by_name(replay["schema"])
    doc = Node.from_json(info.schema, replay["doc"])
    rng_ = doc.resolve(replay["pos"]).block_range(doc.resolve(replay["to"]))
    if rng_ is None:
        return False
    target = replay["target"]
    fr, to, depth = rng_.from_, rng_.to, rng_.depth
    before = after = None
    for d in range(depth, target, -1):
        node = fr.node(d)
        kids_before = node.content.content[:fr.index(d)]
        if before is not None:
            kids_before = kids_before + [before]
        node_t = to.node(d)
        kids_after = node_t.content.content[to.index_after(d):]
        if after is not None:
            kids_after = [after] + kids_after
        for kids, n in ((kids_before, node), (kids_after, node_t)):
            if kids and not n.type.valid_content(Fragment(kids)):
                return True
        before = node.copy(Fragment(kids_before)) if kids_before else None
        after = node_t.copy(Fragment(kids_after)) if kids_after else None
    return False


def c12_wrap_ignores_marks(f, replay):
    """C12 open finding: `find_wrapping` compares node *types* only; when a node in the range carries marks
    the innermost wrapper does not allow (only possible where the current parent allows marks on block nodes,
    e.g. a doc with marks "_"), the approved wrap cannot produce a valid document (the step is refused:
    'Content does not fit in gap').  Upstream algorithm.  Class: some node of the range has a mark whose type
    the innermost wrapper type does not allow."""
    from prosemirror.model import Node
    from . import schemas
    if replay.get("helper") != "find_wrapping":
        return False
    info = schemas.by_name(replay["schema"])
    doc = Node.from_json(info.schema, replay["doc"])
    rng_ = doc.resolve(replay["pos"]).block_range(doc.resolve(replay["to"]))
    if rng_ is None:
        return False
    inner = info.schema.nodes[replay["chain"][-1]]
    for i in range(rng_.start_index, rng_.end_index):
        if not inner.allows_marks(rng_.parent.child(i).marks):
            return True
    return False


def c18_fitter_splits_isolating(f, replay):
    """C18 open finding: replace / replace_range / replace_with / insert / replace_range_with of content that cannot be
    placed inside the isolating node (e.g. a closed table cell pasted inside a cell, a table inserted inside a table):
    the Fitter closes the isolating node, places the content after it and re-opens a copy for the rest — the node is
    *split* (cell(a|b) + cell(Q) -> cell(a), cell(Q), cell(b)).  Same in upstream prosemirror-transform (the frontier is
    closed without looking at `isolating`).  Class — decided from the replay's data alone: every emitted step starts
    inside the node's content and ends inside it or runs on over closing tokens only (re-created by its slice), and every
    old token outside the node survives, in order, around an intact copy of the node (tokens were only added after the
    node's content; nothing outside was removed or rewritten and nothing was put before the node)."""
    return (replay.get("kind") == "escaped" and replay.get("steps_inside") is True and replay.get("survives_in_order") is True)


def c18_insert_point_outside(f, replay):
    """C18 open finding: replace_range_with(p, p, node) with an empty range asks insert_point for the nearest place the
    node fits; insert_point walks up through ancestors without stopping at isolating ones, so a node that does not fit
    inside (e.g. a table row given a position inside a cell) is inserted outside the isolating node.  Same in upstream.
    Class: operation replace_range_with with from == to, one emitted step that is a pure insertion (from == to, no gap)
    at a position outside the node's content, and every old token survives in order around the intact node."""
    args = replay.get("args") or []
    return (replay.get("kind") == "escaped" and replay.get("op") == "replace_range_with" and len(args) >= 2 and args[0] == args[1]
            and replay.get("pure_insert_outside") is True and replay.get("survives_in_order") is True)


def _leafish(replay, type_name):
    """is `type_name` a leaf type under the replay's schema (family schema by name, else the attached spec)"""
    leaf = _leaf_type(replay.get("schema"), type_name)
    if leaf is not None:
        return leaf
    spec = (replay.get("schema_spec") or {}).get("nodes") or replay.get("schema_spec_nodes") or {}
    if type_name in spec:
        return not spec[type_name].get("content")
    return False


def _jtoks(replay, nodes):
    """flat tokens of slice-content JSON: 't' per UTF-16 unit of text, 'l' for a leaf, 'op' … 'cl' around other nodes"""
    out = []
    for n in nodes or []:
        if n.get("type") == "text":
            out += ["t"] * (len(n.get("text", "").encode("utf-16-le")) // 2)
        elif not n.get("content") and _leafish(replay, n.get("type")):
            out.append("l")
        else:
            out += ["op"] + _jtoks(replay, n.get("content")) + ["cl"]
    return out


def _only_wrappers(toks):
    """closes then opens, nothing else: no text, and no node that is both opened and closed in this part"""
    seen_open = False
    for t in toks:
        if t in ("t", "l") or (t == "cl" and seen_open):
            return False
        seen_open = seen_open or t == "op"
    return True


def c04_structure_inverse(f, replay):
    """C04 open finding (generalises C04-leaf-retype): a replace-around step with the `structure` flag whose slice carries,
    before or after the insertion point, more than wrapper tokens — text, a leaf, or any node complete within that part —
    applies (the flag only inspects what the step *deletes*), but its inverse inherits the flag and now has to delete
    those tokens, which `content_between` counts as content: the inverse refuses with 'Structure gap-replace would
    overwrite content'.  Same in upstream (ReplaceAroundStep.invert passes `structure` on).  Transform operations of the
    library emit such a step in two cases: set_node_markup to a leaf type (C04-leaf-retype) and a direct wrap() with a leaf
    wrapper type.
    Class: the failing step is a replace-around step with structure = true; the part of its slice before the insertion
    point or the part after it is not closes-then-opens only; the inverse failed with that message."""
    st = replay.get("step") or {}
    if st.get("stepType") != "replaceAround" or not st.get("structure"):
        return False
    if "overwrite content" not in str(replay.get("detail")) and "overrite content" not in str(replay.get("detail")):
        return False
    sl = st.get("slice") or {}
    toks = _jtoks(replay, sl.get("content"))
    toks = toks[sl.get("openStart", 0):len(toks) - sl.get("openEnd", 0)]
    ins = st.get("insert", 0)
    return not (_only_wrappers(toks[:ins]) and _only_wrappers(toks[ins:]))


def _schema_of(replay):
    from . import schemas
    if replay.get("schema") == "random":
        from prosemirror.model import Schema
        spec = replay["schema_spec"]
        return Schema({"nodes": {k: dict(v) for k, v in spec["nodes"].items()}, "marks": {k: dict(v) for k, v in (spec.get("marks") or {}).items()}})
    return schemas.by_name(replay["schema"]).schema


def c04_nontransitive_join(f, replay):
    """C04 open finding: `compatible_content` (the test behind check_join) is symmetric but not transitive.  A replace
    step whose slice is open on both sides can merge a from-side ancestor A with a to-side ancestor B *through* an open
    slice node C (A~C and C~B were checked); the inverse has to split that node again and checks A~B directly, which can
    fail ("Cannot join B onto A") although the forward step applied.  Upstream algorithm.  Class: a replace step whose
    inverse fails with a join error and for which the guard of theorem C04.replace_undo is false — `sidesCompatible`
    (lean/PM/UndoGuard.lean), recomputed here with the real code as harness/props/c04_guard.py ties it: at some depth d
    with e < d <= e + n (e = depth(from) - openStart, n = nested levels at which the slice is a single node open on both
    sides) the from-side and to-side ancestors in the original document have types that are not compatible_content."""
    st = replay.get("step") or {}
    if st.get("stepType") != "replace":
        return False
    if "join" not in str(replay.get("detail", "")):
        return False
    from prosemirror.model import Node, Slice
    from .props.c04_guard import py_guard
    schema = _schema_of(replay)
    doc = Node.from_json(schema, replay.get("culprit_doc") or replay["doc"])
    sl = Slice.from_json(schema, st.get("slice"))
    return not py_guard(doc, st["from"], st["to"], sl)[0]


def c04_around_text_gap(f, replay):
    """C04 open finding: the inverse of a replace-around step is rejected with "Content does not fit in gap" when the
    gap was cut inside a text child of a node that is complete in the removed content and whose content expression does
    not take two texts in a row: insert_into asks `parent.can_replace(index, index, gap)` at a text-split point, i.e.
    counts the split text twice.  Upstream insertInto.  Class: a replace-around step whose inverse fails that way and for
    which the guard `gapFitsBack` of theorem C04.replaceAround_undo is false (recomputed with the real code)."""
    st = replay.get("step") or {}
    if st.get("stepType") != "replaceAround":
        return False
    if "fit in gap" not in str(replay.get("detail", "")):
        return False
    from prosemirror.model import Node
    from prosemirror.transform import Step
    from .props.c04_guard import py_around_guards
    schema = _schema_of(replay)
    doc = Node.from_json(schema, replay.get("culprit_doc") or replay["doc"])
    step = Step.from_json(schema, st)
    return not py_around_guards(doc, step)[0]


def partial_node_class(sl):
    """is there a non-leaf node N on the slice's end spine (within open_end) whose children are not a matchable beginning
    of N's content expression — as they stand, or, when N is on the start spine too (open_start reaches below it) and has
    at least two children, with the start-open first child taken apart?  The class of the finding
    C11-fitter-partial-node; lean/PM/Fitter.lean `partialNodeOn` is the same walk (compared exactly by
    harness/rangeplan.py `tie_fit_guards`), its negation the guard `Slice.noPartialNode` of Props/C11.lean."""
    frag, b, a, on_start = sl.content, sl.open_end, sl.open_start, True
    while b > 0 and frag.child_count >= 1:
        node = frag.last_child
        if node.is_leaf:
            return False
        on_start = on_start and a > 0 and frag.child_count == 1
        kids = [node.child(i) for i in range(node.child_count)]
        # as it stands, and with the start-open first child taken apart (only when N is on the start spine too)
        variants = [kids] + ([kids[1:]] if on_start and a > 1 and len(kids) >= 2 else [])
        for ks in variants:
            m = node.type.content_match
            for k in ks:
                m = m.match_type(k.type) if m is not None else None
            if m is None:
                return True
        frag, b, a = node.content, b - 1, a - 1
    return False


def c11_fitter_partial_node(f, replay):
    """C11 open finding: the Fitter raises ValueError("Called contentMatchAt on a node with invalid content") from
    place_nodes when a node N on the slice's *end* spine (within open_end) has children that are not a matchable beginning
    of N's content expression — which is legitimate for a slice when N is also open at the start (its leading children
    were cut away: <block(b("z"))>(2,2) cut from block(a, b) with the parents kept, block "a b") or becomes so once the
    start-open first child has been taken apart (<block(a("y"), b("z"))>(2,2)).  The frontier entry for the re-opened N is
    computed with `N.content_match_at(N.child_count)`, which raises on such a partial node.  Upstream Fitter.placeNodes
    does the same.  Class: that exception from a replace-family operation, and such a node exists on the end spine."""
    if "contentMatchAt" not in str(replay.get("what", "")):
        return False
    if replay.get("op") not in ("replace", "replace_range", "replace_with", "insert", "replace_range_with") and \
            replay.get("kind") not in ("drop_point-fails", "insert_point-fails"):
        return False
    from prosemirror.model import Slice
    schema = _schema_of(replay)
    sls = [a for a in (replay.get("args") or []) if isinstance(a, dict) and ("openStart" in a or "openEnd" in a)]
    if isinstance(replay.get("slice"), dict):
        sls.append(replay["slice"])
    if not sls:
        return False
    return partial_node_class(Slice.from_json(schema, sls[0]))



def c11_find_fittable_shallow(f, replay):
    """C11 open finding: `Fitter.place_nodes`, when it takes only part of a fragment at a slice depth above the open
    start (`slice_depth < open_start`), builds the new `unplaced` with the *old* `open_start` although the first node left at
    that depth is complete; the next `Fitter.find_fittable` walks `open_start` levels down first children and dereferences
    the `first_child` of an empty fragment (AttributeError) when that node is shallower (an empty nested list).  Upstream
    `placeNodes` / `findFittable` do the same.  Never reached on the kernel-checked schema family; reached on the strict list
    variant `list_item: "paragraph (ordered_list | bullet_list)?"`.  Class: a replace-family operation on a schema outside
    the family dies with that AttributeError and the innermost frame of the traceback is `find_fittable`."""
    if replay.get("kind") != "raises" or "'NoneType' object has no attribute 'type'" not in str(replay.get("what", "")):
        return False
    from . import schemas, reference
    if replay.get("schema") in [s_.name for s_ in schemas.family()]:
        return False
    import traceback
    try:
        L = reference.lib("current")
        reference.run_transform_op(L, reference.schema_for(L, replay), replay)
    except AttributeError as e:
        tb = traceback.extract_tb(e.__traceback__)
        return bool(tb) and tb[-1].name == "find_fittable"
    except Exception:  # noqa: BLE001
        return False
    return False


def c01_insert_inside_text(f, replay):
    """C01 open finding: a replace-around step whose insertion point (`insert`) falls strictly inside a *text* node of its
    slice, in a node that is complete in the slice: `insert_into` asks `parent.can_replace(index, index, gap content)` at
    the index of that text child — i.e. tests `before ++ gap ++ [text] ++ after` — but builds
    `before ++ [text₁] ++ gap ++ [text₂] ++ after`; where the content expression tells the two apart (`image* text*`) the
    step applies and returns a schema-invalid document.  Upstream `insertInto` has the same test.
    Class: the violation is an invalid result of a replace-around step whose insertion point lies strictly inside a text
    node of the slice (walked with the library's own `find_index`)."""
    if replay.get("kind") not in (None, "invalid-result"):
        return False
    st = replay.get("step") or {}
    if st.get("stepType") != "replaceAround":
        return False
    from prosemirror.model import Slice
    try:
        sl = Slice.from_json(_schema_of(replay), st.get("slice"))
    except Exception:  # noqa: BLE001
        return False
    content, dist = sl.content, st.get("insert", 0) + sl.open_start
    for _ in range(64):
        a = content.find_index(dist)
        index, offset = a["index"], a["offset"]
        if offset == dist:
            return False
        child = content.maybe_child(index)
        if child is None:
            return False
        if child.is_text:
            return True
        content, dist = child.content, dist - offset - 1
    return False


def c04_same_type_mark_order(f, replay):
    """C04 open finding: a mark type that does not exclude itself (`excludes: ""`, e.g. comments with ids) may occur several
    times on one node, ordered by insertion.  Removing one of them and re-adding it (the inverse of the RemoveMarkStep that
    `remove_mark` records; or of an AddMarkStep that displaced it) puts it *behind* the others of its type: same marks,
    different order, and `Node.eq` / `Mark.same_set` are order-sensitive.  Range-step analogue of case (c) of
    C04-node-mark-inverse; upstream `addToSet` behaves the same.  Class: the culprit step of a failed history undo is an add- or
    remove-mark step, and some inline node in its range (in the document it was applied to) carries two or more marks of the
    step's mark type."""
    st = replay.get("step") or {}
    if st.get("stepType") not in ("addMark", "removeMark"):
        return False
    from prosemirror.model import Node
    schema = _schema_of(replay)
    doc = Node.from_json(schema, replay.get("culprit_doc") or replay["doc"])
    ty = (st.get("mark") or {}).get("type")
    hit = []
    doc.nodes_between(st["from"], st["to"], lambda n, p, par, i: hit.append(1) if n.is_inline and sum(1 for m in n.marks if m.type.name == ty) >= 2 else None)
    return bool(hit)
