"""Seeded generators of documents, mark sets, slices and steps (structured, mostly valid)."""
from prosemirror.model import Fragment, Mark, Node, Slice
from prosemirror.transform import (
    AddMarkStep,
    AddNodeMarkStep,
    AttrStep,
    RemoveMarkStep,
    RemoveNodeMarkStep,
    ReplaceAroundStep,
    ReplaceStep,
)
from prosemirror.transform.doc_attr_step import DocAttrStep

# astral characters from plane 1 (four-byte UTF-8 lead byte F0), plane 14 (lead byte F3) and plane 16 (lead byte F4)
ALPHABET = ["a", "b", "c", "d", "e", " ", "x", "y", "\n", "é", "😀", "𝒳", "0", "z", "\u00a0", "\u2003", "\U000E0067", "\U0010FFFD"]


def gen_text(rng, lo=1, hi=6, plain=False):
    n = rng.randint(lo, hi)
    if plain:
        return "".join(rng.choice("abcdefgh") for _ in range(n))
    return "".join(rng.choice(ALPHABET) for _ in range(n))


def gen_attr_value(rng, name):
    if name in ("level", "lvl", "order", "colspan"):
        return rng.randint(1, 6)
    r = rng.random()
    if r < 0.5:
        return rng.choice(["foo", "bar", "x\"<&>y", "img.png", ""])
    if r < 0.8:
        return rng.randint(0, 9)
    return None if r < 0.9 else rng.choice(["u", "v"])


def gen_attrs(rng, type_):
    out = {}
    for name, a in type_.attrs.items():
        if a.has_default and rng.random() < 0.6:
            out[name] = a.default
        else:
            v = gen_attr_value(rng, name)
            if v is None and not (a.has_default and a.default is None):
                v = rng.randint(0, 9)
            out[name] = v
    return out


def gen_mark(rng, schema, names=None):
    names = names or list(schema.marks.keys())
    if not names:
        return None
    t = schema.marks[rng.choice(names)]
    return Mark(t, gen_attrs(rng, t))


def gen_marks(rng, schema, parent_type, p=0.35):
    """a canonical mark set allowed by parent_type, built through add_to_set"""
    if parent_type.mark_set is None:
        names = list(schema.marks.keys())
    else:
        names = [m.name for m in parent_type.mark_set]
    ms = Mark.none
    if not names or rng.random() > p:
        return ms
    for _ in range(rng.randint(1, 3)):
        ms = gen_mark(rng, schema, names).add_to_set(ms)
    return ms


def reference_add_to_set(mark, ms):
    """the documented add_to_set (used only by generators so that they do not depend on the code under test)"""
    import json as _json
    key = lambda x: (x.type.name, _json.dumps(x.attrs, sort_keys=True, default=str))   # not the library's own Mark.eq
    for o in ms:
        if key(o) == key(mark):
            return ms
    for o in ms:
        if (not mark.type.excludes(o.type)) and o.type.excludes(mark.type):
            return ms
    kept = [o for o in ms if not mark.type.excludes(o.type)]
    out, placed = [], False
    for o in kept:
        if not placed and o.type.rank > mark.type.rank:
            out.append(mark)
            placed = True
        out.append(o)
    if not placed:
        out.append(mark)
    return out


def gen_marks_ref(rng, schema, parent_type, p=0.35):
    if parent_type.mark_set is None:
        names = list(schema.marks.keys())
    else:
        names = [m.name for m in parent_type.mark_set]
    ms = []
    if not names or rng.random() > p:
        return ms
    for _ in range(rng.randint(1, 3)):
        ms = reference_add_to_set(gen_mark(rng, schema, names), ms)
    return ms


def _filler(match, depth=0):
    """nodes needed to reach a valid end from `match` (None if impossible): the harness's own breadth-first search over
    the automaton's edges (shortest filling by generatable types), independent of the library's fill_before /
    create_and_fill, which are code under test"""
    if depth > 8:
        return None
    if match.valid_end:
        return Fragment.empty
    seen, queue = {id(match)}, [(match, [])]
    while queue:
        m, path = queue.pop(0)
        for e in m.next:
            t = e.type
            if t.is_text or t.has_required_attrs() or id(e.next) in seen:
                continue
            seen.add(id(e.next))
            if e.next.valid_end:
                nodes = []
                for tp in path + [t]:
                    inner = Fragment.empty if tp.is_leaf else _filler(tp.content_match, depth + 1)
                    if inner is None:
                        return None
                    nodes.append(Node(tp, {k: a.default for k, a in tp.attrs.items()}, inner, []))
                return Fragment.from_array(nodes)
            queue.append((e.next, path + [t]))
    return None


def gen_children(rng, schema, type_, depth, budget):
    """children for a node of type_: random walk over the content automaton"""
    kids = []
    match = type_.content_match
    max_kids = rng.choice([1, 2, 2, 3, 4]) if depth > 0 else rng.choice([1, 2, 3, 4, 5])
    while True:
        if match.valid_end and (len(kids) >= max_kids or rng.random() < 0.25 or budget[0] <= 0):
            break
        edges = list(match.next)
        if not edges:
            break
        if len(kids) >= max_kids + 3 or budget[0] <= -20:
            # finish as cheaply as possible
            fill = _filler(match)
            if fill is None:
                return None
            kids.extend(fill.content)
            match = None
            break
        # prefer generatable / shallow types when deep
        cands = edges
        if depth >= 3:
            shallow = [e for e in edges if e.type.is_text or e.type.is_leaf or e.type.inline_content]
            cands = shallow or edges
        e = rng.choice(cands)
        child = gen_node(rng, schema, e.type, type_, depth + 1, budget)
        if child is None:
            fill = _filler(match)
            if fill is None:
                return None
            kids.extend(fill.content)
            break
        kids.append(child)
        match = e.next
    # adjacent text children with equal marks are merged here, by the generator itself, so that a generated document does
    # not depend on the library's own merging (Fragment.from_array) being right
    merged = []
    for k in kids:
        if merged and k.is_text and merged[-1].is_text and Mark.same_set(k.marks, merged[-1].marks):
            merged[-1] = schema.text(merged[-1].text + k.text, merged[-1].marks)
        else:
            merged.append(k)
    return Fragment.from_array(merged) if merged else Fragment.empty


def gen_node(rng, schema, type_, parent_type, depth, budget):
    budget[0] -= 1
    # a block node gets marks where its parent allows them (schemas with `marks` on a block parent): often enough that
    # marked ancestors, marked wrapped / lifted / joined blocks and marked nodes inside gaps are all common
    marks = gen_marks_ref(rng, schema, parent_type, 0.35 if type_.is_inline else 0.25) if parent_type else []
    if type_.is_text:
        return schema.text(gen_text(rng), marks)
    attrs = gen_attrs(rng, type_)
    if type_.is_leaf:
        return Node(type_, attrs, None, marks)
    if depth > 6:
        inner = _filler(type_.content_match)
        return None if inner is None else Node(type_, attrs, inner, marks)
    kids = gen_children(rng, schema, type_, depth, budget)
    if kids is None:
        return None
    return Node(type_, attrs, kids, marks)


def gen_doc(rng, schema, budget=30):
    for _ in range(20):
        b = [budget]
        try:
            d = gen_node(rng, schema, schema.top_node_type, None, 0, b)
        except RecursionError:
            d = None
        if d is None:
            continue
        try:
            d.check()
        except Exception:  # noqa: BLE001  generator produced something the (possibly broken) validator refuses
            continue
        return d
    top = schema.top_node_type
    inner = _filler(top.content_match)
    if inner is not None:
        return Node(top, {k: a.default for k, a in top.attrs.items()}, inner, [])
    return top.create_and_fill()


def positions(doc):
    return range(0, doc.content.size + 1)


def pair_aligned(doc, pos):
    """position does not fall inside a surrogate pair of a text node"""
    try:
        r = doc.resolve(pos)
    except Exception:  # noqa: BLE001
        return True
    off = r.text_offset
    if not off:
        return True
    t = getattr(r.parent.child(r.index()), "text", None)
    if t is None:
        return True     # an offset into a non-text child: the resolve oracles report that, not this helper
    b = t.encode("utf-16-le")
    u = int.from_bytes(b[2 * off:2 * off + 2], "little")
    return not (0xDC00 <= u < 0xE000)


def step_aligned(doc, step):
    """every position the step names lies inside `doc` and not inside a surrogate pair of one of its text nodes (a step
    made for one document and used on another one may cut anywhere; a cut inside a pair is outside every property's guard)"""
    size = doc.content.size
    for name in ("from_", "to", "gap_from", "gap_to", "pos"):
        p = getattr(step, name, None)
        if isinstance(p, int) and (p < 0 or p > size or not pair_aligned(doc, p)):
            return False
    return True


def aligned_positions(doc):
    return [p for p in positions(doc) if pair_aligned(doc, p)]


def random_range(rng, doc, aligned=True):
    ps = aligned_positions(doc) if aligned else list(positions(doc))
    a, b = rng.choice(ps), rng.choice(ps)
    if rng.random() < 0.5:
        # a nearby end keeps ranges small
        cands = [p for p in ps if a <= p <= a + 6]
        b = rng.choice(cands)
    return (a, b) if a <= b else (b, a)


def position_depths(doc):
    """nesting depth at every position 0..content.size (a walk over the tree)"""
    out = [0]

    def walk(node, depth):
        for i in range(node.child_count):
            c = node.child(i)
            if c.is_text:
                out.extend([depth] * c.node_size)
            elif c.is_leaf:
                out.append(depth)
            else:
                out.append(depth + 1)
                walk(c, depth + 1)
                out.append(depth)
    walk(doc, 0)
    return out


def fitting_range(rng, al, depths, sl):
    """a range whose two ends lie as deep as the open sides of the slice ask for (depth(from) - open_start ==
    depth(to) - open_end >= 0): the places where a slice of these open depths can go at all — half of the time one whose ends
    lie in different subtrees below the level the slice is inserted at (the replace has to join nodes around the slice), if
    there is one.  `al`: the pair-aligned positions of the document; None if there is no such range"""
    by_depth = {}
    for p in al:
        by_depth.setdefault(depths[p], []).append(p)
    starts = [p for p in al if depths[p] >= sl.open_start and (depths[p] - sl.open_start + sl.open_end) in by_depth]
    rng.shuffle(starts)
    want_cross = rng.random() < 0.5
    fallback = None
    for f in starts[:6]:
        ends = [p for p in by_depth[depths[f] - sl.open_start + sl.open_end] if p >= f]
        if not ends:
            continue
        if want_cross:
            level = depths[f] - sl.open_start
            cross, low, last = [], depths[f], f
            for p in ends:
                low = min([low] + depths[last:p + 1])
                last = p
                if low < level:
                    cross.append(p)
            if cross:
                return f, rng.choice(cross)
            fallback = fallback or (f, rng.choice(ends))
            continue
        near = [p for p in ends if p <= f + 8]
        return f, rng.choice(near if near and rng.random() < 0.4 else ends)
    return fallback


def random_slice(rng, docs):
    """a slice cut from one of docs (every open depth occurs), sometimes closed / empty"""
    d = rng.choice(docs)
    r = rng.random()
    if r < 0.08:
        return Slice.empty
    if r < 0.11:
        # a slice of size 0 that is not the empty slice: an empty node open on both sides
        types = [t for t in d.type.schema.nodes.values() if not t.is_leaf and not t.is_text and not t.has_required_attrs()]
        if types:
            t = rng.choice(types)
            return Slice(Fragment.from_(Node(t, gen_attrs(rng, t), Fragment.empty, [])), 1, 1)
    f, t = random_range(rng, d)
    if r > 0.88:
        # aimed: the cut starts at the very end (or ends at the very start) of a nested node's content, so that the slice's
        # first (last) child is an *empty* open node with siblings beside it
        al = aligned_positions(d)
        ends, starts = [], []
        for p in al:
            try:
                rp = d.resolve(p)
            except Exception:  # noqa: BLE001
                continue
            if rp.depth >= 2 and p == rp.end(rp.depth) and not rp.parent.inline_content:
                ends.append(p)
            if rp.depth >= 2 and p == rp.start(rp.depth) and not rp.parent.inline_content:
                starts.append(p)
        if ends and rng.random() < 0.6:
            f = rng.choice(ends)
            later = [p for p in al if p > f]
            t = rng.choice(later) if later else f
        elif starts:
            t = rng.choice(starts)
            earlier = [p for p in al if p < t]
            f = rng.choice(earlier) if earlier else t
    try:
        # sometimes with the parent nodes kept, as a clipboard slice would be (deeper open sides)
        s = d.slice(f, t, True) if (r > 0.8 and f < t and rng.random() < 0.5) else d.slice(f, t)
    except Exception:  # noqa: BLE001
        return Slice.empty
    if r < 0.25 and s.content.size and (s.open_start or s.open_end):
        # closed version of the same content, when every node of it is valid on its own
        try:
            for c in s.content.content:
                c.check()
            return Slice(s.content, 0, 0)
        except Exception:  # noqa: BLE001
            return s
    return s


def gen_step(rng, info, doc, docs, malformed=False):
    """a step of a random kind whose positions lie inside doc (mostly)"""
    schema = info.schema
    size = doc.content.size
    kind = rng.choice(["replace", "replace", "replace", "around", "around", "addMark", "removeMark",
                       "addNodeMark", "removeNodeMark", "attr", "docAttr"])
    f, t = random_range(rng, doc)
    if malformed and rng.random() < 0.5:
        f, t = rng.randint(-2, size + 3), rng.randint(-2, size + 3)
    if kind == "replace":
        sl = random_slice(rng, docs)
        return ReplaceStep(f, t, sl, rng.random() < 0.15)
    if kind == "around":
        return gen_around(rng, info, doc, f, t, docs)
    if kind in ("addMark", "removeMark"):
        m = gen_mark(rng, schema)
        if m is None:
            return ReplaceStep(f, t, Slice.empty)
        return AddMarkStep(f, t, m) if kind == "addMark" else RemoveMarkStep(f, t, m)
    if kind in ("addNodeMark", "removeNodeMark"):
        m = gen_mark(rng, schema)
        if m is None:
            return ReplaceStep(f, t, Slice.empty)
        pos = node_pos(rng, doc)
        if rng.random() < 0.6:
            # aimed: a node that carries marks, and a mark that displaces / equals one of them
            best = None
            for _ in range(12):
                p2, m2 = node_pos(rng, doc), gen_mark(rng, schema)
                n2 = safe_node_at(doc, p2)
                if n2 is None or not n2.marks:
                    continue
                if rng.random() < 0.3:
                    m2 = rng.choice(n2.marks)
                new = m2.add_to_set(n2.marks)
                gone = [x for x in n2.marks if not x.is_in_set(new)]
                # prefer exactly one displaced mark of another type that excludes the new one in return
                score = 0 if len(gone) != 1 else (2 if gone[0].type is not m2.type and gone[0].type.excludes(m2.type) else 1)
                if best is None or score > best[2]:
                    best = (p2, m2, score)
            if best is not None:
                pos, m = best[0], best[1]
        return AddNodeMarkStep(pos, m) if kind == "addNodeMark" else RemoveNodeMarkStep(pos, m)
    if kind == "attr":
        pos = node_pos(rng, doc)
        n = safe_node_at(doc, pos)
        names = list(n.type.attrs.keys()) if n is not None else []
        name = rng.choice(names) if names and rng.random() < 0.85 else "nosuch"
        return AttrStep(pos, name, gen_attr_value(rng, name))
    names = list(doc.type.attrs.keys())
    name = rng.choice(names) if names and rng.random() < 0.85 else "nosuch"
    return DocAttrStep(name, gen_attr_value(rng, name))


def safe_node_at(doc, pos):
    try:
        return doc.node_at(pos)
    except Exception:  # noqa: BLE001
        return None


def node_starts(doc):
    out = []

    def f(node, pos, parent, i):
        out.append(pos)
        return True
    doc.descendants(f)
    return out


def node_pos(rng, doc):
    starts = node_starts(doc)
    if starts and rng.random() < 0.9:
        return rng.choice(starts)
    return rng.randint(0, max(0, doc.content.size))


def wrappable_ranges(doc):
    """(start, end, depth) of runs of sibling nodes (block ranges)"""
    out = []

    def walk(node, start, depth):
        pos = start
        n = node.child_count
        offs = []
        for i in range(n):
            offs.append(pos)
            pos += node.child(i).node_size
        offs.append(pos)
        for i in range(n):
            for j in range(i + 1, min(n, i + 3) + 1):
                out.append((offs[i], offs[j], depth))
            c = node.child(i)
            if not c.is_leaf and not c.is_text:
                walk(c, offs[i] + 1, depth + 1)
    walk(doc, 0, 0)
    return out


def gen_marky_doc(rng, schema):
    """a document whose textblocks are runs of short text segments carrying varied mark sets, biased towards
    non-inclusive marks (so that boundaries where several marks start / end at once are common); None if the
    schema has no marks or no textblock the top node can hold directly"""
    if not schema.marks:
        return None
    blocks = [t for t in schema.nodes.values() if t.is_textblock and not t.has_required_attrs()
              and schema.top_node_type.content_match.match_type(t) is not None]
    if not blocks:
        return None
    non_incl = [t for t in schema.marks.values() if t.spec.get("inclusive") is False]
    out = []
    for _ in range(rng.randint(1, 3)):
        bt = rng.choice(blocks)
        allowed = [t for t in schema.marks.values() if bt.allows_mark_type(t)]
        pool = [t for t in non_incl if t in allowed] * 3 + allowed
        kids = []
        if pool and bt.content_match.match_type(schema.nodes["text"]) is not None:
            for _k in range(rng.randint(2, 6)):
                ms = Mark.none
                for _m in range(rng.choice([0, 1, 2, 2, 3])):
                    t = rng.choice(pool)
                    ms = Mark(t, gen_attrs(rng, t)).add_to_set(ms)
                kids.append(schema.text(gen_text(rng, 1, 3), ms))
        try:
            out.append(bt.create_checked(None, Fragment.from_array(kids)))
        except Exception:  # noqa: BLE001
            return None
    try:
        d = schema.top_node_type.create_checked(None, Fragment.from_array(out))
        d.check()
        return d
    except Exception:  # noqa: BLE001
        return None


def gen_exclusion_case(rng, schema):
    """(doc, from, to, mark M): a range in which inline nodes carrying a mark X that M excludes alternate with nodes
    that carry X but cannot take M — because they also carry a mark that excludes M while M does not exclude it,
    or because their textblock does not allow M.  None when the schema has no such constellation."""
    mts = list(schema.marks.values())
    rng.shuffle(mts)
    text_t = schema.nodes.get("text")
    if text_t is None:
        return None
    top = schema.top_node_type
    blocks = [t for t in schema.nodes.values() if t.is_textblock and not t.has_required_attrs()
              and t.content_match.match_type(text_t) is not None and top.content_match.match_type(t) is not None]
    for m_t in mts:
        xs = [x for x in mts if x is not m_t and m_t.excludes(x)]
        if not xs:
            continue
        x_t = rng.choice(xs)
        blockers = [b for b in mts if b is not m_t and b is not x_t and b.excludes(m_t) and not m_t.excludes(b)
                    and not b.excludes(x_t) and not x_t.excludes(b)]
        ok_blocks = [t for t in blocks if t.allows_mark_type(m_t) and t.allows_mark_type(x_t)]
        no_m_blocks = [t for t in blocks if not t.allows_mark_type(m_t) and t.allows_mark_type(x_t)]
        M, X = Mark(m_t, gen_attrs(rng, m_t)), Mark(x_t, gen_attrs(rng, x_t))
        try:
            if blockers and ok_blocks and rng.random() < 0.6:
                bt = rng.choice([t for t in ok_blocks if all(t.allows_mark_type(b) for b in blockers)] or ok_blocks)
                B = Mark(rng.choice(blockers), {})
                B = Mark(B.type, gen_attrs(rng, B.type))
                segs = []
                for i in range(rng.randint(3, 5)):
                    ms = X.add_to_set(Mark.none)
                    if i % 2 == 1:
                        ms = B.add_to_set(ms)
                    segs.append(schema.text(gen_text(rng, 1, 2, plain=True), ms))
                doc = top.create_checked(None, Fragment.from_array([bt.create_checked(None, Fragment.from_array(segs))]))
            elif no_m_blocks and ok_blocks:
                kids = []
                for i in range(rng.randint(3, 4)):
                    bt = rng.choice(no_m_blocks if i % 2 == 1 else ok_blocks)
                    kids.append(bt.create_checked(None, Fragment.from_array([schema.text(gen_text(rng, 1, 3, plain=True), [X])])))
                doc = top.create_checked(None, Fragment.from_array(kids))
            else:
                continue
            doc.check()
        except Exception:  # noqa: BLE001
            continue
        size = doc.content.size
        f = rng.choice([0, 1, 1])
        return doc, f, size - rng.choice([0, 1, 1]), M
    return None


def gen_blocked_behind_case(rng, schema):
    """(doc, from, to, mark M): text runs that carry a mark B which excludes M (while M does not exclude B) *and* an
    unrelated mark Z whose rank lies between M's and B's — so that, walking the set in rank order, M's place is found
    (before Z) before the blocker B is reached — alternating with runs that carry Z alone.  The mark sets are built in rank
    order by hand, not with add_to_set.  None when the schema has no such constellation."""
    mts = list(schema.marks.values())
    text_t = schema.nodes.get("text")
    if text_t is None:
        return None
    top = schema.top_node_type
    blocks = [t for t in schema.nodes.values() if t.is_textblock and not t.has_required_attrs()
              and t.content_match.match_type(text_t) is not None and top.content_match.match_type(t) is not None]
    triples = []
    for m_t in mts:
        for b_t in mts:
            if b_t is m_t or not b_t.excludes(m_t) or m_t.excludes(b_t) or b_t.rank < m_t.rank:
                continue
            for z_t in mts:
                if z_t is m_t or z_t is b_t or not (m_t.rank < z_t.rank < b_t.rank):
                    continue
                if any(a.excludes(b) for a, b in ((z_t, m_t), (m_t, z_t), (z_t, b_t), (b_t, z_t))):
                    continue
                triples.append((m_t, z_t, b_t))
    rng.shuffle(triples)
    for m_t, z_t, b_t in triples:
        bts = [t for t in blocks if all(t.allows_mark_type(x) for x in (m_t, z_t, b_t))]
        if not bts:
            continue
        bt = rng.choice(bts)
        M, Z, B = (Mark(x, gen_attrs(rng, x)) for x in (m_t, z_t, b_t))
        try:
            segs = []
            for i in range(rng.randint(3, 5)):
                ms = [Z, B] if i % 2 == 0 else [Z]
                segs.append(schema.text(gen_text(rng, 1, 2, plain=True), ms))
            doc = top.create_checked(None, Fragment.from_array([bt.create_checked(None, Fragment.from_array(segs))]))
            doc.check()
        except Exception:  # noqa: BLE001
            continue
        size = doc.content.size
        return doc, rng.choice([0, 1, 1]), size - rng.choice([0, 1, 1]), M
    return None


def multi_text_insert(rng, schema, doc):
    """(pos, [text, text, text, ...]): a position where text is allowed and a list of 3-4 adjacent text nodes with equal
    marks (what `Transform.insert(pos, [nodes])` / `Fragment.from_array` have to join into one node); None if there is
    no such position"""
    text_t = schema.nodes.get("text")
    if text_t is None:
        return None
    cands = []
    for p in range(doc.content.size + 1):
        try:
            r = doc.resolve(p)
        except Exception:  # noqa: BLE001
            continue
        if r.parent.inline_content and r.parent.type.content_match.match_type(text_t) is not None or \
                (r.parent.is_textblock and r.text_offset > 0):
            cands.append((p, r))
    if not cands:
        return None
    p, r = rng.choice(cands)
    try:
        marks = [m for m in r.marks() if r.parent.type.allows_mark_type(m.type)]
    except Exception:  # noqa: BLE001
        marks = []
    nodes = [schema.text(gen_text(rng, 1, 3, plain=True), marks) for _ in range(rng.randint(3, 4))]
    return p, nodes


def end_of_node_slice(rng, docs):
    """a slice cut so that its first child is an *empty* open node with siblings beside it (the cut starts at the very end
    of a nested node's content and ends two or more levels inside a later sibling), or the mirror image at its end; None
    if no document offers such a cut.  (`random_slice` takes this branch with a small probability; C11 wants it often.)"""
    for _ in range(12):
        d = rng.choice(docs)
        al = aligned_positions(d)
        ends, starts = [], []
        for p in al:
            try:
                rp = d.resolve(p)
            except Exception:  # noqa: BLE001
                continue
            if rp.depth >= 2 and not rp.parent.inline_content:
                if p == rp.end(rp.depth):
                    ends.append((p, rp))
                if p == rp.start(rp.depth):
                    starts.append((p, rp))
        try:
            if ends and rng.random() < 0.6:
                # prefer an end whose node has a following sibling, and a `to` deep inside that sibling
                sib = [(p, rp) for (p, rp) in ends if rp.index(rp.depth - 1) + 1 < rp.node(rp.depth - 1).child_count]
                f, rf = rng.choice(sib or ends)
                k = rf.depth
                nxt = rf.after(k)
                inside = []
                if sib:
                    size = rf.node(k - 1).child(rf.index(k - 1) + 1).node_size
                    inside = [p for p in al if nxt < p < nxt + size and d.resolve(p).depth >= k + 1]
                later = inside or [p for p in al if p > nxt and d.resolve(p).depth >= k] or [p for p in al if p > f]
                if not later:
                    continue
                return d.slice(f, rng.choice(later), rng.random() < 0.6)     # often with the parents kept (clipboard style)
            if starts:
                t, rt = rng.choice(starts)
                earlier = [p for p in al if p < rt.before(rt.depth) and d.resolve(p).depth >= rt.depth] or [p for p in al if p < t]
                if not earlier:
                    continue
                return d.slice(rng.choice(earlier), t, rng.random() < 0.6)
        except Exception:  # noqa: BLE001
            continue
    return None


def frag_boundaries(fragment):
    """positions in a fragment that are not inside text (between children, at content starts / ends)"""
    out = []

    def walk(frag, start):
        pos = start
        out.append(pos)
        for c in frag.content:
            if not c.is_text and not c.is_leaf:
                walk(c.content, pos + 1)
            pos += c.node_size
            out.append(pos)
    walk(fragment, 0)
    return sorted(set(out))


def gen_around(rng, info, doc, f, t, docs=None):
    """replace-around steps: wraps, unwraps (lifts), retypes; plausible-but-wrong variants included"""
    schema = info.schema
    r = rng.random()
    ranges = wrappable_ranges(doc)
    if ranges and r < 0.40:
        # wrap a sibling run in a random non-leaf type
        s, e, _ = rng.choice(ranges)
        types = [t_ for t_ in schema.nodes.values() if not t_.is_leaf and not t_.is_text]
        w = rng.choice(types)
        from .gen import gen_attrs as ga
        wn = Node(w, ga(rng, w), Fragment.empty, [])
        outer_ok = [t_ for t_ in types
                    if (lambda m: m is not None and m.valid_end)(t_.content_match.match_type(w))]
        if outer_ok and rng.random() < 0.3:
            # the payload itself must be schema-valid: the outer wrapper may hold the inner one as only child
            w2 = rng.choice(outer_ok)
            wn = Node(w2, ga(rng, w2), Fragment.from_(wn), [])
            return ReplaceAroundStep(s, e, s, e, Slice(Fragment.from_(wn), 0, 0), 2, rng.random() < 0.8)
        gs, ge = s, e
        if rng.random() < 0.12:
            # plausible but wrong: the gap is cut at a different depth on one side (not a flat range)
            k = rng.choice([1, 1, 2])
            if rng.random() < 0.5:
                ge = max(gs, e - k)
            else:
                gs = min(ge, s + k)
        return ReplaceAroundStep(s, e, gs, ge, Slice(Fragment.from_(wn), 0, 0), 1, rng.random() < 0.8)
    if ranges and r < 0.62:
        # unwrap: drop the open/close token around a sibling run that fills its parent
        cands = [(s, e, d) for (s, e, d) in ranges if d >= 1]
        if cands:
            s, e, _ = rng.choice(cands)
            return ReplaceAroundStep(max(0, s - 1), min(doc.content.size, e + 1), s, e, Slice.empty, 0, rng.random() < 0.8)
    if ranges and r < 0.76:
        # retype a node: replace its open/close tokens (set_node_markup shape)
        starts = [p for p in node_starts(doc)]
        rng.shuffle(starts)
        for p in starts:
            n = safe_node_at(doc, p)
            if n is not None and not n.is_leaf and not n.is_text:
                types = [t_ for t_ in schema.nodes.values() if not t_.is_leaf and not t_.is_text]
                w = rng.choice(types)
                wn = Node(w, gen_attrs(rng, w), Fragment.empty, n.marks if rng.random() < 0.5 else [])
                return ReplaceAroundStep(p, p + n.node_size, p + 1, p + n.node_size - 1,
                                         Slice(Fragment.from_(wn), 0, 0), 1, True)
    if ranges and r < 0.84:
        # wrap a sibling run in a closed node X while also re-creating the open token of the following sibling
        # (slice [X, N'] open at the end) or the close token of the preceding one (slice [P', X] open at the start):
        # the gap lands in a *closed, non-last / non-first* child of a slice that is open on that side
        types = [t_ for t_ in schema.nodes.values() if not t_.is_leaf and not t_.is_text]
        rng.shuffle(ranges)
        for s, e, _ in ranges[:12]:
            nxt, prv = safe_node_at(doc, e), None
            try:
                prv = doc.resolve(s).node_before
            except Exception:  # noqa: BLE001
                prv = None
            w = rng.choice(types)
            wn = Node(w, gen_attrs(rng, w), Fragment.empty, [])
            if nxt is not None and not nxt.is_leaf and not nxt.is_text and rng.random() < 0.6:
                nn = Node(nxt.type, nxt.attrs, Fragment.empty, nxt.marks)
                return ReplaceAroundStep(s, e + 1, s, e, Slice(Fragment.from_([wn, nn]), 0, 1), 1, rng.random() < 0.7)
            if prv is not None and not prv.is_leaf and not prv.is_text:
                pn = Node(prv.type, prv.attrs, Fragment.empty, prv.marks)
                return ReplaceAroundStep(s - 1, e, s, e, Slice(Fragment.from_([pn, wn]), 1, 0), pn.node_size, rng.random() < 0.7)
    if ranges and r < 0.92:
        # a sibling run dropped at an arbitrary position inside an arbitrary (multi-child, possibly open) slice
        s, e, _ = rng.choice(ranges)
        sl = random_slice(rng, docs) if docs else Slice.empty
        # `insert` counts from the slice's open start and must lie within its size
        bounds = [b - sl.open_start for b in frag_boundaries(sl.content) if sl.open_start <= b <= sl.content.size - sl.open_end]
        ins = rng.choice(bounds) if bounds and rng.random() < 0.85 else rng.randint(0, sl.size)
        lo = rng.choice([0, 0, 1, 2]) if sl.open_start == 0 else sl.open_start
        hi = rng.choice([0, 0, 1, 2]) if sl.open_end == 0 else sl.open_end
        return ReplaceAroundStep(max(0, s - lo), min(doc.content.size, e + hi), s, e, sl, ins, rng.random() < 0.6)
    if r < 0.955:
        # plausible but wrong: a gap that starts inside one node and ends inside a *sibling* of it at the same depth (both ends
        # equally deep, different parents) — not a flat range although the two open depths agree; with a wrapper of one or two
        # levels around it, or nothing
        al = aligned_positions(doc)
        pairs = []
        for _ in range(12):
            a, b = sorted((rng.choice(al), rng.choice(al)))
            try:
                ra, rb = doc.resolve(a), doc.resolve(b)
            except Exception:  # noqa: BLE001
                continue
            if a < b and ra.depth == rb.depth >= 1 and ra.start(ra.depth) != rb.start(rb.depth):
                pairs.append((a, b, ra, rb))
        if pairs:
            a, b, ra, rb = rng.choice(pairs)
            d0 = rng.randint(0, ra.depth - 1) if ra.depth > 1 else 0
            fo = ra.before(d0 + 1) if rng.random() < 0.7 else a
            to_ = rb.after(d0 + 1) if rng.random() < 0.7 else b
            types = [t_ for t_ in schema.nodes.values() if not t_.is_leaf and not t_.is_text]
            k = rng.choice([0, 1, 1, 2])
            wn, ins = None, 0
            for _ in range(k):
                w = rng.choice(types)
                wn = Node(w, gen_attrs(rng, w), Fragment.from_(wn) if wn is not None else Fragment.empty, [])
                ins += 1
            sl = Slice(Fragment.from_(wn), 0, 0) if wn is not None else Slice.empty
            return ReplaceAroundStep(fo, to_, a, b, sl, ins, rng.random() < 0.5)
    if r < 0.97:
        # an empty gap at the very end of the range with part of the slice after it (a wrapper around nothing)
        types = [t_ for t_ in schema.nodes.values() if not t_.is_leaf and not t_.is_text]
        w = rng.choice(types)
        wn = Node(w, gen_attrs(rng, w), Fragment.empty, [])
        return ReplaceAroundStep(f, t, t, t, Slice(Fragment.from_(wn), 0, 0), 1, rng.random() < 0.5)
    # arbitrary (pair-aligned) gap inside [f, t]
    inner = [p for p in aligned_positions(doc) if f <= p <= t] or [f]
    gf = rng.choice(inner)
    gt = rng.choice([p for p in inner if p >= gf])
    return ReplaceAroundStep(f, t, gf, gt, Slice.empty, 0, rng.random() < 0.5)


# ---------------------------------------------------------------------------------------------
# aimed shapes the random generators above (almost) never produce

def _spine_chain(node, last):
    """the chain node, its last (first) child, that child's last (first) child … as long as they are non-leaf, non-text"""
    out = []
    n = node
    while n is not None and not n.is_leaf and not n.is_text:
        out.append(n)
        n = n.last_child if last else n.first_child
    return out


def _nest(chain, inner):
    """empty copies (type, attributes, marks) of the nodes of `chain`, nested, the innermost one holding `inner`"""
    frag = inner
    for n in reversed(chain):
        frag = Fragment.from_(Node(n.type, n.attrs, frag, n.marks))
    return frag


def _edge_types(type_):
    """the node types that occur anywhere in type_'s content expression (the edges of its automaton)"""
    seen, todo, out = set(), [type_.content_match], []
    while todo:
        m = todo.pop()
        if id(m) in seen:
            continue
        seen.add(id(m))
        for e in m.next:
            if e.type not in out:
                out.append(e.type)
            todo.append(e.next)
    return out


def gen_two_sided_around(rng, info, doc):
    """a replace-around step whose slice has *two* top-level nodes and is open on *both* sides, each side one or more levels
    deep (the open depths differ as often as not), and whose gap lands in a wrapper X that is complete in the slice and sits
    *below* the top level, next to an open spine: X is the last child of the node at the bottom of the open-start spine
    (slice <P'(…(X)), N'(…)>(k, b)) or the first child of the node at the bottom of the open-end spine (<P'(…), N'(…(X))>).
    The open sides re-create the close tokens of the sibling run's preceding sibling and the open tokens of its following
    sibling, so the step is otherwise plausible; X is a random wrapper, so the run fits into it as often as not.  None when
    the document has no sibling run with non-leaf neighbours on both sides."""
    schema = info.schema
    cands = []

    def walk(node, start):
        n, pos, offs = node.child_count, start, []
        for i in range(n):
            offs.append(pos)
            pos += node.child(i).node_size
        offs.append(pos)
        for i in range(n):
            c = node.child(i)
            if c.is_leaf or c.is_text:
                continue
            # runs [i+1, j) with the non-leaf neighbours child(i) before and child(j) after
            for j in range(i + 2, min(n - 1, i + 4) + 1):
                nx = node.child(j)
                if not nx.is_leaf and not nx.is_text:
                    cands.append((offs[i + 1], offs[j], c, nx))
            walk(c, offs[i] + 1)
    walk(doc, 0)
    if not cands:
        return None
    deep = [c for c in cands if c[2].child_count and not c[2].last_child.is_leaf and not c[2].last_child.is_text
            or c[3].child_count and not c[3].first_child.is_leaf and not c[3].first_child.is_text]
    s, e, prv, nxt = rng.choice(deep if deep and rng.random() < 0.85 else cands)
    cp, cn = _spine_chain(prv, True), _spine_chain(nxt, False)
    if rng.random() < 0.75:
        # mostly stop the spines above the textblocks (a wrapper inside a textblock never fits)
        cp = [n for n in cp if not n.inline_content] or cp[:1]
        cn = [n for n in cn if not n.inline_content] or cn[:1]
    k, b = rng.randint(1, len(cp)), rng.randint(1, len(cn))
    if rng.random() < 0.6 and len(cp) != len(cn):
        # the far side deeper than the side that holds the wrapper
        k, b = (rng.randint(1, len(cp)), len(cn)) if len(cn) > len(cp) else (len(cp), rng.randint(1, len(cn)))
    types = [t_ for t_ in schema.nodes.values() if not t_.is_leaf and not t_.is_text]
    at_start = (k < b) if (k != b and rng.random() < 0.7) else rng.random() < 0.5
    holder = (cp[k - 1] if at_start else cn[b - 1]).type
    known = [t_ for t_ in types if t_ in _edge_types(holder)]
    w = rng.choice(known if known and rng.random() < 0.7 else types)
    x = Node(w, gen_attrs(rng, w), Fragment.empty, [])
    inner_pos = 1
    outer_ok = [t_ for t_ in types if (lambda m: m is not None and m.valid_end)(t_.content_match.match_type(w))]
    if outer_ok and rng.random() < 0.2:
        # two wrappers; the payload itself must be schema-valid: the outer one may hold the inner one as only child
        w2 = rng.choice(outer_ok)
        x = Node(w2, gen_attrs(rng, w2), Fragment.from_(x), [])
        inner_pos = 2
    if at_start:
        content = _nest(cp[:k], Fragment.from_(x)).append(_nest(cn[:b], Fragment.empty))
        insert = inner_pos                                   # (k + inner_pos) in content coordinates, minus the open start
    else:
        content = _nest(cp[:k], Fragment.empty).append(_nest(cn[:b], Fragment.from_(x)))
        insert = 2 * k + b + inner_pos - k
    f, t = s - k, e + b
    if rng.random() < 0.3:
        # also delete what lies in front of the cut in the node at the bottom of the from-side spine (after it on the to side)
        try:
            rf, rt = doc.resolve(f), doc.resolve(t)
            if rng.random() < 0.5 and rf.index() > 0:
                f = rf.pos_at_index(rng.randrange(rf.index()))
            elif rt.index() < rt.parent.child_count:
                t = rt.end()
        except Exception:  # noqa: BLE001
            pass
    return ReplaceAroundStep(f, t, s, e, Slice(content, k, b), insert, rng.random() < 0.5)


def inline_containers(schema):
    """inline node types that have content (footnote, mention, ruby …) and can be generated"""
    return [t for t in schema.nodes.values() if t.is_inline and not t.is_text and not t.is_leaf and not t.has_required_attrs()]


def gen_inline_container_case(rng, schema):
    """(doc, ranges, marks): a textblock holding one or two inline nodes *with content*, text inside and around them, all of
    it in runs carrying a common "theme" mark wherever the respective parent allows it (so marked text inside a container is
    directly preceded by the marked container itself and directly followed by marked text behind it) plus other marks at
    random.  `ranges`: ranges that cover a container completely (the whole textblock; from just before to just after the
    container), that start / end inside it, and that lie wholly inside it.  `marks`: the theme mark first, then marks the
    textblock allows and a container does not (and the other way round), then any others.  None when the schema has no
    inline node with content that some top-level textblock can hold."""
    text_t = schema.nodes.get("text")
    conts = inline_containers(schema)
    if text_t is None or not conts or not schema.marks:
        return None
    top = schema.top_node_type
    pairs = [(bt, c) for bt in schema.nodes.values() if bt.is_textblock and not bt.has_required_attrs()
             and top.content_match.match_type(bt) is not None for c in conts
             if bt.content_match.match_type(c) is not None and c.content_match.match_type(text_t) is not None]
    if not pairs:
        return None
    mts = list(schema.marks.values())
    for _ in range(8):
        bt, c = rng.choice(pairs)
        # the theme: preferably a mark both the block and the container allow
        both = [m for m in mts if bt.allows_mark_type(m) and c.allows_mark_type(m)]
        theme_t = rng.choice(both) if both and rng.random() < 0.8 else rng.choice(mts)
        theme = Mark(theme_t, gen_attrs(rng, theme_t))

        def marks_for(parent_t, p_theme=0.75):
            ms = []
            if parent_t.allows_mark_type(theme_t) and rng.random() < p_theme:
                ms = reference_add_to_set(theme, ms)
            if rng.random() < 0.3:
                names = [m.name for m in mts if parent_t.allows_mark_type(m)]
                if names:
                    ms = reference_add_to_set(gen_mark(rng, schema, names), ms)
            return ms

        kids, spans, pos = [], [], 1
        can_text = bt.content_match.match_type(text_t) is not None
        n_cont = rng.choice([1, 1, 2])
        for i in range(n_cont):
            if can_text and rng.random() < 0.8:
                tx = schema.text(gen_text(rng, 1, 3, plain=True), marks_for(bt))
                kids.append(tx)
                pos += tx.node_size
            inner = [schema.text(gen_text(rng, 1, 3, plain=True), marks_for(c, 0.85)) for _k in range(rng.choice([1, 1, 2]))]
            merged = []
            for k in inner:
                if merged and Mark.same_set(k.marks, merged[-1].marks):
                    merged[-1] = schema.text(merged[-1].text + k.text, merged[-1].marks)
                else:
                    merged.append(k)
            cn = Node(c, gen_attrs(rng, c), Fragment.from_array(merged), marks_for(bt, 0.85))
            kids.append(cn)
            spans.append((pos, pos + cn.node_size))
            pos += cn.node_size
        if can_text and rng.random() < 0.8:
            tx = schema.text(gen_text(rng, 1, 3, plain=True), marks_for(bt))
            kids.append(tx)
            pos += tx.node_size
        # the generator joins adjacent equal-marked texts itself (only containers separate them here, so none are adjacent)
        try:
            blocks = [Node(bt, gen_attrs(rng, bt), Fragment.from_array(kids), [])]
            if rng.random() < 0.3:
                blocks.append(Node(bt, gen_attrs(rng, bt), Fragment.from_array([schema.text("z", marks_for(bt))]) if can_text else Fragment.empty, []))
            doc = Node(top, {k_: a.default for k_, a in top.attrs.items()}, Fragment.from_array(blocks), [])
            doc.check()
        except Exception:  # noqa: BLE001
            continue
        end = pos                      # end of the first textblock's content
        ranges = [(1, end), (0, doc.content.size)]
        for (a, b) in spans:
            ranges += [(a, b), (max(1, a - 1), min(end, b + 1)), (1, b), (a, end),
                       (a + 1, b - 1), (max(1, a - 1), a + 2 if a + 2 < b else b - 1), (b - 2 if b - 2 > a else a + 1, min(end, b + 1))]
        ranges = [(a, b) for (a, b) in ranges if 0 <= a <= b <= doc.content.size]
        asym = [m for m in mts if bt.allows_mark_type(m) != c.allows_mark_type(m)]
        marks = [theme] + [Mark(m, gen_attrs(rng, m)) for m in asym] + [Mark(m, gen_attrs(rng, m)) for m in mts if m not in asym and m is not theme_t]
        return doc, ranges, marks
    return None


def gen_same_type_run_case(rng, schema):
    """(doc, from, to, fresh mark, marks present): a textblock in which two to four *adjacent* text nodes carry marks of the
    same type with different attributes (link a next to link b next to link c), sometimes next to other marks and plain
    neighbours; the range covers the run; `fresh` is one more mark of that type with attributes of its own.  None when no
    mark type of the schema has attributes or no top-level textblock allows it."""
    text_t = schema.nodes.get("text")
    if text_t is None:
        return None
    top = schema.top_node_type
    cands = [(mt, bt) for mt in schema.marks.values() if mt.attrs for bt in schema.nodes.values()
             if bt.is_textblock and not bt.has_required_attrs() and bt.allows_mark_type(mt)
             and bt.content_match.match_type(text_t) is not None and top.content_match.match_type(bt) is not None]
    if not cands:
        return None
    mt, bt = rng.choice(cands)
    an = list(mt.attrs)

    def with_attrs(i):
        at = {k: (a.default if a.has_default else 0) for k, a in mt.attrs.items()}
        at[an[0]] = "v%d" % i if an[0] not in ("level", "lvl", "order", "colspan", "n", "id", "k") else i
        return Mark(mt, at)
    others = [m for m in schema.marks.values() if m is not mt and bt.allows_mark_type(m)
              and not m.excludes(mt) and not mt.excludes(m) and not m.attrs]
    n = rng.choice([2, 2, 3, 4])
    segs, present = [], []
    if rng.random() < 0.6:
        segs.append(schema.text(gen_text(rng, 1, 3, plain=True), []))
    f = 1 + sum(x.node_size for x in segs)
    for i in range(n):
        mk = with_attrs(i + 1)
        present.append(mk)
        ms = [mk]
        if others and rng.random() < 0.3:
            ms = reference_add_to_set(Mark(rng.choice(others), {}), ms)
        segs.append(schema.text(gen_text(rng, 1, 3, plain=True), ms))
    t = 1 + sum(x.node_size for x in segs)
    if rng.random() < 0.6:
        segs.append(schema.text(gen_text(rng, 1, 3, plain=True), []))
    try:
        doc = Node(top, {k: a.default for k, a in top.attrs.items()},
                   Fragment.from_(Node(bt, gen_attrs(rng, bt), Fragment.from_array(segs), [])), [])
        doc.check()
    except Exception:  # noqa: BLE001
        return None
    if rng.random() < 0.3:
        f, t = max(1, f - 1), min(doc.content.size - 1, t + 1)
    return doc, f, t, with_attrs(n + 1), present


def gen_mark_boundary_doc(rng, schema):
    """a document in which a textblock A that restricts marks is directly followed (or preceded) by a textblock B whose
    content could continue A's by type and whose text carries a mark A forbids — the boundary between the two is a
    position at which "may these be joined" depends on marks alone.  Sometimes inside a container both fit in.  None when
    the schema has no such pair of textblocks."""
    text_t = schema.nodes.get("text")
    if text_t is None or not schema.marks:
        return None
    top = schema.top_node_type
    tbs = [t for t in schema.nodes.values() if t.is_textblock and not t.has_required_attrs()
           and t.content_match.match_type(text_t) is not None]
    triples = []
    for a in tbs:
        for b in tbs:
            for m in schema.marks.values():
                if b.allows_mark_type(m) and not a.allows_mark_type(m) and a.content_match.match_type(text_t) is not None:
                    triples.append((a, b, m))
    rng.shuffle(triples)
    for (a, b, m) in triples[:6]:
        mk = Mark(m, gen_attrs(rng, m))
        seg_b = [schema.text(gen_text(rng, 1, 3, plain=True), [mk])]
        r = rng.random()
        if r < 0.3:
            seg_b = [schema.text(gen_text(rng, 1, 2, plain=True), [])] + seg_b
        elif r < 0.5:
            seg_b = seg_b + [schema.text(gen_text(rng, 1, 2, plain=True), [])]
        na = Node(a, gen_attrs(rng, a), Fragment.from_array([schema.text(gen_text(rng, 1, 3, plain=True), [])]) if rng.random() < 0.8 else Fragment.empty, [])
        nb = Node(b, gen_attrs(rng, b), Fragment.from_array(seg_b), [])
        pair = [na, nb] if rng.random() < 0.75 else [nb, na]
        holders = [top] + [t for t in schema.nodes.values() if not t.is_leaf and not t.is_text and not t.inline_content
                           and t is not top and not t.has_required_attrs() and top.content_match.match_type(t) is not None]
        rng.shuffle(holders)
        for h in ([top] + holders if rng.random() < 0.6 else holders):
            try:
                extra = [Node(b, gen_attrs(rng, b), Fragment.from_array([schema.text("t", [])]), [])] if rng.random() < 0.4 else []
                kids = pair + extra if rng.random() < 0.5 else extra + pair
                if h is top:
                    doc = Node(top, {k: x.default for k, x in top.attrs.items()}, Fragment.from_array(kids), [])
                else:
                    doc = Node(top, {k: x.default for k, x in top.attrs.items()},
                               Fragment.from_(Node(h, gen_attrs(rng, h), Fragment.from_array(kids), [])), [])
                doc.check()
                return doc
            except Exception:  # noqa: BLE001
                continue
    return None
