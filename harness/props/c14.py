"""C14 — mark sets are canonical and respect the schema's exclusion and permission rules.

Tie: exact correspondence of Mark.add_to_set / remove_from_set / is_in_set / same_set / set_from,
NodeType.allowed_marks / allows_marks, MarkType.excludes / is_in_set / remove_from_set with
lean/PM/Marks.lean over random mark configurations and random add/remove sequences; and of the *construction* of the
schema (`Schema(spec)`: the `excluded` / `mark_set` tables and every other compiled field, or the kind of refusal) with
`compileSchema` of lean/PM/SchemaCompile.lean, on the generated configurations, their malformed variants and mutated ones.
Search: set-algebra reference (documented rule) against the real code.
"""
from prosemirror.model import Mark, Schema

import json
import random

from .. import core, gen, schemas
from ..codec import SchemaInfo
from ..core import outcome


def random_mark_schema(rng):
    n = rng.randint(1, 6)
    names = ["m%d" % i for i in range(n)]
    marks = {}
    for nm in names:
        spec = {}
        r = rng.random()
        if r < 0.15:
            spec["excludes"] = "_"
        elif r < 0.3:
            spec["excludes"] = ""
        elif r < 0.6:
            spec["excludes"] = " ".join(rng.sample(names, rng.randint(1, min(3, n))))
        elif r < 0.7:
            spec["excludes"] = rng.choice(["grp", "grp", "g2", "grp g2"])
        if rng.random() < 0.4:
            spec["group"] = rng.choice(["grp", "grp", "g2", "grp g2", "g2 grp", "xgrp", "g22"])     # several groups; names containing other names
        if rng.random() < 0.4:
            spec["attrs"] = {"k": {"default": 0}}
        marks[nm] = spec
    groups = {g for v in marks.values() for g in (v.get("group") or "").split(" ") if g}
    for v in marks.values():
        ex = v.get("excludes")
        if ex and ex not in ("_",) and not all(w in groups or w in marks for w in ex.split(" ")):
            v["excludes"] = " ".join(w for w in ex.split(" ") if w in groups or w in marks)     # may become "" (excludes nothing)
    nodes = {"doc": {"content": "p+"}, "text": {"group": "inline"}}
    for i in range(rng.randint(1, 3)):
        r = rng.random()
        spec = {"content": "text*"}
        if r < 0.3:
            spec["marks"] = "_"
        elif r < 0.5:
            spec["marks"] = ""
        elif r < 0.75:
            spec["marks"] = " ".join(rng.sample(names, rng.randint(1, n)))
        elif r < 0.9 and groups:
            spec["marks"] = " ".join(rng.sample(sorted(groups), rng.randint(1, len(groups))) + ([rng.choice(names)] if rng.random() < 0.5 else []))
        nodes["p%d" % i if i else "p"] = spec
    spec = {"nodes": nodes, "marks": marks}
    st, sc = outcome(lambda: Schema({"nodes": {k: dict(v) for k, v in nodes.items()}, "marks": {k: dict(v) for k, v in marks.items()}}))
    if st != "ok":
        return ("rejected", spec, str(sc))
    return SchemaInfo(sc, "marks-random")


def rand_mark(rng, schema):
    t = schema.marks[rng.choice(list(schema.marks))]
    attrs = {k: rng.randint(0, 2) for k in t.attrs}
    return Mark(t, attrs)


def meq(a, b):
    """equality of two marks as the documentation defines it — same type, equal attributes — decided here, not by the
    library's own Mark.eq"""
    return a.type.name == b.type.name and json.dumps(a.attrs, sort_keys=True, default=str) == json.dumps(b.attrs, sort_keys=True, default=str)


def msame(xs, ys):
    return len(xs) == len(ys) and all(meq(a, b) for a, b in zip(xs, ys))


def canonical_violation(schema, ms):
    """None if ms is sorted by rank, has no two equal marks and no mark excluding another"""
    for a, b in zip(ms, ms[1:]):
        if a.type.rank > b.type.rank:
            return "not ordered by the schema's mark order"
    for i, a in enumerate(ms):
        for j, b in enumerate(ms):
            if i != j and meq(a, b):
                return "two equal marks"
            if i != j and a.type.excludes(b.type):
                return "contains a mark together with one it excludes"
    return None


def run(ctx):
    core.lean_phase(ctx)
    rng = ctx.rng
    reqs, metas = [], []

    def flush():
        outs = ctx.driver.run(reqs) if reqs else []
        for req, meta, out in zip(reqs, metas, outs):
            ctx.count("model_requests")
            if out.get("ok", out) != meta[3]:
                ctx.mismatch(meta[0], {"request": req, "context": meta[2]}, meta[3], out)
        del reqs[:], metas[:]

    rng2 = random.Random(ctx.seed * 7919 + 14)     # the construction tie draws from its own stream

    def tie_compile(spec, compiled, tag, labels=()):
        """`Schema(spec)` against `compileSchema`: the whole compiled table (SchemaInfo.dump(), every field) or the refusal"""
        t = schemas.compile_tie(spec, compiled)
        if t is None:
            ctx.count("compile:skipped-unparsable-content")
            return
        req, exp, kind = t
        ctx.count("compile:" + tag + ":" + kind)
        for lb in labels:
            ctx.count("compile-corner:" + lb + ":" + ("ok" if kind == "ok" else "refused"))
        if kind == "ok":
            if any(len(set(m["excluded"])) < len(m["excluded"]) for m in exp["marks"]):
                ctx.count("compile-corner:duplicate-in-excluded")
            if any(n["markSet"] is not None and len(set(n["markSet"])) < len(n["markSet"]) for n in exp["nodes"]):
                ctx.count("compile-corner:duplicate-in-mark_set")
        reqs.append(req)
        metas.append(("compileSchema", None, {"spec": json.loads(json.dumps(spec, default=str)), "tag": tag}, exp))

    def tie_build(spec, compiled, tag):
        """the same spec through `buildSchema` (lean/PM/SchemaBuild.lean): no automata handed over, the model compiles them"""
        t = schemas.build_tie(spec, compiled)
        if t is None:
            ctx.count("build:python-recursion-limit")
            return
        req, exp, kind = t
        ctx.count("build:" + tag + ":" + kind)
        reqs.append(req)
        metas.append(("buildSchema", None, {"spec": json.loads(json.dumps(spec, default=str)), "tag": tag}, exp))

    # `str.split(" ")` as the model reads it
    for _ in range(ctx.budget(40, 200)):
        w = "".join(rng2.choice(" ab_ ") for _ in range(rng2.randint(0, 7)))
        reqs.append({"op": "pySplit", "s": w})
        metas.append(("pySplit", None, w, w.split(" ")))

    n_schemas = ctx.budget(60, 600)
    for si in range(n_schemas):
        if len(reqs) >= 15000:
            flush()     # keep memory bounded in long runs
        if ctx.time_left(60, 600) < 0:
            break
        info = random_mark_schema(rng)
        if isinstance(info, tuple):
            # every name in an `excludes` / `marks` expression of the generated configuration is a declared mark or group
            ctx.violation("schema-rejected", f"Schema() rejected a well-formed mark configuration: {info[2]}", {"spec": info[1]})
            continue
        schema = info.schema
        ctx.driver.add_schema(info)
        sid = info.lean_id
        ctx.count("schemas")
        tie_compile(schema.spec, schema, "generated")
        tie_build(schema.spec, schema, "generated")
        # the same configuration made ill-formed in one place must be refused when the schema is built: an `excludes` or a
        # node `marks` expression naming something that is neither a mark nor a group, or one name used for a node and a mark
        bad_spec = json.loads(json.dumps(schema.spec, default=str))
        kind = rng.choice(["excludes", "marks", "clash"])
        if kind == "excludes":
            bad_spec["marks"][rng.choice(sorted(bad_spec["marks"]))]["excludes"] = "nosuchmark"
        elif kind == "marks":
            bad_spec["nodes"]["p"]["marks"] = "m0 nosuchmark"
        else:
            bad_spec["marks"]["p"] = {}
        stb, scb = outcome(lambda: Schema(bad_spec))
        ctx.count("malformed:" + kind + ":" + ("accepted" if stb == "ok" else "rejected"))
        tie_compile(bad_spec, None, "malformed-" + kind)
        tie_build(bad_spec, None, "malformed-" + kind)
        for _ in range(2):
            mspec, labels = schemas.mutate_spec(rng2, schema.spec)
            tie_compile(mspec, None, "mutated", labels)
            tie_build(mspec, None, "mutated")
        if stb in ("ok", "hang"):
            ctx.violation("malformed-accepted", f"Schema() accepted an ill-formed mark configuration ({kind})", {"spec": bad_spec, "malformed": kind})
        # exclusion relation
        for a in schema.marks.values():
            for b in schema.marks.values():
                reqs.append({"op": "excludes", "s": sid, "a": info.mid[a.name], "b": info.mid[b.name]})
                metas.append(("excludes", info, None, bool(a.excludes(b))))
                ex = a.spec.get("excludes")
                want = (a is b) if ex is None else (False if ex == "" else (
                    "_" in ex.split(" ") or b.name in ex.split(" ")
                    or any(g in ex.split(" ") for g in (b.spec.get("group") or "").split(" ") if g)))
                if bool(a.excludes(b)) != want:
                    ctx.violation("excludes", "MarkType.excludes disagrees with the declared exclusion",
                                  {"marks": {k: {kk: vv for kk, vv in v.spec.items()} for k, v in schema.marks.items()},
                                   "a": a.name, "b": b.name, "got": bool(a.excludes(b)), "expected": want})
        for seq in range(ctx.budget(12, 30)):
            ref = []          # reference set (documented rule)
            cur = Mark.none   # set as computed by the real code
            for step in range(rng.randint(1, 9)):
                m = rand_mark(rng, schema)
                removing = rng.random() < 0.25
                base_ref = list(ref)
                if removing:
                    st, new = outcome(lambda: m.remove_from_set(list(base_ref)))
                    exp = [o for o in base_ref if not meq(o, m)]
                    op = "removeFromSet"
                else:
                    st, new = outcome(lambda: m.add_to_set(list(base_ref)))
                    exp = gen.reference_add_to_set(m, base_ref)
                    op = "addToSet"
                ctx.case([op, si, info.mark(m), info.marks(base_ref)], nontrivial=len(base_ref) > 0,
                         sample={"op": op, "marks": {k: dict(v.spec) for k, v in schema.marks.items()},
                                 "mark": info.mark(m), "set": info.marks(base_ref)})
                ctx.count(op)
                ctx.count("set_len_%d" % min(len(base_ref), 4))
                replay = {"marks": {k: {kk: vv for kk, vv in v.spec.items()} for k, v in schema.marks.items()},
                          "op": op, "mark": [m.type.name, dict(m.attrs)],
                          "set": [[o.type.name, dict(o.attrs)] for o in base_ref]}
                if st != "ok":
                    ctx.violation(op + "-raises", f"{op} raised {new}", replay)
                    ref = exp
                    continue
                if not msame(list(new), list(exp)):
                    replay["got"] = [[o.type.name, dict(o.attrs)] for o in new]
                    replay["expected"] = [[o.type.name, dict(o.attrs)] for o in exp]
                    ctx.violation(op, f"{op} does not follow the documented rule", replay)
                bad = canonical_violation(schema, new)
                if bad:
                    replay["got"] = [[o.type.name, dict(o.attrs)] for o in new]
                    ctx.violation("canonical", "reachable mark set is not canonical: " + bad, replay)
                reqs.append({"op": op, "s": sid, "mark": info.mark(m), "set": info.marks(base_ref)})
                metas.append((op, info, replay, info.marks(new)))
                # membership / equality / type-level operations on the reference set
                isin = m.is_in_set(base_ref)
                if bool(isin) != any(meq(o, m) for o in base_ref):
                    ctx.violation("is_in_set", "is_in_set is not membership", replay)
                reqs.append({"op": "isInSet", "mark": info.mark(m), "set": info.marks(base_ref)})
                metas.append(("isInSet", info, replay, bool(isin)))
                other = list(base_ref)
                if other and rng.random() < 0.5:
                    other = other[:-1] if rng.random() < 0.5 else list(reversed(other))
                same = Mark.same_set(base_ref, other)
                want_same = msame(base_ref, other)
                if bool(same) != want_same:
                    ctx.violation("same_set", "same_set is not element-wise equality", replay)
                for o in base_ref[:2]:
                    if bool(o.eq(m)) != meq(o, m):
                        ctx.violation("eq", "Mark.eq is not 'same type and equal attributes'", dict(replay, other=[o.type.name, dict(o.attrs)]))
                reqs.append({"op": "sameSet", "a": info.marks(base_ref), "b": info.marks(other)})
                metas.append(("sameSet", info, replay, bool(same)))
                t = m.type
                got_rm = t.remove_from_set(list(base_ref))
                got_in = t.is_in_set(list(base_ref))
                if [id(x) for x in got_rm] != [id(o) for o in base_ref if o.type is not t] or \
                        got_in is not next((o for o in base_ref if o.type is t), None):
                    ctx.violation("marktype-ops", "MarkType.remove_from_set / is_in_set wrong", replay)
                reqs.append({"op": "markTypeOps", "ty": info.mid[t.name], "set": info.marks(base_ref)})
                metas.append(("markTypeOps", info, replay, [info.marks(got_rm), info.mark(got_in) if got_in else None]))
                # set_from on a shuffled copy
                sh = list(base_ref)
                rng.shuffle(sh)
                sf = Mark.set_from(sh)
                if sorted(id(x) for x in sf) != sorted(id(x) for x in sh) or any(
                        a.type.rank > b.type.rank for a, b in zip(sf, sf[1:])):
                    ctx.violation("set_from", "set_from is not a rank-sorted permutation", replay)
                reqs.append({"op": "setFrom", "set": info.marks(sh)})
                metas.append(("setFrom", info, replay, info.marks(sf)))
                # the two other accepted argument forms: a single mark, and nothing
                if base_ref:
                    one = rng.choice(base_ref)
                    st1, sf1 = outcome(lambda: Mark.set_from(one))
                    if st1 != "ok" or len(sf1) != 1 or sf1[0] is not one:
                        ctx.violation("set_from", "set_from(mark) is not the one-element set of that mark", dict(replay, single=one.to_json()))
                    ctx.count("set_from:single")
                st0, sf0 = outcome(lambda: (Mark.set_from(None), Mark.set_from([])))
                if st0 != "ok" or list(sf0[0]) != [] or list(sf0[1]) != []:
                    ctx.violation("set_from", "set_from(None) / set_from([]) is not the empty set", replay)
                # permission filtering for every node type
                for nt in schema.nodes.values():
                    stf, filt = outcome(lambda: nt.allowed_marks(list(base_ref)))
                    # allowed types re-derived from the node's declared `marks` expression (names and group names; "_" = all;
                    # absent = all for nodes with inline content, none otherwise), not from the library's mark_set
                    decl = nt.spec.get("marks")
                    if decl is None:
                        ok_names = set(schema.marks) if nt.inline_content else set()
                    elif decl == "_":
                        ok_names = set(schema.marks)
                    else:
                        words = [w for w in decl.split(" ") if w]
                        ok_names = {k for k, t in schema.marks.items()
                                    if k in words or any(g in words for g in (t.spec.get("group") or "").split(" ") if g)}
                    want = [o for o in base_ref if o.type.name in ok_names]
                    allows = nt.allows_marks(list(base_ref))
                    if stf != "ok" or [id(x) for x in filt] != [id(x) for x in want] or bool(allows) != (len(want) == len(base_ref)):
                        r2 = dict(replay)
                        r2.update({"node_type": nt.name, "node_marks": nt.spec.get("marks"),
                                   "got": [[o.type.name, dict(o.attrs)] for o in filt] if stf == "ok" else str(filt),
                                   "expected": [[o.type.name, dict(o.attrs)] for o in want]})
                        ctx.violation("allowed_marks", "allowed_marks/allows_marks do not keep exactly the allowed marks, in order", r2)
                    if stf == "ok":
                        reqs.append({"op": "allowedMarks", "s": sid, "ty": info.nid[nt.name], "set": info.marks(base_ref)})
                        metas.append(("allowedMarks", info, replay, [info.marks(filt), bool(allows)]))
                    ctx.count("allowed_marks")
                ref = exp
    flush()
    return ctx.finish(
        rule="a case is (random mark configuration incl. '_', empty, named and group exclusions; a set reached by a "
             "random add/remove sequence; a mark) for add_to_set / remove_from_set and the derived queries; "
             "distinct by content; non-trivial = non-empty set")


if __name__ == "__main__":
    core.main("C14", run)
