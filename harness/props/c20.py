"""C20 — document diffing terminates and reports the true first and last difference.

Tie: exact correspondence of Fragment.find_diff_start / find_diff_end with lean/PM/Diff.lean, on
independently built pairs and on (before, after) pairs of edits, which share children by identity.
Search: longest common prefix / suffix of the marked-up token sequences computed from to_json().
Every call runs under an alarm: a hang is a violation with the pair as replay.
"""
import json

from prosemirror.model import Fragment, Node
from prosemirror.transform import Transform

from .. import core, gen, schemas
from ..codec import jval, units
from ..core import outcome


def mtoks(schema, jnodes, out):
    for c in jnodes or []:
        mk = tuple((m["type"], jval(m.get("attrs"))) for m in (c.get("marks") or []))
        if c["type"] == "text":
            for u in units(c["text"]):
                out.append(("u", u, mk))
            continue
        t = schema.nodes[c["type"]]
        ak = jval(c.get("attrs"))
        if t.is_leaf:
            out.append(("leaf", c["type"], ak, mk))
        else:
            out.append(("op", c["type"], ak, mk))
            mtoks(schema, c.get("content"), out)
            out.append(("cl", c["type"], ak, mk))
    return out


def lcp(a, b):
    n = 0
    for x, y in zip(a, b):
        if x != y:
            break
        n += 1
    return n


def edits(rng, info, doc, docs):
    """documents obtained from doc by one random edit (sharing most nodes with it)"""
    out = []
    for _ in range(3):
        st = gen.gen_step(rng, info, doc, docs)
        o, res = outcome(lambda: st.apply(doc))
        if o == "ok" and res.doc is not None:
            out.append(res.doc)
    for _ in range(2):
        f, t = gen.random_range(rng, doc)
        o, tr = outcome(lambda: Transform(doc).delete(f, t) if rng.random() < 0.5
                        else Transform(doc).replace(f, t, gen.random_slice(rng, docs)))
        if o == "ok":
            out.append(tr.doc)
    return out


VARIANTS = [([], ["note"]), (["a"], ["a", "b"]), (["a", "b"], ["a"]), ({"k": [1]}, {"k": [1, 2]}), ({"k": 1}, {"k": 1, "z": 2}),
            (["a"], ["b"]), ([["x"]], [["x"], []]), ("s", ["s"]), (None, []), ([], [])]


def attr_variants(rng, schema, d):
    """two copies of a document that differ (or not) only in one structured attribute value of one node or mark:
    lists / dicts one of which is a proper prefix / sub-dict of the other"""
    ja = json.loads(json.dumps(d.to_json()))
    jb = json.loads(json.dumps(ja))
    spots = []

    def walk(x, y):
        for holder_x, holder_y in ((x, y),) if isinstance(x.get("attrs"), dict) and x["attrs"] else ():
            for k in holder_x["attrs"]:
                if k not in ("level", "lvl", "order", "colspan"):
                    spots.append((holder_x["attrs"], holder_y["attrs"], k))
        for mx, my in zip(x.get("marks") or [], y.get("marks") or []):
            for k in (mx.get("attrs") or {}):
                spots.append((mx["attrs"], my["attrs"], k))
        for cx, cy in zip(x.get("content") or [], y.get("content") or []):
            walk(cx, cy)
    walk(ja, jb)
    if not spots:
        return None
    ax, ay, k = rng.choice(spots)
    v1, v2 = rng.choice(VARIANTS)
    if rng.random() < 0.5:
        v1, v2 = v2, v1
    ax[k], ay[k] = json.loads(json.dumps(v1)), json.loads(json.dumps(v2))
    try:
        return Node.from_json(schema, ja), Node.from_json(schema, jb)
    except Exception:  # noqa: BLE001
        return None


def run(ctx):
    core.lean_phase(ctx)
    rng = ctx.rng
    reqs, metas = [], []

    def flush():
        outs = ctx.driver.run(reqs) if reqs else []
        for req, meta, out in zip(reqs, metas, outs):
            ctx.count("model_requests")
            if out.get("ok", out) != meta[1]:
                ctx.mismatch("diff", meta[0], meta[1], out)
        del reqs[:], metas[:]

    fam = schemas.family()
    for si in range(ctx.budget(10, 40)):
        if len(reqs) >= 15000:
            flush()     # keep memory bounded in long runs
        info = fam[si % len(fam)] if si < len(fam) or rng.random() < 0.6 else schemas.random_schema(rng)
        schema = info.schema
        docs = [gen.gen_doc(rng, schema, budget=rng.choice([6, 12, 25])) for _ in range(ctx.budget(8, 16))]
        pairs = []
        for d in docs:
            pairs.append(("self", d, d))
            pairs.append(("json-copy", d, Node.from_json(schema, json.loads(json.dumps(d.to_json())))))
            for e in edits(rng, info, d, docs):
                pairs.append(("edit", d, e))
                pairs.append(("edit-rev", e, d))
            pairs.append(("unrelated", d, rng.choice(docs)))
            av = attr_variants(rng, schema, d)
            if av is not None:
                pairs.append(("attr-variant", av[0], av[1]))
        for kind, a, b in pairs:
            if ctx.time_left() < 0:
                break
            ja, jb = a.to_json(), b.to_json()
            ta = mtoks(schema, ja.get("content"), [])
            tb = mtoks(schema, jb.get("content"), [])
            ctx.case(["diff", info.name, ja, jb], nontrivial=ta != tb,
                     sample={"op": "find_diff_start/end", "schema": info.name, "kind": kind, "a": str(a)[:200], "b": str(b)[:200]})
            ctx.count("pair:" + kind)
            replay = {"schema": info.name, "kind": kind, "a": ja, "b": jb}
            if ta == tb:
                exp_s, exp_e = None, None
            else:
                p = lcp(ta, tb)
                s = lcp(list(reversed(ta)), list(reversed(tb)))
                exp_s, exp_e = p, {"a": len(ta) - s, "b": len(tb) - s}
            st, got_s = outcome(lambda: a.content.find_diff_start(b.content), 2.0)
            if st != "ok" or got_s != exp_s:
                r = dict(replay, got=got_s if st == "ok" else f"{st}: {got_s}", expected=exp_s, fn="find_diff_start")
                ctx.violation("diff-start-" + ("hang" if st == "hang" else "raises" if st != "ok" else "wrong"),
                              "find_diff_start does not terminate with the length of the common token prefix", r)
            st2, got_e = outcome(lambda: a.content.find_diff_end(b.content), 2.0)
            if st2 != "ok" or got_e != exp_e:
                r = dict(replay, got=got_e if st2 == "ok" else f"{st2}: {got_e}", expected=exp_e, fn="find_diff_end")
                ctx.violation("diff-end-" + ("hang" if st2 == "hang" else "raises" if st2 != "ok" else "wrong"),
                              "find_diff_end does not terminate with the positions after which the sequences agree", r)
            reqs.append({"op": "diff", "a": info.frag(a.content), "b": info.frag(b.content)})
            metas.append((replay, [got_s if st == "ok" else "ERR", [got_e["a"], got_e["b"]] if (st2 == "ok" and got_e) else (None if st2 == "ok" else "ERR")]))
            # ---- explicit start positions (diffEnd_lcs_general / diffStart_shift / diffEnd_shift):
            # the end positions are at or past the fragment sizes, as in every call of the library
            p0 = rng.randrange(0, 40)
            pa, pb = a.content.size + rng.randrange(0, 30), b.content.size + rng.randrange(0, 30)
            st3, got_s3 = outcome(lambda: a.content.find_diff_start(b.content, p0), 2.0)
            st4, got_e3 = outcome(lambda: a.content.find_diff_end(b.content, pa, pb), 2.0)
            exp_s3 = None if exp_s is None else exp_s + p0
            exp_e3 = None if exp_e is None else {"a": exp_e["a"] + pa - a.content.size, "b": exp_e["b"] + pb - b.content.size}
            ctx.count("shifted_calls")
            if ta != tb:
                ctx.count("shifted_calls_nontrivial")
            if st3 != "ok" or got_s3 != exp_s3 or st4 != "ok" or got_e3 != exp_e3:
                r = dict(replay, pos=p0, posA=pa, posB=pb, got=[f"{st3}: {got_s3}", f"{st4}: {got_e3}"],
                         expected=[exp_s3, exp_e3], fn="find_diff_start/end with start positions")
                ctx.violation("diff-shifted-wrong",
                              "find_diff_start/find_diff_end from explicit positions are not the default results shifted", r)
            reqs.append({"op": "diffAt", "a": info.frag(a.content), "b": info.frag(b.content), "pos": p0, "posA": pa, "posB": pb})
            metas.append((dict(replay, pos=p0, posA=pa, posB=pb),
                          [got_s3 if st3 == "ok" else "ERR", [got_e3["a"], got_e3["b"]] if (st4 == "ok" and got_e3) else (None if st4 == "ok" else "ERR")]))
    flush()
    return ctx.finish(
        rule="a case is an ordered pair of documents of one schema: a document with itself (same object), with a "
             "JSON-rebuilt equal copy, with the result of a random edit of it (sharing nodes by identity; both orders), "
             "or with an unrelated document; distinct by content; non-trivial = the two differ")


if __name__ == "__main__":
    core.main("C20", run)
