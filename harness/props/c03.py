"""C03 — a step's position map describes exactly what the step did to the document.

Tie: exact correspondence of Step.get_map (all kinds) and of the effect of the step (apply) with
lean/PM/Step.lean; Transform.mapping = the list of the recorded steps' maps.
Whole histories (`check_history`): `tr.mapping.map` / `map_result` at every position of the first document with both
association sides against the model's `Mapping.map` / `mapResult` and its folds `mapFold` / `deletedFold` / `coveredFold`
(driver request `historyMap`, exact), against the composition of the individual maps, against the token picture (left
side: the token before the mapped position; right side: the token after it) and for monotonicity.
Search: for every applied step (random primitive steps and every step emitted by every high-level
Transform operation) and every old position: size delta = sum(new - old) over the map's ranges and
every token outside the replaced ranges is found unchanged at the mapped position.
"""
from prosemirror.transform import AddMarkStep, RemoveMarkStep  # noqa: E402
from prosemirror.transform import Mapping, ReplaceAroundStep, ReplaceStep, Step, Transform

from .. import core, gen, ops, schemas
from ..codec import doc_tokens, step_map
from ..core import outcome


def _spine(frag, left):
    d, n = 0, (frag.first_child if left else frag.last_child)
    while n is not None and not n.is_leaf and not n.is_text:
        d += 1
        n = n.first_child if left else n.last_child
    return d


def around_hyps(step):
    """the executable side conditions of the C03 theorems (lean/PM/MapFold.lean: aroundWFB, aroundOKB, gapSepB, and noTouch of
    the step's map) re-stated on the real step"""
    rg = list(step.get_map().ranges)
    no_touch = all(rg[j + 1] <= 0 or rg[i] + rg[i + 1] != rg[j] for i in range(0, len(rg), 3) for j in range(0, len(rg), 3))
    sl = step.slice
    wf = (sl.open_start <= _spine(sl.content, True) and sl.open_end <= _spine(sl.content, False) and step.insert <= sl.size
          and step.from_ <= step.gap_from <= step.gap_to <= step.to)
    ok = wf and (step.gap_from < step.gap_to or step.gap_to < step.to or step.insert == sl.size)
    sep = step.gap_from < step.gap_to or step.gap_to == step.to
    return {"wf": wf, "ok": ok, "sep": sep, "noTouch": no_touch}


def check_step(ctx, info, doc, step, res_doc, origin, sink=None):
    m = step.get_map()
    ranges = list(m.ranges)
    if isinstance(step, ReplaceAroundStep) and sink is not None:
        # are the hypotheses of the theorems met by this (successfully applied) step?  measured on the model and on the step
        hy = around_hyps(step)
        cls = "primitive" if origin == "primitive" else "operations"
        for k in ("wf", "ok", "sep"):
            ctx.count("around_step_hypothesis_%s:%s:%s" % (k, cls, hy[k]))
        sink[0].append({"op": "aroundHyps", "step": info.step(step)})
        sink[1].append(("aroundHyps", {"schema": info.name, "step": step.to_json()}, hy))
    old = doc_tokens(doc)
    new = doc_tokens(res_doc)
    replay = {"schema": info.name, "doc": doc.to_json(), "step": step.to_json(), "origin": origin, "map": ranges}
    ctx.case(["step-map", info.name, doc.to_json(), step.to_json()],
             sample={"op": "get_map faithful", "schema": info.name, "origin": origin, "step": step.to_json(), "map": ranges})
    ctx.count("steps:" + type(step).__name__)
    ctx.count("origin:" + origin)
    delta = sum(ranges[i + 2] - ranges[i + 1] for i in range(0, len(ranges), 3))
    if len(new) - len(old) != delta:
        ctx.violation("size-delta", "document size does not change by the sum of (new - old) over the map's ranges",
                      dict(replay, old_size=len(old), new_size=len(new), delta=delta))
        return
    covered = set()
    for i in range(0, len(ranges), 3):
        covered.update(range(ranges[i], ranges[i] + ranges[i + 1]))
    # the ranges as the map reports them through its public enumeration must be the same replaced ranges
    reported = []
    st_fe, _ = outcome(lambda: m.for_each(lambda a, b, c, d: reported.append((a, b, c, d))))
    covered_reported = set()
    for (a, b, _c, _d) in reported:
        covered_reported.update(range(a, b))
    if st_fe != "ok" or covered_reported != covered or sum((d - c_) - (b - a) for (a, b, c_, d) in reported) != delta:
        ctx.violation("reported-ranges", "the replaced ranges the map enumerates (for_each) are not the ranges the step replaced",
                      dict(replay, for_each=[list(x) for x in reported]))
        return
    for i, tok in enumerate(old):
        if i in covered:
            continue
        j = m.map(i, 1)
        # mark/attr steps change markup of tokens in place: compare structure for those, identity otherwise
        if ranges:
            same = j < len(new) and new[j] == tok
        else:
            same = j == i and new[j][0] == tok[0] and (tok[0] != "u" or new[j][1] == tok[1])
        if not same:
            ctx.violation("token-moved", "a token outside the replaced ranges is not found unchanged at the mapped position",
                          dict(replay, pos=i, mapped=j, token=list(tok), found=list(new[j]) if j < len(new) else None))
            return
    # the other side: a position whose *preceding* token is outside the replaced ranges, mapped with assoc = -1, still has
    # that token before it (Props/C03.lean: mapped_position_same_content_left / _around_left, markup_map_both_sides)
    for i, tok in enumerate(old):
        if i in covered:
            continue
        j = m.map(i + 1, -1)
        ctx.count("left_assoc_positions")
        if ranges:
            same = 1 <= j <= len(new) and new[j - 1] == tok
        else:
            same = j == i + 1 and new[j - 1][0] == tok[0] and (tok[0] != "u" or new[j - 1][1] == tok[1])
        if not same:
            ctx.violation("token-moved-left", "a token outside the replaced ranges is not found unchanged before the position mapped with assoc -1",
                          dict(replay, pos=i + 1, mapped=j, token=list(tok), found=list(new[j - 1]) if 1 <= j <= len(new) else None))
            return

    # the deleted flag of map_result on both sides: true iff the step replaced the token on the asked side of the position
    # (Props/C03.lean: step_deleted_iff, replace_deleted_rule, replaceAround_deleted_rule); on the right side only for maps
    # where no range ends at the start of a range with a non-empty old side (deleted_right_needs_noTouch)
    touch_free = all(ranges[j + 1] <= 0 or ranges[i] + ranges[i + 1] != ranges[j]
                     for i in range(0, len(ranges), 3) for j in range(0, len(ranges), 3))
    for a in ((-1, 1) if ranges else ()):     # an empty map never reports anything (markup_map_both_sides)
        if a > 0 and not touch_free:
            ctx.count("deleted_flag_right_touching_ranges_skipped")
            continue
        for p in range(len(old) + 1):
            r = m.map_result(p, a)
            ctx.count("deleted_flag_positions")
            if bool(r.deleted):
                ctx.count("deleted_flag_true")
            if bool(r.deleted) != ((p - 1 if a < 0 else p) in covered) or r.pos != m.map(p, a):
                ctx.violation("deleted-flag", "map_result(pos, assoc).deleted of a step's map is not 'the step replaced the token on the "
                              "asked side of the position' (or map_result and map disagree on the position)",
                              dict(replay, pos=p, assoc=a, deleted=bool(r.deleted), result_pos=r.pos, mapped=m.map(p, a)))
                return


def _same_tok(a, b, exact):
    """identity when only replace-family steps were recorded; structure and text otherwise (markup steps change markup)"""
    if exact:
        return a == b
    return a[0] == b[0] and (b[0] != "u" or a[1] == b[1])


def _around_ok(step):
    """the side condition of the right-side theorems (Props/C03.lean AroundOK): not the touching-empty-gap shape"""
    if not isinstance(step, ReplaceAroundStep):
        return True
    return step.gap_from < step.gap_to or step.gap_to < step.to or step.insert == step.slice.size


def check_history(ctx, info, d, tr, kind, reqs, metas):
    """the whole history of a transform: `tr.mapping` asked at every position of the first document, both sides
    (Props/C03.lean: mapping_map_eq_mapFold, mapping_mapResult_eq_folds, transform_mapped_position_same_content[_left],
    transform_deleted_iff_covered, transform_mapping_mono, transform_size_delta, transform_surviving_token_width)"""
    if not tr.steps:
        return
    maps = list(tr.mapping.maps)
    old = doc_tokens(d)
    new = doc_tokens(tr.doc)
    n = len(old)
    exact = all(isinstance(s, (ReplaceStep, ReplaceAroundStep)) for s in tr.steps)
    right_ok = all(_around_ok(s) for s in tr.steps)
    replay = {"schema": info.name, "doc": d.to_json(), "steps": [s.to_json() for s in tr.steps], "origin": kind,
              "maps": [list(m.ranges) for m in maps]}
    ctx.case(["history", info.name, d.to_json(), [s.to_json() for s in tr.steps]],
             sample={"op": "history mapping both sides", "schema": info.name, "origin": kind, "steps": [s.to_json() for s in tr.steps]})
    ctx.count("histories:" + kind)
    ctx.count("history_steps:%s" % (len(maps) if len(maps) < 5 else "5+"))
    if len(maps) >= 2 and sum(1 for m in maps if m.ranges) >= 2:
        ctx.count("histories_with_two_or_more_nonempty_maps")

    def covers(m, tok):
        rg = m.ranges
        return any(rg[i] <= tok < rg[i] + rg[i + 1] for i in range(0, len(rg), 3))

    def no_touch(m):
        rg = m.ranges
        return all(rg[j + 1] <= 0 or rg[i] + rg[i + 1] != rg[j] for i in range(0, len(rg), 3) for j in range(0, len(rg), 3))

    touch_free = [no_touch(m) for m in maps]
    exp = {"left": [], "right": [], "noTouch": touch_free}
    images, covs = {}, {}
    delta = sum(m.ranges[i + 2] - m.ranges[i + 1] for m in maps for i in range(0, len(m.ranges), 3))
    if len(new) - len(old) != delta:
        ctx.violation("history-size-delta", "the document size does not change by the sum of (new - old) over the ranges of all "
                      "recorded maps", dict(replay, old_size=len(old), new_size=len(new), delta=delta))
        return
    for side, a in (("left", -1), ("right", 1)):
        prev = None
        for p in range(n + 1):
            st1, q = outcome(lambda: tr.mapping.map(p, a))
            st2, r = outcome(lambda: tr.mapping.map_result(p, a))
            if st1 != "ok" or st2 != "ok":
                ctx.violation("history-map-raises", "Transform.mapping.map / map_result raises on a position of the first document",
                              dict(replay, pos=p, assoc=a))
                return
            # the composition of the individual maps, and the range-level reading of the flag, followed along
            cur, cov, dele = p, False, False
            for m in maps:
                cov = cov or covers(m, cur - 1 if a < 0 else cur)
                dele = dele or m.map_result(cur, a).deleted
                cur = m.map(cur, a)
            exp[side].append([q, cur, [r.pos, r.del_info, bool(r.deleted)], dele, cov])
            images[(a, p)] = q
            covs[(a, p)] = cov
            ctx.count("history_positions:" + side)
            if q != cur or r.pos != cur or bool(r.deleted) != dele:
                ctx.violation("history-map-fold", "Transform.mapping does not map like the left-to-right composition of the recorded "
                              "steps' maps with the same association side (position or deleted flag)",
                              dict(replay, pos=p, assoc=a, mapped=q, result=[r.pos, r.del_info], composed=cur, composed_deleted=dele))
                return
            if prev is not None and prev > q:
                ctx.violation("history-monotone", "Transform.mapping.map is not monotone in the position",
                              dict(replay, pos=p, assoc=a, mapped=q, previous=prev))
                return
            prev = q
            # the flag says: some step replaced the token on the asked side (mapped along)
            if a < 0 or all(touch_free):
                ctx.count("history_deleted_flag_checked:" + side)
                if bool(r.deleted):
                    ctx.count("history_deleted_flag_true:" + side)
                if bool(r.deleted) != cov:
                    ctx.violation("history-deleted-flag", "map_result(...).deleted of Transform.mapping is not 'some step replaced the "
                                  "token on the asked side of the position'",
                                  dict(replay, pos=p, assoc=a, deleted=bool(r.deleted), covered=cov))
                    return
            else:
                ctx.count("history_deleted_flag_touching_ranges_skipped")
            # token picture
            if a < 0 and p >= 1 and not cov:
                ctx.count("history_left_tokens")
                if q != p:
                    ctx.count("history_left_tokens_moved")
                if not (1 <= q <= len(new) and _same_tok(new[q - 1], old[p - 1], exact)):
                    ctx.violation("history-token-moved-left", "a token no step of the history replaced is not found before the position "
                                  "mapped with assoc -1 through Transform.mapping",
                                  dict(replay, pos=p, mapped=q, token=list(old[p - 1]),
                                       found=list(new[q - 1]) if 1 <= q <= len(new) else None))
                    return
            if a > 0 and p < n and not cov and right_ok:
                ctx.count("history_right_tokens")
                if not (0 <= q < len(new) and _same_tok(new[q], old[p], exact)):
                    ctx.violation("history-token-moved", "a token no step of the history replaced is not found after the position "
                                  "mapped with assoc 1 through Transform.mapping",
                                  dict(replay, pos=p, mapped=q, token=list(old[p]), found=list(new[q]) if 0 <= q < len(new) else None))
                    return
    for p in range(n + 1):
        if images[(-1, p)] > images[(1, p)]:
            ctx.violation("history-sides-order", "the assoc -1 image of a position lies right of its assoc 1 image",
                          dict(replay, pos=p, left=images[(-1, p)], right=images[(1, p)]))
            return
        if images[(-1, p)] < images[(1, p)]:
            ctx.count("history_positions_where_sides_differ")
        # a token no step replaced occupies exactly [map(p, 1), map(p + 1, -1)) (transform_surviving_token_width)
        if p < n and right_ok and not covs[(1, p)]:
            ctx.count("history_surviving_token_width")
            if covs[(-1, p + 1)] or images[(-1, p + 1)] != images[(1, p)] + 1:
                ctx.violation("history-token-width", "the two association sides disagree on where a token that no step replaced is: "
                              "map(p + 1, -1) is not map(p, 1) + 1",
                              dict(replay, pos=p, right_image=images[(1, p)], left_image_of_next=images[(-1, p + 1)]))
                return
    reqs.append({"op": "historyMap", "maps": [step_map(m) for m in maps], "n": n})
    metas.append(("historyMap", {"schema": info.name, "doc": d.to_json(), "steps": [s.to_json() for s in tr.steps]}, exp))


def run(ctx):
    core.lean_phase(ctx)
    rng = ctx.rng
    reqs, metas = [], []

    def flush():
        outs = ctx.driver.run(reqs) if reqs else []
        for req, (op, replay, exp), out in zip(reqs, metas, outs):
            ctx.count("model_requests")
            if out.get("ok", out) != exp:
                ctx.mismatch(op, replay, exp, out)
        del reqs[:], metas[:]

    def one_doc(info, d, docs):
        # primitive steps
        applied = []
        for _ in range(ctx.budget(20, 40)):
            if ctx.time_left() < 0:
                break
            step = gen.gen_step(rng, info, d, docs)
            rd = one_step(info, d, step)
            if rd is not None:
                applied.append((step, rd))
        derived_steps(info, d, docs, applied)
        # aimed: add / remove a mark that is present somewhere in the document over a wide range (several differently marked
        # runs become equal and are merged)
        present = []
        d.descendants(lambda n, p, par, i: present.extend(n.marks) if n.is_inline else None)
        for _ in range(min(len(present), ctx.budget(3, 6))):
            m = rng.choice(present)
            f, t = gen.random_range(rng, d)
            one_step(info, d, (AddMarkStep if rng.random() < 0.4 else RemoveMarkStep)(f, t, m))
        # steps emitted by high-level operations; Transform.mapping
        tr = Transform(d)
        for _ in range(ctx.budget(4, 8)):
            name, args, thunk = ops.plan_op(rng, info, tr.doc, docs)
            n0 = len(tr.steps)
            st, val, added = ops.run_op(tr, thunk)
            for k in range(n0, len(tr.steps)):
                check_step(ctx, info, tr.docs[k], tr.steps[k], tr.docs[k + 1] if k + 1 < len(tr.docs) else tr.doc, name,
                           sink=(reqs, metas))
        maps = [list(x.ranges) for x in tr.mapping.maps]
        exp = [list(s.get_map().ranges) for s in tr.steps]
        if maps != exp or tr.mapping.from_ != 0 or tr.mapping.to != len(tr.steps) or tr.mapping.mirror:
            ctx.violation("transform-mapping", "Transform.mapping is not the list of the recorded steps' maps (from 0 to the end, no mirrors)",
                          {"schema": info.name, "doc": d.to_json(), "steps": [s.to_json() for s in tr.steps], "maps": maps})
        check_history(ctx, info, d, tr, "operations", reqs, metas)
        # a history of random primitive steps (each generated against the current document, recorded iff it applies)
        tr2 = Transform(d)
        for _ in range(ctx.budget(3, 6)):
            step = gen.gen_step(rng, info, tr2.doc, docs)
            outcome(lambda: tr2.maybe_step(step))
        if tr2.steps:
            for st_ in tr2.steps:
                reqs.append({"op": "getMap", "step": info.step(st_)})
                metas.append(("getMap", {"schema": info.name, "step": st_.to_json()}, step_map(st_.get_map())))
            check_history(ctx, info, d, tr2, "primitive", reqs, metas)
        # consecutive recorded steps that merge: the merged step on the document the first of them was applied to
        merged_seen = 0
        for trx in (tr, tr2):
            for k in range(len(trx.steps) - 1):
                if merged_seen >= 2:
                    break
                stg, mg = outcome(lambda: trx.steps[k].merge(trx.steps[k + 1]))
                if stg == "ok" and mg is not None:
                    merged_seen += 1
                    one_step(info, trx.docs[k], mg, "derived:merge")

    def one_step(info, d, step, origin="primitive"):
        st, res = outcome(lambda: step.apply(d))
        sj = info.step(step)
        stm, m = outcome(step.get_map)
        if stm == "ok":
            reqs.append({"op": "getMap", "step": sj})
            metas.append(("getMap", {"schema": info.name, "step": step.to_json(), "origin": origin}, step_map(m)))
        if st == "ok" and res.doc is not None:
            check_step(ctx, info, d, step, res.doc, origin, sink=(reqs, metas))
            return res.doc
        return None

    def derived_steps(info, d, docs, applied):
        """Steps are values, and a step that came out of another step is a step like any other: the map it reports has to
        describe what *it* does to the document it is applied to.  (a) a step object used a second time (on another
        document; `get_map` asked again); (b) the inverse of an applied step, applied to that step's result; (c) a step
        decoded from its own JSON; (d) concurrent steps *rebased* with `Step.map` — over a step map, over a `Mapping`, over
        the mapping of the transform they are then recorded in (what collaborative editing does with unconfirmed steps) —
        each checked on the document it then applies to, and the whole rebased history with `check_history`; (e) merged
        steps (see `one_doc`)."""
        if not applied:
            return
        for step, rd in rng.sample(applied, min(len(applied), ctx.budget(1, 3))):
            kind = rng.choice(["invert", "from_json", "other-document"])
            ctx.count("derived_attempts:" + kind)
            if kind == "invert":
                sti, inv = outcome(lambda: step.invert(d))
                if sti == "ok":
                    one_step(info, rd, inv, "derived:invert")
            elif kind == "from_json":
                stj, s2 = outcome(lambda: Step.from_json(info.schema, step.to_json()))
                if stj == "ok":
                    one_step(info, d, s2, "derived:from_json")
            else:
                other = rng.choice(docs)
                if gen.step_aligned(other, step):
                    one_step(info, other, step, "reused:other-document")
        # concurrent steps on d: some of the applied primitive ones and the first steps of a few high-level operations
        cands = rng.sample(applied, min(len(applied), 4))
        for _ in range(1):
            trc = Transform(d)
            name, args, thunk = ops.plan_op(rng, info, d, docs)
            st, val, added = ops.run_op(trc, thunk)
            if added >= 1:
                cands.append((trc.steps[0], trc.docs[1] if len(trc.docs) > 1 else trc.doc))
        if len(cands) < 2:
            return
        rng.shuffle(cands)
        # the step the others are rebased over: preferably one whose map moves something
        cands.sort(key=lambda c: not c[0].get_map().ranges)
        (a, da), rest = cands[0], cands[1:]
        rng.shuffle(rest)
        rest = rest[:2]
        tr = Transform(d)
        if outcome(lambda: tr.step(a))[0] != "ok":
            return
        for b, _db in rest:
            how = rng.choice(["step-map", "mapping", "transform-mapping"])
            over = tr.mapping if how == "transform-mapping" else Mapping(list(tr.mapping.maps)) if how == "mapping" else \
                (tr.mapping.maps[0] if len(tr.mapping.maps) == 1 else tr.mapping)
            stb, b2 = outcome(lambda: b.map(over))
            ctx.count("rebased:" + ("raised" if stb != "ok" else "dropped" if b2 is None else
                                    "moved" if b2.to_json() != b.to_json() else "unmoved"))
            if stb != "ok" or b2 is None:
                continue
            n0 = len(tr.steps)
            outcome(lambda: tr.maybe_step(b2))
            stm, m = outcome(b2.get_map)
            if stm == "ok":
                reqs.append({"op": "getMap", "step": info.step(b2)})
                metas.append(("getMap", {"schema": info.name, "step": b2.to_json(), "origin": "derived:map"}, step_map(m)))
            for k in range(n0, len(tr.steps)):
                ctx.count("rebased:applied")
                check_step(ctx, info, tr.docs[k], tr.steps[k], tr.docs[k + 1] if k + 1 < len(tr.docs) else tr.doc, "derived:map",
                           sink=(reqs, metas))
        if len(tr.steps) >= 2 and rng.random() < 0.5:
            check_history(ctx, info, d, tr, "rebased", reqs, metas)

    fam = schemas.family()
    for si in range(ctx.budget(24, 60)):
        if len(reqs) >= 15000:
            flush()     # keep memory bounded in long runs
        info = fam[si % len(fam)] if si < len(fam) or rng.random() < 0.4 else schemas.random_schema(rng)
        schema = info.schema
        ctx.driver.add_schema(info)
        docs = [gen.gen_doc(rng, schema, budget=rng.choice([6, 12, 25])) for _ in range(ctx.budget(5, 10))]
        # documents made of short runs with varied marks: a primitive mark step over several runs makes neighbours equal and
        # has them merged (its map stays empty: nothing may move or disappear)
        docs += [x for x in (gen.gen_marky_doc(rng, schema) for _ in range(ctx.budget(1, 3))) if x is not None]
        for d in docs:
            ctx.guard(lambda: one_doc(info, d, docs), "steps on one document")
    flush()
    return ctx.finish(
        rule="a case is (schema, document, successfully applied step) where the step is a random primitive step or one emitted "
             "by a random high-level Transform operation (origin counted per operation); all old positions are checked; distinct by content")


if __name__ == "__main__":
    core.main("C03", run)
