"""C04 — the guard of theorem `replace_undo` (lean/PM/UndoGuard.lean: sidesCompatible).

`compatible_content` is symmetric but not transitive.  A replace step whose slice is a single node open on
both sides merges from's and to's ancestors *through* that node after checking only `to ~ slice node` and
`slice node ~ from`; the inverse re-splits the merged node and checks `from ~ to`.  Theorem: if, in the
original document, `rf.node(d)` and `rt.node(d)` have compatible types for every depth d with
e < d <= e + n  (e = rf.depth - slice.open_start, n = number of nested levels at which the slice is a single
node open on both sides), the inverse of a successfully applied replace step applies and restores the document.

Tie (exact): the model's guard / e / n against the same quantities computed from ResolvedPos and NodeType of the
real code.  Oracle: guard true + valid document  =>  the real inverse restores the document (theorem); a real
inverse that fails with a join error => guard false.  Aimed cases: a local schema with non-transitive
compatibility (A "p q*", B "q+", C "(p|q)*").
"""
from prosemirror.model import Fragment, Schema, Slice
from prosemirror.transform import ReplaceAroundStep, ReplaceStep

from ..codec import SchemaInfo
from ..core import outcome

BRIDGE_SPEC = {"nodes": {
    "doc": {"content": "(A|B|C)*"},
    "A": {"content": "p q*"},
    "B": {"content": "q+"},
    "C": {"content": "(p|q)*"},
    "p": {},
    "q": {},
    "text": {},
}}

_BRIDGE = None


def bridge_info():
    from .. import schemas
    return schemas.by_name("bridge-local")


def _spine(fragment, left):
    d, n = 0, (fragment.first_child if left else fragment.last_child)
    while n is not None and not n.is_leaf and not n.is_text:
        d += 1
        n = n.first_child if left else n.last_child
    return d


def single_depth(sl):
    """nested levels at which the slice content is a single non-leaf child open on both sides"""
    n, frag, a, b = 0, sl.content, sl.open_start, sl.open_end
    while a > 0 and b > 0 and frag.child_count == 1 and not frag.first_child.is_leaf:
        n, frag, a, b = n + 1, frag.first_child.content, a - 1, b - 1
    return n


def py_guard(doc, f, t, sl):
    rf, rt = doc.resolve(f), doc.resolve(t)
    e = max(rf.depth - sl.open_start, 0)
    n = single_depth(sl)
    ok = True
    for d in range(e + 1, min(e + n, rf.depth, rt.depth) + 1):
        if not rf.node(d).type.compatible_content(rt.node(d).type):
            ok = False
    return ok, e, n


def py_around_guards(doc, step):
    """the two guards of theorem replaceAround_undo, computed with the real code"""
    f, t, gf, gt = step.from_, step.to, step.gap_from, step.gap_to

    def fits():
        old = doc.slice(f, t)
        rem = old.remove_between(gf - f, gt - f)
        gap = doc.slice(gf, gt)
        return rem.insert_at(gf - f, gap.content) is not None

    stf, fit = outcome(fits)
    fit = bool(fit) if stf == "ok" else False

    def sides():
        gap = doc.slice(gf, gt)
        inserted = step.slice.insert_at(step.insert, gap.content)
        if inserted is None:
            return True
        return py_guard(doc, f, t, inserted)[0]

    sts, sd = outcome(sides)
    stc, cl = outcome(lambda: py_gap_clean(doc, f, t, gf, gt))
    return fit, (bool(sd) if sts == "ok" else True), (bool(cl) if stc == "ok" else False)


def _seam_free(prev, nxt):
    return not (prev is not None and nxt is not None and prev.is_text and nxt.is_text and prev.same_markup(nxt))


def _gap_end(prev, rest, T):
    for ch in rest:
        if T == 0:
            return _seam_free(prev, ch)
        if ch.node_size <= T:
            T -= ch.node_size
        else:
            return False
    return T == 0


def py_gap_clean(doc, f, t, gf, gt):
    """the gap lies between complete children of the node it sits in (seen in the old slice doc.slice(f, t)) and the
    children around it are not two texts with the same marks"""
    old = doc.slice(f, t)
    frag, F, T = old.content, gf - f + old.open_start, gt - f + old.open_start
    while True:
        kids = [frag.child(i) for i in range(frag.child_count)]
        pos, prev, down = 0, None, None
        for i, ch in enumerate(kids):
            if F == pos:
                return _gap_end(prev, kids[i:], T - pos)
            if pos + ch.node_size <= F:
                prev, pos = ch, pos + ch.node_size
                continue
            if ch.is_leaf:      # text or leaf: the position is inside it
                return False
            if not (T - pos < ch.node_size):
                return False
            down = (ch.content, F - pos - 1, T - pos - 1)
            break
        if down is None:
            return F == pos and T == pos
        frag, F, T = down


AROUND_SPEC = {"nodes": {
    "doc": {"content": "(X|Z)*"},
    "X": {"content": "text?"},
    "Z": {"content": "text*"},
    "text": {},
}}

_AROUND = None


def around_info():
    from .. import schemas
    return schemas.by_name("optional-text-local")


def request(ctx, info, doc, step, res_doc, impl_ok, detail, reqs, metas, replay):
    """queue the guard request for an applied ReplaceStep / ReplaceAroundStep"""
    if isinstance(step, ReplaceAroundStep):
        if not (step.from_ <= step.gap_from <= step.gap_to <= step.to):
            return
        stv, _ = outcome(lambda: doc.check())
        reqs.append({"op": "aroundGuards", "s": info.lean_id, "doc": info.node(doc), "from": step.from_,
                     "to": step.to, "gapFrom": step.gap_from, "gapTo": step.gap_to,
                     "slice": info.slice(step.slice), "insert": step.insert})
        sl = step.slice
        shape = (sl.open_start <= _spine(sl.content, True) and sl.open_end <= _spine(sl.content, False)
                 and step.insert <= sl.size)
        metas.append(("aroundGuards", replay, (py_around_guards(doc, step), stv == "ok", impl_ok, detail, shape)))
        return
    if not isinstance(step, ReplaceStep) or step.from_ > step.to:
        return
    st, val = outcome(lambda: py_guard(doc, step.from_, step.to, step.slice))
    if st != "ok":
        return
    stv, _ = outcome(lambda: doc.check())
    reqs.append({"op": "sidesCompatible", "s": info.lean_id, "doc": info.node(doc), "from": step.from_,
                 "to": step.to, "slice": info.slice(step.slice)})
    metas.append(("sidesCompatible", replay, (val, stv == "ok", impl_ok, detail)))


def compare(ctx, replay, payload, out):
    (pg, pe, pn), valid, impl_ok, detail = payload
    if "ok" not in out:
        ctx.mismatch("sidesCompatible", replay, [pg, pe, pn], out)
        return
    mg, me, mn = out["ok"]
    ctx.count("guard:" + ("true" if mg else "false"))
    if mn > 0:
        ctx.count("guard:bridging-slice")
    if [bool(mg), me, mn] != [pg, pe, pn]:
        ctx.mismatch("sidesCompatible", replay, [pg, pe, pn], [mg, me, mn])
        return
    if valid and mg and not impl_ok:
        # the theorem's hypotheses hold for the model's view of this case, yet the real inverse does not restore
        ctx.mismatch("replace_undo-theorem", replay, "guard holds => inverse restores", str(detail)[:200])
    if (not impl_ok) and detail is not None and "Cannot join" in str(detail) and mg and valid:
        ctx.mismatch("replace_undo-join", replay, "join failure of the inverse => guard false", "guard true")
    if not mg:
        ctx.count("guard:false&undo-" + ("ok" if impl_ok else "fails"))


def compare_around(ctx, replay, payload, out):
    (pfit, pside, pclean), valid, impl_ok, detail, shape = payload
    if "ok" not in out:
        ctx.mismatch("aroundGuards", replay, [pfit, pside, pclean], out)
        return
    mfit, mside, mclean = bool(out["ok"][0]), bool(out["ok"][1]), bool(out["ok"][2])
    ctx.count("around-fit:" + ("true" if mfit else "false"))
    ctx.count("around-sides:" + ("true" if mside else "false"))
    ctx.count("around-clean:" + ("true" if mclean else "false"))
    if [mfit, mside, mclean] != [pfit, pside, pclean]:
        ctx.mismatch("aroundGuards", replay, [pfit, pside, pclean], [mfit, mside, mclean])
        return
    if valid and mclean and not mfit:
        # theorem gapFitsBack_of_clean
        ctx.mismatch("gapFitsBack_of_clean", replay, "clean gap => it fits back", "rejected")
    if valid and shape and not mfit:
        # theorem gapFitsBack_of_applied (Props/C04.lean; Proofs/GapBack.lean): since `insert_into` validates the content
        # it built, the gap of every applied replace-around step fits back into the remainder of the old slice — whatever
        # its shape (inside text, between texts that join, at any depth).  The pair-alignment proviso of the theorem is
        # void on Python strings.  (Finding C04-around-text-gap was the failure of exactly this.)
        ctx.mismatch("gapFitsBack_of_applied", replay, "the step applied => its gap fits back", "rejected")
    structure = detail is not None and "Structure" in str(detail)
    if valid and mfit and mside and not impl_ok and not structure:
        # all guards of replaceAround_undo other than the structure check hold, the failure is not the structure check
        ctx.mismatch("replaceAround_undo-theorem", replay, "guards hold => inverse restores", str(detail)[:200])
    if not mfit:
        ctx.count("around-fit:false&undo-" + ("ok" if impl_ok else "fails"))


def aimed_around(ctx, rng, undo_single, reqs, metas):
    """replace-around steps whose gap lies inside / next to text of a node with content `text?`"""
    info = around_info()
    ctx.driver.add_schema(info)
    S = info.schema
    n = S.node
    letters = "abcdefgh"
    for _ in range(ctx.budget(40, 100)):
        kids = []
        for _k in range(rng.randint(1, 3)):
            txt = "".join(rng.choice(letters) for _ in range(rng.randint(2, 6)))
            kids.append(n(rng.choice(["X", "Z"]), None, [S.text(txt)]))
        doc = n("doc", None, kids)
        i = rng.randrange(len(kids))
        pos = sum(k.node_size for k in kids[:i])
        size = kids[i].content.size
        gf = pos + 1 + rng.randint(0, size)
        gt = rng.randint(gf, pos + 1 + size)
        step = ReplaceAroundStep(pos, pos + kids[i].node_size, gf, gt, Slice(Fragment.from_(n(rng.choice(["X", "Z"]))), 0, 0), 1,
                                 rng.random() < 0.2)
        st, res = outcome(lambda: step.apply(doc))
        if st == "ok" and res.doc is not None:
            ctx.count("aimed-around-applied")
            undo_single(ctx, info, doc, step, res.doc, reqs, metas, "aimed-around")


def aimed(ctx, rng, gen, undo_single, reqs, metas):
    """replace steps in the non-transitive schema that bridge A and B through an open C (and variations)"""
    aimed_around(ctx, rng, undo_single, reqs, metas)
    info = bridge_info()
    ctx.driver.add_schema(info)
    S = info.schema
    n = S.node

    def rnd_a():
        return n("A", None, [n("p")] + [n("q") for _ in range(rng.randint(0, 2))])

    def rnd_b():
        return n("B", None, [n("q") for _ in range(rng.randint(1, 3))])

    def rnd_c():
        return n("C", None, [n(rng.choice(["p", "q"])) for _ in range(rng.randint(0, 3))])

    for _ in range(ctx.budget(60, 160)):
        kids = [rng.choice([rnd_a, rnd_b, rnd_c])() for _ in range(rng.randint(1, 4))]
        aim = rng.random() < 0.6
        if aim:
            # ... A B ...: from inside A (behind its p), to inside B (behind at least one q), bridged by an open C
            i = rng.randint(0, len(kids))
            kids[i:i] = [rnd_a(), rnd_b()]
        doc = n("doc", None, kids)
        size = doc.content.size
        if aim:
            pos_a = sum(k.node_size for k in kids[:i])
            pos_b = pos_a + kids[i].node_size
            f = pos_a + 1 + rng.randint(1, kids[i].child_count)
            t = pos_b + 1 + rng.randint(1, kids[i + 1].child_count)
            mid = n("C", None, [n("q") for _ in range(rng.randint(0, 2))])
            sl = Slice(Fragment.from_(mid), 1, 1)
        else:
            f = rng.randint(0, size)
            t = rng.randint(f, size)
            mid = rng.choice([rnd_a, rnd_b, rnd_c])()
            if rng.random() < 0.7:
                sl = Slice(Fragment.from_(mid), 1, 1)
            else:
                sl = Slice(Fragment.from_([mid, rng.choice([rnd_a, rnd_b, rnd_c])()]), rng.randint(0, 1), rng.randint(0, 1))
        step = ReplaceStep(f, t, sl)
        st, res = outcome(lambda: step.apply(doc))
        if st == "ok" and res.doc is not None:
            ctx.count("aimed-bridge-applied")
            undo_single(ctx, info, doc, step, res.doc, reqs, metas, "aimed-bridge")
