"""C15 — content filling and wrapper search are sound and find an answer when one exists.

Tie (relational: the property does not fix *which* filling / chain): the real answers of
ContentMatch.fill_before / find_wrapping are checked with the Lean predicates `isFill` /
`isWrapChain` (lean/PM/Fill.lean, evaluated by the driver); "nothing" answers and chain lengths are
compared with the model's own search (`fillBefore`, `findWrapping`), which the theorems prove sound.
Search: brute-force enumeration of fillings up to length 4 and of wrapper chains up to length 3 on
the real automata; create_and_fill results are validated by check() and must contain the given
content in order.
find_wrapping is tied exactly (same chain: the answer is a function of the automata's edge order), and so is
NodeType.create_and_fill (same node / None / exception class as `Schema.createAndFill`, lean/PM/CreateFill.lean).
"""
import itertools

from prosemirror.model import Fragment, Schema

from .. import core, gen, schemas
from ..core import outcome
from .c07 import all_nodes, built_answer


def states_of(start):
    states, index = [start], {id(start): 0}
    i = 0
    while i < len(states):
        for e in states[i].next:
            if id(e.next) not in index:
                index[id(e.next)] = len(states)
                states.append(e.next)
        i += 1
    return states


def generatable(t):
    return not (t.is_text or t.has_required_attrs())


def run_match(m, types):
    for t in types:
        if m is None:
            return None
        m = m.match_type(t)
    return m


def brute_fill(match, after_types, to_end, gens, maxlen=4):
    for L in range(maxlen + 1):
        for combo in itertools.product(gens, repeat=L):
            fin = run_match(match, list(combo) + after_types)
            if fin is not None and (not to_end or fin.valid_end):
                return list(combo)
    return None


def wrap_ok(t):
    return not t.is_leaf and not t.has_required_attrs()


def is_chain(match, target, chain):
    if not all(wrap_ok(w) for w in chain):
        return False
    if not chain:
        return match.match_type(target) is not None
    if match.match_type(chain[0]) is None:
        return False
    for a, b in zip(chain, chain[1:]):
        m = a.content_match.match_type(b)
        if m is None or not m.valid_end:
            return False
    return chain[-1].content_match.match_type(target) is not None


def brute_wrap(match, target, wrappers, maxlen=3):
    for L in range(maxlen + 1):
        for chain in itertools.permutations(wrappers, L):
            if is_chain(match, target, list(chain)):
                return list(chain)
    return None


def cf_contents(rng, schema, frags):
    """contents handed to create_and_fill: nothing, content of generated documents, and such content with a mark put on
    one of its (block or inline) children whether or not a parent would allow it"""
    out = [rng.choice(frags) if rng.random() < 0.6 else Fragment.empty]
    if schema.marks and frags:
        fr = rng.choice(frags)
        if fr.child_count:
            i = rng.randrange(fr.child_count)
            m = gen.gen_mark(rng, schema)
            out.append(fr.replace_child(i, fr.child(i).mark(m.add_to_set(fr.child(i).marks))))
    return out


def cf_partial_contents(rng, docs, t):
    """contents that need filling: the children of a generated node of type t with some of them left out"""
    out = []
    hosts = [n for d in docs for n in all_nodes(d) if n.type is t and n.child_count]
    rng.shuffle(hosts)
    for n in hosts[:2]:
        kids = [c for c in n.content.content if rng.random() < 0.6]
        out.append(Fragment.from_(kids))
    return out


AIMED_DEAD_ENDS = [
    # a required position only a non-generatable node (required attribute) can fill, behind a loop that keeps offering
    # generatable nodes: no match can end without the non-generatable node, so filling can only fail
    {"doc": {"content": "fig+"}, "fig": {"content": "cap* img"}, "cap": {"content": "text*"}, "img": {"attrs": {"src": {}}}, "text": {}},
    {"doc": {"content": "a"}, "a": {"content": "(g g)* g n"}, "g": {}, "n": {"attrs": {"x": {}}}, "text": {}},
    {"doc": {"content": "sec+"}, "sec": {"content": "(p | q)+ end"}, "p": {"content": "text*"}, "q": {}, "end": {"attrs": {"k": {}}}, "text": {}},
    {"doc": {"content": "p{2,} z"}, "p": {"content": "text*"}, "z": {"content": "text*", "attrs": {"id": {}}}, "text": {}},
]


def run(ctx):
    core.lean_phase(ctx)
    rng = ctx.rng
    reqs, metas = [], []

    # aimed: the constructor must refuse these (C06's dead-end clause, on which the filling theorems rest); when it accepts
    # one, the filling functions are asked on it and the crash / the missing filling is the failing input
    for spec in AIMED_DEAD_ENDS:
        try:
            sc, sts = Schema({"nodes": {k: dict(v) for k, v in spec.items()}}), "ok"
        except (SyntaxError, ValueError):
            sc, sts = None, "refused"
        ctx.count("aimed-dead-end:" + ("accepted" if sts == "ok" else "refused"))
        if sts == "ok":
            top = sc.nodes["doc"]
            stf, fl = outcome(lambda: top.content_match.fill_before(Fragment.empty, True))
            stc, cf = outcome(lambda: top.create_and_fill())
            ctx.violation("accepted-dead-end", "Schema() accepted a content expression with a required position that only a non-generatable node "
                          f"can fill; fill_before(<>, True) at the top node: {stf} {str(fl)[:80]}; create_and_fill(): {stc} {str(cf)[:80]}",
                          {"schema": "aimed", "nodes": spec})

    def flush():
        outs = ctx.driver.run(reqs) if reqs else []
        for req, (op, replay, impl), out in zip(reqs, metas, outs):
            ctx.count("model_requests")
            if op == "createAndFill":
                if out != impl:
                    ctx.mismatch("create_and_fill (exact)", replay, impl, out)
                continue
            if op == "defaultType":
                if out.get("ok", "ERR") != impl:
                    ctx.mismatch("default_type (exact)", replay, impl, out)
                continue
            if op == "schemaHyps":
                # the schema-level guards of the theorems, measured on every schema the constructor accepted: every content
                # automaton deterministic and in range (hdet / DfaWF / WrapWF), and LIVE — from every reachable state a valid end
                # can be reached through generatable nodes — which is what the constructor's dead-end check promises
                # (C06: "required positions that only non-generatable nodes can fill are rejected") and what
                # createAndFill_nothing_iff / createAndFill_raises assume
                h = out.get("ok") or {}
                for k in ("det", "inRange", "live"):
                    ctx.count(f"hyp:{k}:{h.get(k)}")
                if h.get("live") is False:
                    ctx.violation("accepted-dead-end", "Schema() accepted a schema in which some content expression has a state that cannot "
                                  "reach a valid end through generatable nodes: filling there can only fail or crash", replay)
                elif not (h.get("det") and h.get("inRange")):
                    ctx.mismatch("schema hypotheses", replay, "deterministic, in-range automata", h)
                continue
            if "ok" not in out:
                ctx.mismatch(op, replay, "answer", out)
                continue
            o = out["ok"]
            if op == "fill":
                if impl and o.get("implIsFill") is not True:
                    ctx.mismatch("isFill(real answer)", replay, True, o)
                if o.get("model") is not None and o.get("modelIsFill") is not True:
                    ctx.mismatch("isFill(model answer)", replay, True, o)
                if (o.get("model") is None) != (not impl):
                    ctx.mismatch("fill some/none", replay, "some" if impl else "none", o)
            else:
                if impl is not None and o.get("implIsChain") is not True:
                    ctx.mismatch("isWrapChain(real answer)", replay, True, o)
                # exact: compute_wrapping's answer is a function of the edge order of the automata (FIFO queue,
                # `for i in range(len(match.next))`, seen-marking at append time), which the model follows step by step
                if o.get("model") != impl:
                    ctx.mismatch("wrap chain (exact)", replay, impl, o)
        del reqs[:], metas[:]

    fam = schemas.family()
    for si in range(ctx.budget(70, 300)):
        if len(reqs) >= 15000:
            flush()     # keep memory bounded in long runs
        info = fam[si % len(fam)] if si < len(fam) or rng.random() < 0.2 else \
            ((schemas.layered_schema(rng) if rng.random() < 0.3 else None) or schemas.random_schema(rng))
        schema = info.schema
        ctx.driver.add_schema(info)
        reqs.append({"op": "schemaHyps", "s": info.lean_id})
        metas.append(("schemaHyps", {"schema": info.name, "nodes": {k: {kk: vv for kk, vv in v.items() if kk in ("content", "group", "attrs", "inline")}
                                                                   for k, v in info.schema.spec["nodes"].items()}}, None))
        types = list(schema.nodes.values())
        gens = [t for t in types if generatable(t)]
        wrappers = [t for t in types if wrap_ok(t)]
        docs = [gen.gen_doc(rng, schema, budget=rng.choice([6, 12])) for _ in range(3)]
        frags = [n.content for d in docs for n in all_nodes(d)]
        for t in types:
            if t.is_text:
                continue
            sts = states_of(t.content_match)
            for qi, m in enumerate(sts):
                if ctx.time_left() < 0:
                    break
                # ---- default_type: the first generatable type the state offers (exact tie + the definition read off `next`)
                std, dt = outcome(lambda: m.default_type)
                exp_dt = next((e.type for e in m.next if generatable(e.type)), None)
                ctx.count("default_type:" + ("some" if dt is not None else "none"))
                if std != "ok" or dt is not exp_dt:
                    ctx.violation("default_type", "default_type is not the first type the state offers that is neither text nor needs attributes",
                                  {"schema": info.name, "type": t.name, "content": t.spec.get("content"), "state": qi,
                                   "got": getattr(dt, "name", str(dt)), "expected": getattr(exp_dt, "name", None)})
                if std == "ok":
                    reqs.append({"op": "defaultType", "s": info.lean_id, "type": info.nid[t.name], "state": qi})
                    metas.append(("defaultType", {"schema": info.name, "type": t.name, "state": qi}, None if dt is None else info.nid[dt.name]))
                # ---- fill_before
                for _ in range(ctx.budget(2, 5)):
                    after = rng.choice(frags) if rng.random() < 0.7 else Fragment.empty
                    start = rng.randint(0, after.child_count)
                    to_end = rng.random() < 0.5
                    after_types = [c.type for c in after.content[start:]]
                    st, fill = outcome(lambda: m.fill_before(after, to_end, start))
                    replay = {"schema": info.name, "type": t.name, "content": t.spec.get("content"), "state": qi,
                              "after": [x.name for x in after_types], "to_end": to_end}
                    ctx.case(["fill", info.name, t.name, qi, replay["after"], to_end],
                             sample={"op": "fill_before", **replay})
                    if st != "ok":
                        ctx.violation("fill-raises", f"fill_before raised {fill}", replay)
                        continue
                    ctx.count("fill:" + ("some" if fill is not None else "none"))
                    impl_types = None
                    if fill is not None:
                        impl_types = [c.type for c in fill.content]
                        fin = run_match(m, impl_types + after_types)
                        ok = all(generatable(x) for x in impl_types) and fin is not None and (not to_end or fin.valid_end)
                        if not ok:
                            ctx.violation("fill-unsound", "fill_before returned nodes that do not make the sequence match (or non-generatable nodes)",
                                          dict(replay, fill=[x.name for x in impl_types]))
                        for c in fill.content:
                            stc, err = outcome(c.check)
                            if stc != "ok":
                                ctx.violation("fill-invalid-node", f"a filler node is not schema-valid: {err}", dict(replay, node=c.to_json()))
                    else:
                        bf = brute_fill(m, after_types, to_end, gens, 4 if len(gens) <= 6 else 3)
                        if bf is not None:
                            ctx.violation("fill-incomplete", "fill_before returned nothing although a filling exists",
                                          dict(replay, filling=[x.name for x in bf]))
                    reqs.append({"op": "fill", "s": info.lean_id, "ty": info.nid[t.name], "q": qi,
                                 "after": [info.nid[x.name] for x in after_types], "toEnd": to_end,
                                 "impl": None if impl_types is None else [info.nid[x.name] for x in impl_types]})
                    metas.append(("fill", replay, impl_types is not None))
                # ---- find_wrapping
                def ask_wrap(target, again=None):
                    st, chain = outcome(lambda: m.find_wrapping(target))
                    replay = {"schema": info.name, "type": t.name, "content": t.spec.get("content"), "state": qi, "target": target.name}
                    if again is not None:
                        replay["asked_before_on_this_state"] = again
                        ctx.count("wrap:asked-again")
                    ctx.case(["wrap", info.name, t.name, qi, target.name], sample={"op": "find_wrapping", **replay})
                    if st != "ok":
                        ctx.violation("wrap-raises", f"find_wrapping raised {chain}", replay)
                        return
                    ctx.count("wrap:" + ("none" if chain is None else "len%d" % len(chain)))
                    if chain is not None:
                        if not is_chain(m, target, chain):
                            ctx.violation("wrap-unsound", "find_wrapping returned a chain that does not fit", dict(replay, chain=[x.name for x in chain]))
                        bw = brute_wrap(m, target, wrappers, min(3, len(chain)))
                        if bw is not None and len(bw) < len(chain):
                            ctx.violation("wrap-not-shortest", "a shorter wrapper chain exists", dict(replay, chain=[x.name for x in chain], shorter=[x.name for x in bw]))
                    else:
                        bw = brute_wrap(m, target, wrappers, 3 if len(wrappers) <= 7 else 2)
                        if bw is not None:
                            ctx.violation("wrap-incomplete", "find_wrapping returned nothing although a chain exists", dict(replay, chain=[x.name for x in bw]))
                    reqs.append({"op": "wrap", "s": info.lean_id, "ty": info.nid[t.name], "q": qi, "target": info.nid[target.name],
                                 "impl": None if chain is None else [info.nid[x.name] for x in chain]})
                    metas.append(("wrap", replay, None if chain is None else [info.nid[x.name] for x in chain]))
                asked = rng.sample(types, min(len(types), ctx.budget(3, 6)))
                for target in asked:
                    ask_wrap(target)
                # the same questions once more on the same state object, after other targets were asked (answers are remembered
                # per state: a remembered answer must still be a sound, shortest answer to *this* target — same oracles, same tie)
                if rng.random() < 0.5:
                    for target in rng.sample(asked, min(2, len(asked))):
                        ask_wrap(target, again=[x.name for x in asked])
            # ---- create_and_fill
            for content in cf_contents(rng, schema, frags) + cf_partial_contents(rng, docs, t):
              attrs = gen.gen_attrs(rng, t) if (t.has_required_attrs() or rng.random() < 0.3) else None
              # node marks: a canonical set (check() demands one), sometimes handed over in reverse order (set_from sorts)
              marks = gen.gen_marks(rng, schema, rng.choice(types), 0.4) if rng.random() < 0.5 else None
              if marks and len({m.type.rank for m in marks}) == len(marks) and rng.random() < 0.5:
                  marks = list(reversed(marks))
              st, node = outcome(lambda: t.create_and_fill(attrs, content, marks))
              replay = {"schema": info.name, "type": t.name, "content": content.to_json(), "attrs": attrs,
                        "marks": None if marks is None else [m.to_json() for m in marks]}
              ctx.case(["create_and_fill", info.name, t.name, content.to_json(), attrs, replay["marks"]])
              if st != "ok":
                  ctx.violation("create_and_fill-raises", f"create_and_fill raised {node}", replay)
              elif node is not None:
                  stc, err = outcome(node.check)
                  kids = [c for c in node.content.content]
                  given = list(content.content)
                  it = iter(kids)
                  in_order = all(any(g.eq(k) for k in it) for g in given)
                  inner_ok = all(outcome(g.check)[0] == "ok" for g in given)
                  if (stc != "ok" and inner_ok) or not in_order:
                      ctx.violation("create_and_fill", f"create_and_fill result invalid ({err}) or does not contain the given content in order",
                                    dict(replay, result=node.to_json()))
                  ctx.count("create_and_fill:some")
                  if len(kids) > len(given):
                      ctx.count("create_and_fill:some:with-fillers")
              else:
                  ctx.count("create_and_fill:none")
              reqs.append({"op": "createAndFill", "s": info.lean_id, "ty": info.nid[t.name], "attrs": info.attrs(t, attrs),
                           "content": info.frag(content), "marks": info.marks(marks or [])})
              metas.append(("createAndFill", replay, built_answer(info, st, node)))
        # the edge of the model's universe: on the text type the code returns a plain Node of the text type (no oracle here)
        tt = schema.nodes["text"]
        st, node = outcome(lambda: tt.create_and_fill())
        ctx.count("create_and_fill:text-type")
        reqs.append({"op": "createAndFill", "s": info.lean_id, "ty": info.nid["text"], "attrs": [], "content": [], "marks": []})
        metas.append(("createAndFill", {"schema": info.name, "type": "text"}, built_answer(info, st, node)))
    flush()
    return ctx.finish(
        rule="a case is (schema, node type, match state, following fragment + start index, to_end) for fill_before, "
             "(schema, node type, match state, target type) for find_wrapping — every state of every content automaton of the "
             "bundled-family and random schemas — or (type, content) for create_and_fill; distinct by content")


if __name__ == "__main__":
    core.main("C15", run)
