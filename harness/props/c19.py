"""C19 — HTML import is total and schema-valid; export then import is the identity.

Only part of this property is logic a model can carry; the rest lives in lxml, cssselect and `re`.
Import side (PM/FromDom.lean): `ParseContext.matches_context` (exact tie on real ParseContext objects with generated
stacks x generated expressions; theorem matchesContext_spec) and the node-placement core (find_place, insert_node,
enter, enter_inner, close_extra, sync, finish, NodeContext.find_wrapping / finish, pending / active / stash marks),
tied by recorded events of real `parse` / `parse_slice` runs (theorems placement_match_coherent,
placement_finish_valid_partial).
Lean part (Props/C19.lean): the escaping contract of the serializer (`unescape (escape s) = s`, output
free of raw `< > & "`) and the mark-nesting discipline of `serialize_fragment` (model PM/Dom.lean),
tied by exact correspondence of the serialised HTML of generated documents.
Whole-parse tie (PM/DomWalk.lean): the DOM walk itself — add_all / add_dom / add_text_node / add_element /
add_element_by_rule / read_styles / leaf_fallback / ignore_fallback / normalize_list / match_tag / match_style — runs in the
model over an oracle-annotated abstract DOM (the oracle holds only lxml / cssselect / `re` / callback answers); for every
generated HTML the model's list of calls into the placement core and its final document are compared with the real parse
(theorems parse_total, parse_valid, parse_no_internal, context_rules_apply_exactly in Props/C19.lean); `schema_rules` ordering is
tied too (schema_rules_order), and the decidable guards of parse_no_internal are evaluated on every input of the tie.
Export→import tie (PM/RoundTrip.lean): for every generated document of the bundled schemas the model serialises it (applying the
evaluated `toDOM` outputs), fills the walk's oracle in by itself from the emitted DOM and the parse rules in restricted form
(`tag[attr]` selectors, attribute-copying `get_attrs`), and parses; compared exactly with the real run: the HTML, the oracle-annotated
abstract DOM (snapshot of the real parse of the real HTML), the parsed document.  Relation: the decidable hypothesis `rtOk` of the
round-trip theorem (faithful rules + whitespace-normal text) implies that the real round trip is the identity; cases are counted per
node kind (`roundtrip_kind:*`).  Theorem: roundtrip (rtOk R D doc -> roundTrip R D doc = ok doc; Props/C19.lean), with the
roundtrip_*_partial theorems as its lemmas; every `rtOk` case of the tie is an instance of it.
Bundled schemas as data (harness/rt_tables.py, lean/Gen/RoundTrip.lean, lean/Family/C19RoundTrip.lean): the parse rules in restricted
form and the `toDOM` functions of the basic and list schemas are read off the running library as tables (`toDOM` by probing with marker
attribute values, plus the attribute patterns where the function branches); the translator writes them as Lean literals (`rBasic`,
`dtBasic`, …) and the family phase has the kernel decide the schema part `rtSchemaOk` of the theorem's hypothesis for them
(`basic_rtSchemaOk`, `list_rtSchemaOk`), which closes the theorem to `roundtrip_basic / roundtrip_list : rtDocOk … doc → roundTrip … doc
= ok doc`.  The round-trip requests of this check carry *these tables* (not per-document outputs): `roundtrip_schema_tie` checks that the
generated file is the rendering of the request tables and that the driver's `rtSchemaOk` is what the generated theorem states; per
document the tables are compared with the real `toDOM` outputs of every node and mark (`todom_template:*`) and with the rules of the
recorded real parse, the driver evaluates the document part `rtDocOk` (= `rtOk` under the schema part), and `rtDocOk` with the real
HTML equal to the tables' HTML but a real round trip that is not the identity is a VIOLATION (`roundtrip-theorem`).
Search (named as such): termination (per-call alarm) and no-crash of lxml / cssselect / `re` on generated HTML; validity of the parsed
document (check() + independent validator); context-restricted rules apply exactly where the open
ancestors match; serialise → parse round trip on whitespace-normal documents of the bundled schemas.
"""
import html as html_mod
import json
import os
import re

import lxml.html

from prosemirror.model import DOMParser, DOMSerializer, Fragment, Node, Schema
from prosemirror.model import from_dom as from_dom_mod
from prosemirror.model.from_dom import NodeContext, ParseContext, ParseOptions, from_html
from prosemirror.schema.basic import schema as basic_schema
from prosemirror.test_builder import test_schema as list_schema

from .. import codec, core, gen, rt_tables, schemas
from ..core import outcome
from ..validator import validator

BLOCK = ["p", "h1", "h2", "h3", "h6", "blockquote", "pre", "ul", "ol", "li", "hr", "div", "section", "table", "tr", "td"]
INLINE = ["em", "i", "strong", "b", "code", "a", "img", "br", "span", "u"]
IGNORABLE = ["script", "style", "title"]
STYLES = ["font-weight: bold", "font-style:italic", "font-weight:400;font-style: italic", "color: red", "font-weight", ""]
WORDS = ["foo", "bar", "a", "x y", " lead", "trail ", "two  spaces", "new\nline", "&amp;", "&lt;b&gt;", "é😀", "tab\there",
         "10\u00a0km", "\u00a0indented", "em\u2003space", "&nbsp;x",
         # control characters the HTML parser lets through: form feed (HTML white space), vertical tab, a C0 control
         "form&#12;feed", "v&#11;tab", "ctl&#1;x", "raw\x0cff"]



_CTL = re.compile("[\x00-\x08\x0b\x0c\x0e-\x1f]")


def html_fragment(html):
    """the DOM of an HTML fragment under a `document-fragment` root, as `from_html` builds it: lxml's own
    `fragment_fromstring(create_parent=…)` refuses leading text with control characters, so the root is made here and the
    leading text stored XML-compatible (form feed / vertical tab -> space, other C0 controls -> U+FFFD)"""
    parts = lxml.html.fragments_fromstring(html)
    root = lxml.html.Element("document-fragment")
    if parts and isinstance(parts[0], str):
        root.text = _CTL.sub(lambda m: " " if m.group() in "\x0b\x0c" else "\ufffd", parts.pop(0))
    root.extend(parts)
    return root


def gen_html(rng, depth=0):
    parts = []
    for _ in range(rng.randint(0, 4 if depth else 5)):
        r = rng.random()
        if r < 0.3:
            parts.append(rng.choice(WORDS))
        elif r < 0.35:
            parts.append(rng.choice([" ", "\n", "\n   ", "  "]))
        elif r < 0.38:
            parts.append("<!-- c -->")
        else:
            tag = rng.choice(BLOCK if rng.random() < 0.45 else INLINE) if rng.random() < 0.93 else rng.choice(IGNORABLE)
            attrs = ""
            if tag == "a" and rng.random() < 0.8:
                attrs += ' href="%s"' % rng.choice(["foo", "http://x/?a=1&amp;b=2", ""])
            if tag == "a" and rng.random() < 0.3:
                attrs += ' title="t"'
            if tag == "img" and rng.random() < 0.8:
                attrs += ' src="%s"' % rng.choice(["img.png", "a b.png"])
            if tag == "img" and rng.random() < 0.3:
                attrs += ' alt="x" title="y"'
            if tag == "ol" and rng.random() < 0.3:
                attrs += ' start="3"'
            if rng.random() < 0.25:
                attrs += ' style="%s"' % rng.choice(STYLES)
            if tag in ("hr", "br", "img"):
                parts.append(f"<{tag}{attrs}>")
            elif depth >= 4:
                parts.append(f"<{tag}{attrs}>{rng.choice(WORDS)}</{tag}>")
            else:
                parts.append(f"<{tag}{attrs}>{gen_html(rng, depth + 1)}</{tag}>")
    return "".join(parts)


def spec_json(structure):
    """a toDOM output spec in the driver's encoding (attribute values as the strings str() would give)"""
    if isinstance(structure, str):
        return ["s", structure]
    if structure == 0:
        return ["h"]
    tag = structure[0]
    attrs, start = [], 1
    if len(structure) > 1 and isinstance(structure[1], dict):
        start = 2
        attrs = [[k, None if v is None else (v if isinstance(v, str) else str(v))] for k, v in structure[1].items()]
    return ["e", tag, attrs, [spec_json(c) for c in structure[start:]]]


def snode_json(ser, node, ids):
    marks = []
    for m in node.marks:
        key = (m.type.name, json.dumps(m.attrs, sort_keys=True, default=str))
        mid = ids.setdefault(key, len(ids))
        to_dom = ser.marks.get(m.type.name)
        marks.append([mid, spec_json(to_dom(m, node.is_inline)) if to_dom else None, m.type.spec.get("spanning") is not False])
    spec = spec_json(ser.nodes[node.type.name](node))
    return {"marks": marks, "spec": spec, "kids": [snode_json(ser, c, ids) for c in node.content.content]}


def context_schema():
    nodes = {k: dict(v) for k, v in basic_schema.spec["nodes"].items()}
    nodes["quote_para"] = {"content": "inline*", "group": "block",
                           "parseDOM": [{"tag": "p", "context": "blockquote/", "priority": 60}],
                           "toDOM": lambda _: ["p", {"class": "q"}, 0]}
    nodes["deep_para"] = {"content": "inline*", "group": "block",
                          "parseDOM": [{"tag": "p", "context": "blockquote//|blockquote/blockquote/", "priority": 70}],
                          "toDOM": lambda _: ["p", {"class": "d"}, 0]}
    # a context anchored at the root with a `//` wildcard: matches everywhere, so every <h6> becomes a rooted_para
    nodes["rooted_para"] = {"content": "inline*", "group": "block",
                            "parseDOM": [{"tag": "h6", "context": "doc//", "priority": 80}],
                            "toDOM": lambda _: ["h6", {"class": "r"}, 0]}
    return Schema({"nodes": nodes, "marks": {k: dict(v) for k, v in basic_schema.spec["marks"].items()}})


# ---------------------------------------------------------------------------------------------
# generated context-rule schemas: parse rules restricted by context expressions of every form (`a/`, `a/b/`, `a//`,
# `a//b/`, `a/b//`, group names, `x|y`) over a vocabulary in which places of equal depth and equal innermost open node have
# different outer ancestors (bullet_list / ordered_list / blockquote nest freely), and HTML that visits such places in one
# document.  Oracle on the result (`context_rule_audit`): every marked leaf element became the node type of the first rule for
# its tag whose expression matches the ancestors the node has in the result.

CTX_UNITS = {"ul": ["bullet_list", "list_item"], "ol": ["ordered_list", "list_item"], "bq": ["blockquote"]}
CTX_LEAF_TAGS = ["p", "aside", "section", "h6", "figure"]


def ctx_chain_types(chain):
    return [n for u in chain for n in CTX_UNITS[u]]


def gen_ctx_chain(rng, lo=1, hi=3):
    return [rng.choice(["ul", "ol", "bq", "ul", "ol"]) for _ in range(rng.randint(lo, hi))]


def gen_wellformed_context(rng, tail=()):
    """a context expression in documented form, read off a chain of ancestors that the HTML generator can produce (so that it
    matches somewhere and fails elsewhere); `tail`: names that may follow the containers (the textblock, for mark rules)"""
    def one():
        names = ["doc"] + ctx_chain_types(gen_ctx_chain(rng)) + ([rng.choice(tail)] if tail and rng.random() < 0.7 else [])
        k = rng.randint(1, min(3, len(names)))
        parts = names[-k:]
        for i in range(len(parts)):
            r = rng.random()
            if r < 0.12 and parts[i] in ("blockquote", "bullet_list", "ordered_list"):
                parts[i] = "block"                 # a group name
            elif r < 0.3 and 0 < i:
                parts[i] = ""                      # `a//b`: any number of ancestors in between
        if parts[0] == "":
            parts[0] = names[-k]
        e = "/".join(parts)
        return e + ("//" if rng.random() < 0.3 else "/")
    alts = [one() for _ in range(1 if rng.random() < 0.7 else 2)]
    return rng.choice(["|", " | ", "| "]).join(alts)


def gen_context_rule_schema(rng):
    """basic + list nodes + 2–4 textblock types that only context-restricted rules create (one or two rules each, on a small set
    of tags, different priorities), sometimes an unrestricted fallback type for a tag; a mark with context-restricted tag and style
    rules.  Returns (schema, table, leaf tags, auditable) — the table lists the context rules for the replay."""
    from prosemirror.schema.list import add_list_nodes
    # (with `paragraph block*` items a block that is not a paragraph cannot stand first in an item: the parser then closes or
    # drops open nodes, and the ancestors of the result are not the ancestors that were open — tie only, no audit)
    item_content = "block+" if rng.random() < 0.7 else "paragraph block*"
    nodes = add_list_nodes({k: dict(v) for k, v in basic_schema.spec["nodes"].items()}, item_content, "block")
    nodes = {k: dict(v) for k, v in nodes.items()}
    marks = {k: dict(v) for k, v in basic_schema.spec["marks"].items()}
    tags = rng.sample(CTX_LEAF_TAGS, rng.randint(2, 3))
    if "p" not in tags and rng.random() < 0.7:
        tags[0] = "p"
    table = []
    prios = rng.sample(range(55, 95), 12)
    for i in range(rng.randint(2, 4)):
        name = "probe%d" % i
        rules = []
        for _ in range(rng.randint(1, 2)):
            rule = {"tag": rng.choice(tags), "context": gen_wellformed_context(rng), "priority": prios.pop()}
            rules.append(rule)
            table.append([rule["tag"], rule["context"], name, rule["priority"]])
        nodes[name] = {"content": "inline*", "group": "block", "parseDOM": rules, "toDOM": lambda _: ["div", 0]}
    for t in tags:
        if t not in ("p", "h6") and rng.random() < 0.5:
            nodes["plain_" + t] = {"content": "inline*", "group": "block", "parseDOM": [{"tag": t}], "toDOM": lambda _: ["div", 0]}
            table.append([t, None, "plain_" + t, 50])
    blocks = ["paragraph", "block"] + [n for n in nodes if n.startswith("probe")]
    mrules = [{"tag": "u", "context": gen_wellformed_context(rng, blocks), "priority": prios.pop()}]
    if rng.random() < 0.5:
        mrules.append({"tag": "u", "context": gen_wellformed_context(rng, blocks), "priority": prios.pop()})
    if rng.random() < 0.6:
        mrules.append({"style": "color", "context": gen_wellformed_context(rng, blocks)})
    marks["ctxmark"] = {"parseDOM": mrules, "toDOM": lambda _, __: ["u", 0]}
    for r in mrules:
        table.append([r.get("tag") or "style:" + r["style"], r["context"], "mark ctxmark", r.get("priority", 50)])
    return Schema({"nodes": nodes, "marks": marks}), table, tags, item_content == "block+"


def gen_ctx_html(rng, tags):
    """well-formed HTML over ul / ol / li / blockquote with marked leaves: leaf k is `<tag>w{k} …</tag>`, optionally with a
    `<u>m{k}</u>` / `<span style="color: red">c{k}</span>` piece.  Block tags stand only where blocks may stand and text only in
    leaves, so placement never closes or wraps anything and a node's ancestors in the result are the nodes that were open when
    its element was matched.  Most fragments contain *twin places*: the same leaves under two or three chains of equal depth and
    equal innermost container but different outer ancestors."""
    counter = [0]

    def leaf(tag=None):
        counter[0] += 1
        k = counter[0]
        tag = tag or rng.choice(tags + ["p"])
        body = "w%d" % k
        r = rng.random()
        if r < 0.3:
            body += " <u>m%d</u>" % k
        elif r < 0.4:
            body += ' <span style="color: red">c%d</span>' % k
        elif r < 0.45:
            body = "<u>m%d</u>" % k
        return f"<{tag}>{body}</{tag}>"

    def wrap(chain, inner):
        for u in reversed(chain):
            inner = f"<blockquote>{inner}</blockquote>" if u == "bq" else f"<{u}><li>{inner}</li></{u}>"
        return inner

    def blocks(depth):
        out = []
        for _ in range(rng.randint(1, 2 if depth else 3)):
            r = rng.random()
            if r < 0.45 or depth >= 3:
                out.append(leaf())
            elif r < 0.65:
                out.append("<blockquote>" + blocks(depth + 1) + "</blockquote>")
            else:
                u = rng.choice(["ul", "ol"])
                out.append(f"<{u}>" + "".join("<li>" + blocks(depth + 1) + "</li>" for _ in range(rng.randint(1, 2))) + f"</{u}>")
        return "".join(out)

    items = []
    if rng.random() < 0.8:
        a = gen_ctx_chain(rng)
        depth = len(ctx_chain_types(a))
        twins = [a]
        for _ in range(40):
            b = gen_ctx_chain(rng)
            if len(ctx_chain_types(b)) == depth and CTX_UNITS[b[-1]][-1] == CTX_UNITS[a[-1]][-1] and b not in twins:
                twins.append(b)
                if len(twins) == 3 or rng.random() < 0.6:
                    break
        leaf_tags = [rng.choice(tags + ["p"]) for _ in range(rng.randint(1, 2))]
        for ch in twins:
            items.append(wrap(ch, "".join(leaf(t) for t in leaf_tags)))
    for _ in range(rng.randint(0, 2)):
        items.append(blocks(0))
    rng.shuffle(items)
    html = "".join(items)
    if rng.random() < 0.25:
        html = wrap(gen_ctx_chain(rng, 1, 1), html)
    return html


def ref_context_match(expr, anc):
    """documented meaning of a context expression, as a forward match: `anc` are the open ancestors, outermost first (node
    types); the expression describes the innermost ones — names or group names separated by `/`, an empty segment (`//`) standing
    for any number of ancestors, alternatives separated by `|`"""
    for alt in re.split(r"\s*\|\s*", expr):
        parts = alt.split("/")
        if parts and parts[-1] == "":
            parts.pop()

        def ok(i, j):
            if i == len(parts):
                return j == len(anc)
            if parts[i] == "":
                return any(ok(i + 1, k) for k in range(j, len(anc) + 1))
            return j < len(anc) and (anc[j].name == parts[i] or parts[i] in anc[j].groups) and ok(i + 1, j + 1)
        if any(ok(0, j) for j in range(len(anc) + 1)):
            return True
    return False


def context_rule_audit(parser, doc, html, tags):
    """problems of a parsed gen_ctx_html document: a marked leaf whose node type is not the one the rules dictate for the
    ancestors it has, a marked inline piece that carries / lacks the context-restricted mark against its rules"""
    bad = []
    leaf_tags = list(tags) + ["p"]
    node_rules = {}
    for r in parser._tags:
        if r.tag in leaf_tags and r.node:
            node_rules.setdefault(r.tag, []).append(r)
    mark_tag_rules = [r for r in parser._tags if r.tag == "u" and r.mark == "ctxmark"]
    mark_style_rules = [r for r in parser._styles if r.mark == "ctxmark"]
    src = {k: tag for tag, k in re.findall(r"<(\w+)>(?:<u>)?[wm](\d+)", html) if tag in leaf_tags}
    seen = set()

    def path(anc):
        return "/".join(t.name for t in anc)

    def walk(node, anc):
        if node.is_textblock:
            txt = node.text_content
            m = re.match(r"[wm](\d+)", txt)
            tag = src.get(m.group(1)) if m else None
            want = None
            if tag is not None:
                seen.add(m.group(1))
                rules = node_rules.get(tag, [])
                want = next((r.node for r in rules if not r.context or ref_context_match(r.context, anc)), None)
                owners = {r.node for r in rules if r.context}
                if want is not None and node.type.name != want:
                    bad.append(f"<{tag}> with text {txt!r} under {path(anc)} became {node.type.name}; the first rule for "
                               f"<{tag}> whose context matches these ancestors gives {want}")
                elif want is None and node.type.name in owners:
                    bad.append(f"<{tag}> with text {txt!r} under {path(anc)} became {node.type.name} although no "
                               f"context of its rules matches these ancestors")
            inner = anc + [node.type]
            for c in node.content.content:
                # (a leaf element that no rule takes is transparent: its textblock is the wrapper made when the first text
                # arrives, so it may or may not have been open when an inline element was matched — not judged)
                if not c.is_text or tag is None or want is None:
                    continue
                has = any(mk.type.name == "ctxmark" for mk in c.marks)
                for piece in re.findall(r"[wmc]\d+", c.text):
                    rules = mark_tag_rules if piece[0] == "m" else mark_style_rules if piece[0] == "c" else []
                    want_mark = any(ref_context_match(r.context, inner) for r in rules)
                    if has != want_mark:
                        bad.append(f"text {piece!r} under {path(inner)} {'carries' if has else 'lacks'} the mark whose "
                                   f"rules {[r.context for r in rules]} {'do not match' if has else 'match'} these ancestors")
            return
        for c in node.content.content:
            if not c.is_text and not c.is_leaf:
                walk(c, anc + [node.type])
    walk(doc, [])
    if len(seen) != len(src):
        bad.append(f"leaves {sorted(set(src) - seen)} of the HTML are not textblocks of the result")
    return bad


def fill_schema():
    """content expressions that need filling at `finish` (a section starts with a heading, a row has exactly two cells)
    and wrappers found through several levels"""
    nodes = {k: dict(v) for k, v in basic_schema.spec["nodes"].items()}
    nodes["doc"] = {"content": "section+"}
    nodes["section"] = {"content": "heading block*", "parseDOM": [{"tag": "section"}], "toDOM": lambda _: ["section", 0]}
    nodes["table"] = {"content": "row+", "group": "block", "parseDOM": [{"tag": "table"}], "toDOM": lambda _: ["table", 0]}
    nodes["row"] = {"content": "cell{2}", "parseDOM": [{"tag": "tr"}], "toDOM": lambda _: ["tr", 0]}
    nodes["cell"] = {"content": "block+", "parseDOM": [{"tag": "td"}], "toDOM": lambda _: ["td", 0]}
    return Schema({"nodes": nodes, "marks": {k: dict(v) for k, v in basic_schema.spec["marks"].items()}})


def strip_schema():
    """a content expression that *requires* a trailing text: NodeContext.finish strips a whitespace-only last text node
    after `match` has advanced over it, so `<figure><br><img src="a"> </figure>` parses to an invalid fig(hard_break, image).
    Used for the model tie only (the model must reproduce the invalid document); TextStable fails for this schema."""
    nodes = {k: dict(v) for k, v in basic_schema.spec["nodes"].items()}
    nodes["fig"] = {"content": "hard_break image? (text | hard_break)", "group": "block", "parseDOM": [{"tag": "figure"}],
                    "toDOM": lambda _: ["figure", 0]}
    return Schema({"nodes": nodes, "marks": {k: dict(v) for k, v in basic_schema.spec["marks"].items()}})


EDGE_HTML = ['<figure><br><img src="a"> </figure>', '<figure><br><img src="a">x</figure>', '<figure><br><img src="a"></figure>',
             '<figure> <br> <img src="a"> <b> </b></figure>', '<p>a</p><figure><br> </figure> <figure></figure>']


def whitespace_normal(doc):
    """text that HTML whitespace collapsing leaves alone: outside code blocks no tab/newline, no double space, and no
    space at the start or end of a textblock or next to a hard break / block boundary"""
    ok = [True]

    def f(n, pos, parent, i):
        if n.is_textblock:
            if n.type.spec.get("code"):
                for c in n.content.content:
                    if c.is_text and "\r" in c.text:
                        ok[0] = False
            else:
                txt = "".join(c.text if c.is_text else ("\x01" if c.type.name == "hard_break" else "\x00") for c in n.content.content)
                if re.search(r"[\t\r\n\u000c]|  |^ | $| \x01|\x01 ", txt):
                    ok[0] = False
        return True
    doc.descendants(f)
    return ok[0]


def carried_attrs(doc):
    """the bundled parse rules read link href, image src/title, heading level; everything else must be at its default"""
    ok = [True]

    def f(n, pos, parent, i):
        if n.type.name == "image" and (n.attrs.get("alt") is not None or not isinstance(n.attrs.get("src"), str)
                                       or not (n.attrs.get("title") is None or isinstance(n.attrs.get("title"), str))):
            ok[0] = False
        if n.type.name == "ordered_list" and n.attrs.get("order") != 1:
            ok[0] = False
        if n.type.name == "heading" and n.attrs.get("level") not in (1, 2, 3, 4, 5, 6):
            ok[0] = False
        for m in n.marks:
            if m.type.name == "link" and (m.attrs.get("title") is not None or not isinstance(m.attrs.get("href"), str)):
                ok[0] = False
        return True
    doc.descendants(f)
    return ok[0] and doc.attrs.get("meta") is None


# ---------------------------------------------------------------------------------------------
# tie of ParseContext.matches_context (PM/FromDom.lean: matchesContext)

PY_SPACES = [" ", " ", "  ", "\t", "\n", "\u00a0", "\u2003", "\x1c", "\x85", "\u3000", "\u200b"]   # the last one is NOT \s


def gen_context_expr(rng, info, visible):
    """a context expression: names / groups / unknown names, `/`, `//`, leading, trailing and doubled slashes, `|` with
    whitespace; biased towards expressions derived from the visible ancestors so that matches happen"""
    schema = info.schema
    names = list(schema.nodes.keys())
    groups = sorted({g for t in schema.nodes.values() for g in t.groups}) or ["block"]

    def one():
        parts = []
        if visible and rng.random() < 0.7:
            k = rng.randint(1, min(4, len(visible)))
            for t in visible[-k:]:
                r = rng.random()
                if r < 0.55:
                    parts.append(t.name)
                elif r < 0.75 and t.groups:
                    parts.append(rng.choice(t.groups))
                elif r < 0.9:
                    parts.append("")
                else:
                    parts.append(rng.choice(names + groups))
            if rng.random() < 0.3:
                parts.insert(rng.randint(0, len(parts)), "")
        else:
            for _ in range(rng.randint(0, 4)):
                r = rng.random()
                parts.append(rng.choice(names) if r < 0.45 else rng.choice(groups) if r < 0.65 else "" if r < 0.85
                             else rng.choice(["zzz", "Doc", "p", " ", "doc ", "block|"]).replace("|", ""))
        e = "/".join(parts)
        r = rng.random()
        if r < 0.45:
            e += "/"
        elif r < 0.6:
            e += "//"
        if rng.random() < 0.15:
            e = "/" + e
        if rng.random() < 0.07:
            e = "/" + e
        if rng.random() < 0.06:
            e = rng.choice(PY_SPACES) + e
        if rng.random() < 0.06:
            e = e + rng.choice(PY_SPACES)
        return e
    alts = [one() for _ in range(1 if rng.random() < 0.6 else rng.randint(2, 3))]
    out = alts[0]
    for a in alts[1:]:
        out += rng.choice(["", "", " "] + PY_SPACES) + "|" + rng.choice(["", "", " "] + PY_SPACES) + a
    return out


def context_tie(ctx, infos):
    """drive the real `ParseContext.matches_context` on real ParseContext objects whose stack of open NodeContexts (and
    `open`, `is_open`, `options.context`, `options.top_node`) is generated, and compare every answer with the model"""
    rng = ctx.rng
    reqs, metas = [], []
    for _ in range(ctx.budget(60, 600)):
        if ctx.time_left() < 0:
            break
        info = rng.choice(infos)
        schema = info.schema
        sid = ctx.driver.add_schema(info)
        parser = DOMParser.from_schema(schema)
        is_open = rng.random() < 0.25
        rp = None
        if rng.random() < 0.4:
            d = gen.gen_doc(rng, schema, budget=rng.choice([6, 12, 25]))
            rp = d.resolve(rng.randint(0, d.content.size))
        top_node = None
        if not is_open and rng.random() < 0.3:
            cands = [t for t in schema.nodes.values() if not t.is_leaf and not t.has_required_attrs()]
            if rp is not None and rng.random() < 0.6:
                top_node = rp.parent.type.create()
            else:
                top_node = rng.choice(cands).create()
        pc = ParseContext(parser, ParseOptions(context=rp, top_node=top_node), is_open)
        types = [t for t in schema.nodes.values() if not t.is_text]
        for _ in range(rng.choice([0, 0, 1, 2, 3, 4, 6])):
            t = rng.choice(types)
            pc.nodes.append(NodeContext(t, None, [], [], False, None, 0))
        pc.open = rng.randint(0, len(pc.nodes) - 1) if rng.random() < 0.5 else len(pc.nodes) - 1
        visible = []
        if rp is not None:
            visible += [rp.node(i).type for i in range(rp.depth + 1)]
        visible += [n.type for n in pc.nodes[:pc.open + 1] if n.type is not None]
        exprs = [gen_context_expr(rng, info, visible) for _ in range(8)]

        def ask():
            answers = []
            for e in exprs:
                st, v = outcome(lambda: pc.matches_context(e), 2.0)
                ctx.count("matches_context:" + (str(v) if st == "ok" else st))
                answers.append(v if st == "ok" else {"raised": st, "what": v})
                ctx.case(["matches_context", info.name, [n.type.name if n.type else None for n in pc.nodes], pc.open, is_open,
                          None if rp is None else [rp.node(i).type.name for i in range(rp.depth + 1)], e],
                         nontrivial=bool(e.strip("/ |")), sample={"op": "matches_context", "schema": info.name, "expr": e,
                                                                 "stack": [n.type.name if n.type else None for n in pc.nodes]})
            reqs.append({"op": "matchesContext", "s": sid,
                         "groups": [list(schema.nodes[n].groups) for n in info.node_names],
                         "nodes": [None if n.type is None else info.nid[n.type.name] for n in pc.nodes],
                         "open": pc.open, "isOpen": is_open,
                         "ctx": None if rp is None else [info.nid[rp.node(i).type.name] for i in range(rp.depth + 1)],
                         "exprs": exprs})
            metas.append(answers)
        ask()
        # the same ParseContext at another place of the same parse: nodes closed and others opened (the depth and the innermost
        # open node often the same as before, the ancestors in between different), the same expressions asked again
        for _ in range(rng.choice([0, 1, 1, 2])):
            r = rng.random()
            movable = [i for i in range(1, len(pc.nodes)) if i != pc.open]
            if r < 0.6 and movable:
                for i in rng.sample(movable, rng.randint(1, min(2, len(movable)))):
                    pc.nodes[i] = NodeContext(rng.choice(types), None, [], [], False, None, 0)
                ctx.count("matches_context:second-place-same-depth-and-top")
            elif r < 0.8 and len(pc.nodes) > 1:
                keep = rng.randint(1, len(pc.nodes) - 1)
                del pc.nodes[keep:]
                for _ in range(rng.randint(0, 3)):
                    pc.nodes.append(NodeContext(rng.choice(types), None, [], [], False, None, 0))
                pc.open = len(pc.nodes) - 1
                ctx.count("matches_context:second-place-reopened")
            else:
                pc.open = rng.randint(0, len(pc.nodes) - 1)
                ctx.count("matches_context:second-place-other-depth")
            ask()
    if reqs:
        outs = ctx.driver.run(reqs)
        for req, answers, out in zip(reqs, metas, outs):
            ctx.count("model_requests")
            got = out.get("ok")
            if got != answers:
                bad = [i for i in range(len(answers)) if not isinstance(got, list) or got[i] != answers[i]]
                ctx.mismatch("matchesContext", dict(req, first_bad_expr=req["exprs"][bad[0]] if bad else None), answers, got if got is not None else out)
            else:
                ctx.count("matches_context:agree", len(answers))



# ---------------------------------------------------------------------------------------------
# recorded-event tie of the placement core (PM/FromDom.lean part B)
#
# A subclass of the real ParseContext (installed as `from_dom.ParseContext` only while one recorded parse runs, in this
# process only) logs every *outermost* call the DOM walk makes into the placement core — insert_node, enter,
# find_place, add_pending_mark, remove_pending_mark, sync, close_extra — with its arguments, and every direct write
# of `open` / `needs_block` from outside those calls; after each event it notes what the call returned, `open` and
# `len(nodes)`.  NodeContext arguments (sync target, `upto`) are recorded as their index in `nodes` at call time;
# marks handed to add/remove_pending_mark carry an object-identity number (the code looks them up by identity).

REC = {"info": None, "instances": []}


def _enc_attrs(attrs):
    return None if attrs is None else [[k, codec.jval(v)] for k, v in attrs.items()]


class RecordingParseContext(ParseContext):
    def __init__(self, parser, options, is_open):
        self._depth = 1            # nothing is recorded during construction
        self._events, self._obs, self._mark_ids, self._keep = [], [], {}, []
        self._result = None
        self._info = REC["info"]
        self._snapshot = None       # the oracle-annotated abstract DOM, taken when the walk starts (first add_all)
        super().__init__(parser, options, is_open)
        self._depth = 0
        self._init = {"isOpen": bool(is_open), "pw": options.preserve_whitespace, "topOpen": bool(options.top_open)}
        self._supported = options.top_node is None and options.context is None and options.top_match is None
        REC["instances"].append(self)

    # -- direct writes from the DOM walk
    @property
    def open(self):
        return self.__dict__.get("_open", 0)

    @open.setter
    def open(self, v):
        self.__dict__["_open"] = v
        if self._depth == 0:
            self._note(["setOpen", v], None)

    @property
    def needs_block(self):
        return self.__dict__.get("_needs_block", False)

    @needs_block.setter
    def needs_block(self, v):
        self.__dict__["_needs_block"] = v
        if self._depth == 0:
            self._note(["setNeedsBlock", bool(v)], None)

    def _note(self, ev, ret):
        self._events.append(ev)
        self._obs.append([ret if isinstance(ret, bool) else None, self.open, len(self.nodes)])

    def _idx(self, cx):
        for i, n in enumerate(self.nodes):
            if n is cx:
                return i
        return None

    def _mid(self, mark):
        if id(mark) not in self._mark_ids:
            self._mark_ids[id(mark)] = len(self._mark_ids)
            self._keep.append(mark)     # keeps the object alive so that its id() is not reused
        return self._mark_ids[id(mark)]

    def _call(self, name, ev, *a, **k):
        orig = getattr(ParseContext, name)
        if self._depth > 0:
            return orig(self, *a, **k)
        event = ev()
        self._depth += 1
        try:
            r = orig(self, *a, **k)
        finally:
            self._depth -= 1
        self._note(event, r)
        return r

    def insert_node(self, node):
        return self._call("insert_node", lambda: ["insertNode", self._info.node(node)], node)

    def enter(self, type_, attrs=None, preserve_ws=None):
        return self._call("enter", lambda: ["enter", self._info.nid[type_.name], _enc_attrs(attrs), preserve_ws], type_, attrs, preserve_ws)

    def find_place(self, node):
        return self._call("find_place", lambda: ["findPlace", self._info.node(node)], node)

    def add_pending_mark(self, mark):
        return self._call("add_pending_mark", lambda: ["addPending", self._mid(mark), self._info.mark(mark)], mark)

    def remove_pending_mark(self, mark, upto):
        return self._call("remove_pending_mark", lambda: ["removePending", self._mid(mark), self._info.mark(mark), self._idx(upto)], mark, upto)

    def sync(self, to_):
        return self._call("sync", lambda: ["sync", self._idx(to_)], to_)

    def close_extra(self, open_end=False):
        return self._call("close_extra", lambda: ["closeExtra", bool(open_end)], open_end)

    def enter_inner(self, *a, **k):
        if self._depth == 0:
            self._supported = False      # never called by the DOM walk directly
        return ParseContext.enter_inner(self, *a, **k)

    def add_all(self, parent, start_index=None, end_index=None):
        if self._snapshot is None:
            # the tree the walk sees: `parse` has made its lxmltext nodes, `normalize_list` has not touched anything yet
            self._snapshot = False
            if REC.get("oracle") and start_index is None and end_index is None:
                try:
                    self._snapshot = DomOracle(self._info, self.parser).request(parent)
                except Exception as e:  # noqa: BLE001  (a callback of the oracle itself failed: no model request)
                    self._snapshot = {"_unsupported": "oracle: " + type(e).__name__ + ": " + str(e)[:100]}
        return ParseContext.add_all(self, parent, start_index, end_index)

    def finish(self):
        self._depth += 1
        try:
            self._result = ParseContext.finish(self)
        finally:
            self._depth -= 1
        return self._result


def recorded(info, fn, oracle=True):
    """run fn() with the recording subclass installed; returns (outcome, recorder instances)"""
    REC["info"], REC["instances"], REC["oracle"] = info, [], oracle
    saved = from_dom_mod.ParseContext
    from_dom_mod.ParseContext = RecordingParseContext
    try:
        res = outcome(fn, 5.0)
    finally:
        from_dom_mod.ParseContext = saved
    return res, REC["instances"]


def placement_request(info, sid, pc):
    return {"op": "placement", "s": sid, "wsPre": [info.schema.nodes[n].whitespace == "pre" for n in info.node_names],
            "isOpen": pc._init["isOpen"], "pw": pc._init["pw"], "topOpen": pc._init["topOpen"], "events": pc._events}


def placement_compare(ctx, replay, info, pc, out, kind):
    """model answer against the recorded run: the per-event observations and the final document / fragment"""
    ctx.count("placement:" + kind)
    ctx.count("placement_events", len(pc._events))
    if out.get("obs") != pc._obs:
        k = next((i for i, (a, b) in enumerate(zip(out.get("obs") or [], pc._obs)) if a != b), min(len(out.get("obs") or []), len(pc._obs)))
        ctx.mismatch("placement-observation", dict(replay, event_index=k, event=pc._events[k] if k < len(pc._events) else None),
                     pc._obs[k] if k < len(pc._obs) else None, (out.get("obs") or [None] * (k + 1))[k] if out.get("obs") and k < len(out["obs"]) else out.get("err", out))
        return
    res = pc._result
    if isinstance(res, Node):
        want = info.node(res)
        got = out.get("doc")
    else:
        want = info.frag(res)
        got = out.get("frag")
    if got != want:
        ctx.mismatch("placement-result", replay, want, got if got is not None else out)
    else:
        ctx.count("placement:agree")


# ---------------------------------------------------------------------------------------------
# whole-parse tie of the DOM walk (PM/DomWalk.lean: addAll / addDom / addTextNode / addElement / readStyles / …)
#
# The model walks an abstract DOM that carries, as an oracle, every answer the real walk gets from lxml / cssselect /
# `re` / Python callbacks: per element the tag rules whose selector + namespace match (`from_dom.matches`) with the
# answer of their `get_attrs`, the `content_element` subtree / `get_content` nodes; per `style` attribute the
# declarations (`from_dom.parse_styles`) with the answers of the style rules' `get_attrs`; per rule the graph of its
# `clear_mark` on every mark the rules can create here.  Everything else — which rule is tried when, `context`
# expressions, ignore / skip / close_parent / consuming, tag tables, `normalize_list`, whitespace handling, pending
# marks, every call into the placement core — is the model's.

LIST_RULE_RE = re.compile(r"^(ul|ol)\b")


def _ga(fn, arg):
    if fn is None:
        return None
    try:
        r = fn(arg)
    except Exception:  # noqa: BLE001
        return ["x"]
    if r is False:
        return False
    return ["a", _enc_attrs(r)]


class DomOracle:
    def __init__(self, info, parser):
        self.info, self.parser, self.schema = info, parser, parser.schema
        self.unsupported = None
        self.mark_seeds = []      # (mark name, attrs) every mark rule can be applied with here
        self.elements = 0
        self.features = set()
        for r in list(parser._tags) + list(parser._styles):
            if r.mark is not None and r.get_attrs is None:
                self.mark_seeds.append((r.mark, r.attrs))
            if r.skip is not None and not isinstance(r.skip, bool):
                self.unsupported = "skip is a DOM node"
            if r.content_element is not None and not callable(r.content_element):
                self.unsupported = "content_element is not a callable"
        eq_tags = any(a == b for i, a in enumerate(parser._tags) for b in parser._tags[:i])
        eq_styles = any(a == b for i, a in enumerate(parser._styles) for b in parser._styles[:i])
        if eq_tags or eq_styles:
            self.unsupported = "two rules are =="      # `_tags.index(after)` finds the earlier one

    def ref(self, name, table):
        return None if name is None else table.get(name, -1)

    def answer(self, rule, arg):
        ga = _ga(rule.get_attrs, arg)
        if rule.mark is not None and isinstance(ga, list) and ga[0] == "a":
            self.mark_seeds.append((rule.mark, None if ga[1] is None else {k: json.loads(v) for k, v in ga[1]}))
        return ga

    def node(self, d):
        nt = from_dom_mod.get_node_type(d)
        if nt == 3:
            return ["t", None if d.text is None else codec.units(d.text)]
        if nt != 1:
            return ["o"]
        self.elements += 1
        parser = self.parser
        style = d.get("style") or ""
        decls = []
        if style:
            flat = from_dom_mod.parse_styles(style)
            for i in range(0, len(flat), 2):
                decls.append([flat[i], flat[i + 1],
                              [[k, self.answer(r, flat[i + 1])] for k, r in enumerate(parser._styles) if r.get_attrs is not None]])
        cands = []
        for k, r in enumerate(parser._tags):
            if not (r.tag and from_dom_mod.matches(d, r.tag)
                    and (r.namespace is None or (d.prefix and d.nsmap[d.prefix] == r.namespace))):
                continue
            kind, alt_tag, alt_kids, nodes = "children", "", [], []
            if r.get_content is not None:
                kind = "nodes"
                nodes = [self.info.node(n) for n in r.get_content(d, self.schema).content]
                self.features.add("get_content")
            elif r.content_element is not None and callable(r.content_element):
                kind = "alt"
                e = r.content_element(d)
                alt_tag, alt_kids = e.tag.lower(), [self.node(c) for c in e]
                self.features.add("content_element")
            ga = self.answer(r, d)
            cands.append([k, ga, kind, alt_tag, alt_kids, nodes])
            for f, on in (("ignore", r.ignore), ("close_parent", r.close_parent), ("non-consuming", r.consuming is False),
                          ("context", r.context), ("get_attrs-false", ga is False), ("preserve_whitespace", r.preserve_whitespace is not None)):
                if on:
                    self.features.add("cand-" + f)
        name = d.tag.lower()
        if name in ("ul", "ol"):
            seen_li = False
            for c in d:
                cn = c.tag.lower() if isinstance(c.tag, str) else None
                if cn == "li":
                    seen_li = len(c) > 0
                elif cn in ("ul", "ol") and seen_li:
                    self.features.add("list-child-after-li")
        if name == "br":
            self.features.add("br")
        for dd in decls:
            for k, r in enumerate(parser._styles):
                if r.style.startswith(dd[0]) and (r.clear_mark is not None or r.ignore or r.consuming is False):
                    self.features.add("style-" + ("clear_mark" if r.clear_mark is not None else "ignore" if r.ignore else "non-consuming"))
        return ["e", name, decls, cands, [self.node(c) for c in d]]

    def rules(self):
        info = self.info
        tags = [{"ctx": r.context or "", "node": self.ref(r.node, info.nid), "mark": self.ref(r.mark, info.mid),
                 "attrs": None if r.get_attrs is not None else _enc_attrs(r.attrs), "ignore": bool(r.ignore),
                 "skip": bool(r.skip), "closeParent": bool(r.close_parent), "consuming": r.consuming is not False,
                 "pw": r.preserve_whitespace, "listTag": LIST_RULE_RE.match(r.tag) is not None} for r in self.parser._tags]
        universe = {}
        for name, attrs in self.mark_seeds:
            if name in self.schema.marks:
                try:
                    m = self.schema.marks[name].create(attrs)
                except ValueError:
                    continue
                universe[json.dumps(info.mark(m))] = m
        styles = []
        for r in self.parser._styles:
            clear = None
            if r.clear_mark is not None:
                clear = [json.loads(k) for k, m in universe.items() if r.clear_mark(m)]
            styles.append({"style": r.style, "ctx": r.context or "", "mark": self.ref(r.mark, info.mid),
                           "attrs": None if r.get_attrs is not None else _enc_attrs(r.attrs), "ignore": bool(r.ignore),
                           "clear": clear, "consuming": r.consuming is not False})
        return tags, styles

    def request(self, parent):
        kids = [self.node(c) for c in parent]
        tags, styles = self.rules()
        info = self.info
        return {"op": "domParse", "groups": [list(self.schema.nodes[n].groups) for n in info.node_names],
                "wsPre": [self.schema.nodes[n].whitespace == "pre" for n in info.node_names],
                "tags": tags, "styles": styles, "root": parent.tag.lower(), "kids": kids,
                "_unsupported": self.unsupported, "_elements": self.elements, "_features": sorted(self.features)}


def _no_ids(events):
    """mark object identities renamed in order of first appearance (the two sides number them differently)"""
    out, ren = [], {}
    for e in events or []:
        if e[0] in ("addPending", "removePending"):
            out.append([e[0], ren.setdefault(e[1], len(ren))] + list(e[2:]))
        else:
            out.append(e)
    return out


def walk_request(sid, pc, is_slice):
    """the model request of one recorded run, or None when the run used something outside the model"""
    snap = pc._snapshot
    if not snap or snap["_unsupported"] or not pc._supported:
        return None
    req = {k: v for k, v in snap.items() if not k.startswith("_")}
    req["s"], req["slice"] = sid, is_slice
    return req


def walk_compare(ctx, replay, info, pc, st_real, out, kind):
    """the model's whole parse against the real one: normalize_lists, the list of calls into the placement core, the
    final document / fragment — or the class of the exception"""
    ctx.count("walk:" + kind)
    ctx.count("walk_elements", pc._snapshot["_elements"])
    for f in pc._snapshot["_features"]:
        ctx.count("walk_feature:" + f)
    if out.get("normalizeLists") != pc.parser.normalize_lists:
        ctx.mismatch("walk-normalize-lists", replay, pc.parser.normalize_lists, out.get("normalizeLists", out))
        return
    if st_real != "ok":
        ctx.count("walk:real-" + st_real)
        if out.get("err") != st_real:
            ctx.mismatch("walk-outcome", replay, st_real, out.get("err", "ok"))
        else:
            ctx.count("walk:agree")
        return
    if "err" in out and out.get("events") is None:
        ctx.mismatch("walk-outcome", replay, "ok", out)
        return
    want_ev, got_ev = _no_ids(pc._events), _no_ids(out.get("events"))
    if want_ev != got_ev:
        k = next((i for i, (a, b) in enumerate(zip(want_ev, got_ev)) if a != b), min(len(want_ev), len(got_ev)))
        ctx.mismatch("walk-events", dict(replay, event_index=k, before=want_ev[max(0, k - 3):k]),
                     want_ev[k] if k < len(want_ev) else None, got_ev[k] if k < len(got_ev) else None)
        return
    ctx.count("walk_events", len(want_ev))
    res = pc._result
    if isinstance(res, Node):
        want, got = info.node(res), out.get("doc")
    else:
        want, got = info.frag(res), out.get("frag")
    if got != want:
        ctx.mismatch("walk-result", replay, want, got if got is not None else out)
    else:
        ctx.count("walk:agree")


# ---------------------------------------------------------------------------------------------
# export -> import tie (PM/RoundTrip.lean: annotate / serializeDoc / toDomList (oracle filling) / roundTrip / rtOk)
#
# The model gets the document, the evaluated `toDOM` outputs of the node kinds / marks that occur in it, and the parse
# rules in restricted form (`tag[attr]` selector, `get_attrs` as a table of copied DOM attributes — found by probing the
# callback with an object whose `.get(a)` answers a marker naming `a`).  It serialises, turns its own output into the
# abstract DOM *with the oracle filled in by itself*, and parses.  Compared exactly: the HTML with the real serializer's,
# the abstract DOM (candidates, get_attrs answers, text nodes) with the snapshot of the real parse of the real HTML, the
# parsed document with the real one.  Relation: `rtOk` (the hypothesis of the round-trip theorem) implies that the real
# round trip gives the document back.

# the rules in restricted form and the `toDOM` functions as tables: harness/rt_tables.py (shared with the translator that
# writes lean/Gen/RoundTrip.lean: the request below carries exactly the data of the generated Lean literals)
rule_sel = rt_tables.rule_sel


def roundtrip_request(info, sid, ser, parser, snap, d):
    """the model request of one export→import case.  The rules and the `toDOM` functions go as the tables of
    `rt_tables.tables(info)` — the data lean/Gen/RoundTrip.lean holds as `r<Name>` / `dt<Name>`; a schema whose `toDOM`
    functions are not of the restricted form falls back to the outputs evaluated on this document's nodes."""
    T = rt_tables.tables(info, parser)
    if isinstance(T, dict):
        return {"op": "roundTrip", "s": sid, "groups": T["groups"], "wsPre": T["wsPre"], "tags": T["tags"],
                "styles": T["styles"], "sel": T["sel"], "toDom": T["toDom"], "doc": info.node(d)}
    sel = [rule_sel(r) for r in parser._tags]
    if any(x is None for x in sel):
        return None
    node_dom, mark_dom, seen = [], [], set()

    def visit(n):
        if not n.is_text and n.type.name in ser.nodes:
            key = ("n", n.type.name, json.dumps(info.attrs(n.type, n.attrs)))
            if key not in seen:
                seen.add(key)
                node_dom.append([info.nid[n.type.name], info.attrs(n.type, n.attrs), spec_json(ser.nodes[n.type.name](n))])
        for m in n.marks:
            key = ("m", json.dumps(info.mark(m)), n.is_inline)
            if key not in seen:
                seen.add(key)
                to_dom = ser.marks.get(m.type.name)
                mark_dom.append([info.mark(m), n.is_inline, spec_json(to_dom(m, n.is_inline)) if to_dom else None])
        for c in n.content.content:
            visit(c)
    visit(d)
    return {"op": "roundTrip", "s": sid, "groups": snap["groups"], "wsPre": snap["wsPre"], "tags": snap["tags"],
            "styles": snap["styles"], "sel": sel, "nodeDom": node_dom, "markDom": mark_dom,
            "spanning": [info.schema.marks[n].spec.get("spanning") is not False for n in info.mark_names],
            "doc": info.node(d)}


def _parse_open(parser, html):
    """`parse_slice` of an HTML text.  `DOMParser.parse_slice` expects the lxml tree with its `.text` / `.tail` strings
    already turned into the `lxmltext` pseudo elements, which only `DOMParser.parse` does (on a plain lxml tree `parse_slice`
    silently drops all text): the tree is run through `parse` first, as the library's own callers must."""
    dom = html_fragment(html)
    outcome(lambda: parser.parse(dom), 5.0)
    return parser.parse_slice(dom)


def real_form_ok(info, ser, parser, t_name, attrs_enc):
    """the row (type, attributes) of the schema part against the running library: a filled node of that type is serialised
    by the real serializer and its HTML parsed (as an open slice: no placement under `doc`) by the real parser — True when
    a node of the type with
    the same attributes comes back, False when not (or the serializer has no `toDOM` for it), None when no node can be built"""
    typ = info.schema.nodes[t_name]
    try:
        node = typ.create_and_fill({k: json.loads(v) for k, v in attrs_enc})
    except Exception:  # noqa: BLE001
        return None
    if node is None:
        return None
    st, sl = outcome(lambda: _parse_open(parser, str(ser.serialize_node(node))), 5.0)
    if st != "ok":
        return False
    found = []
    sl.content.descendants(lambda n, pos, parent, i: found.append(n) or True)
    for n in found:
        if n.type is typ:
            return info.attrs(typ, n.attrs) == info.attrs(typ, node.attrs)
    return False


def real_mark_ok(info, ser, parser, m_name, attrs_enc):
    """a mark pattern of the schema part against the running library: a text `x` carrying the mark, inside the first
    textblock type that allows it, is serialised and parsed back (open slice) — does the text come back with exactly that mark?"""
    schema = info.schema
    mt = schema.marks[m_name]
    try:
        mark = mt.create({k: json.loads(v) for k, v in attrs_enc})
        host = next(t for t in schema.nodes.values() if t.is_textblock and t.allows_mark_type(mt) and t.name in ser.nodes)
        node = host.create(None, schema.text("x", [mark]))
    except Exception:  # noqa: BLE001
        return None
    st, sl = outcome(lambda: _parse_open(parser, str(ser.serialize_node(node))), 5.0)
    if st != "ok":
        return False
    found = []
    sl.content.descendants(lambda n, pos, parent, i: found.append(n) or True)
    return any(n.is_text and n.text == "x" and info.marks(n.marks) == [info.mark(mark)] for n in found)


def roundtrip_schema_tie(ctx, names):
    """Per bundled schema, once per run: (1) the Lean literals of lean/Gen/RoundTrip.lean are the rendering of the tables
    the round-trip requests of this run carry (`rt_tables.tables` of the harness's own schema object; the translator built
    its own from a fresh `Schema(spec)`); (2) the schema part `rtSchemaOk`, evaluated by the driver on those tables, is what
    the generated theorem states (`<name>_rtSchemaOk`, decided by the kernel in the family phase).  Returns the evidence."""
    from .. import translate_schemas as ts
    ev = {}
    path = os.path.join(core.LEAN, "Gen", "RoundTrip.lean")
    text = open(path).read() if os.path.exists(path) else ""
    for name in names:
        info = schemas.by_name(name)
        T = rt_tables.tables(info)
        e = ev.setdefault(name, {})
        if not isinstance(T, dict):
            e["tables"] = "none: " + T
            ctx.count("rt_schema:not-restricted:" + name)
            continue
        e["tables_digest"] = rt_tables.digest(T)
        lit = "\n".join(ts.lean_rt(name, ts.lean_ident(name), T))
        same = lit in text
        e["generated_literals_are_the_request_tables"] = same
        ctx.case(["rt-schema-literals", name], sample={"op": "generated literals = request tables", "schema": name})
        if same:
            ctx.count("rt_schema:literals-agree")
        else:
            ctx.mismatch("roundtrip-generated-literals", {"schema": name, "file": "lean/Gen/RoundTrip.lean"},
                         "the Lean rendering of rt_tables.tables(%s)" % name, "a different text (or no r%s) in the generated file" % ts.lean_ident(name))
        out = ctx.driver.run([dict({k: T[k] for k in ("groups", "wsPre", "tags", "styles", "sel", "toDom")},
                                   op="rtSchema", s=ctx.driver.add_schema(info))])[0]
        ctx.count("model_requests")
        e["rtSchemaOk_driver"] = out.get("rtSchemaOk")
        forms = []
        ser_real, parser_real = DOMSerializer.from_schema(info.schema), DOMParser.from_schema(info.schema)
        for t, a, f in out.get("forms", []):
            # the row against the running library (relational: a row the schema part accepts is read back by the real code)
            real = real_form_ok(info, ser_real, parser_real, info.node_names[t], a)
            ctx.case(["rt-schema-row", name, t, a], sample={"op": "schema-part row vs real serialise+parse", "schema": name, "type": info.node_names[t]})
            if real is None:
                ctx.count("rt_schema_row:no-node")
            elif f is not None and not real:
                ctx.mismatch("roundtrip-schema-row", {"schema": name, "type": info.node_names[t], "attrs": a},
                             "read back by the real parser (the schema part accepts this row: %s)" % f, "not read back")
            else:
                ctx.count("rt_schema_row:accepted-and-read-back" if f is not None else
                          "rt_schema_row:rejected-and-not-read-back" if not real else "rt_schema_row:rejected-but-read-back")
            row = info.node_names[t] + "".join(" %s=%s" % (k, v) for k, v in a) + (
                " is NOT read back" if f is None else " <-> <%s>%s" % (f[0], "" if f[1] is None else " (preserve_whitespace %s)" % json.dumps(f[1])))
            if row not in forms:
                forms.append(row)
        e["forms"] = forms
        for m, ok in out.get("markPatterns", []):
            real = real_mark_ok(info, ser_real, parser_real, info.mark_names[m[0]], m[1])
            ctx.case(["rt-schema-mark", name, m], sample={"op": "schema-part mark pattern vs real serialise+parse", "schema": name, "mark": info.mark_names[m[0]]})
            if real is None:
                ctx.count("rt_schema_mark:no-host")
            elif ok and not real:
                ctx.mismatch("roundtrip-schema-mark", {"schema": name, "mark": info.mark_names[m[0]], "attrs": m[1]},
                             "read back by the real parser (the schema part accepts this mark)", "not read back")
            else:
                ctx.count("rt_schema_mark:accepted-and-read-back" if ok else
                          "rt_schema_mark:rejected-and-not-read-back" if not real else "rt_schema_mark:rejected-but-read-back")
        e["mark_patterns"] = [info.mark_names[m[0]] + ("" if ok else " is NOT read back") for m, ok in out.get("markPatterns", [])]
        want = ts.RT_SCHEMAS.get(name)
        ctx.case(["rt-schema-part", name], sample={"op": "rtSchemaOk", "schema": name})
        if out.get("rtSchemaOk") == want:
            ctx.count("rt_schema:schema-part-as-stated")
        else:
            # the compiled model disagrees with the statement of the generated theorem: that theorem fails in the family
            # phase (a broken obligation); here it is a mismatch naming the forms that are not read back
            ctx.mismatch("roundtrip-schema-part", {"schema": name, "forms": e["forms"], "mark_patterns": e["mark_patterns"]},
                         want, out.get("rtSchemaOk", out))
    return ev


def node_kinds(d):
    out = {}

    def f(n, pos, parent, i):
        out[n.type.name] = out.get(n.type.name, 0) + 1
        for m in n.marks:
            out["mark:" + m.type.name] = out.get("mark:" + m.type.name, 0) + 1
        return True
    d.descendants(f)
    return out


def roundtrip_compare(ctx, replay, info, d, html, snap, st_real, doc_real, eligible, out, tabled=False):
    ctx.count("roundtrip_tie:cases")
    identity = st_real == "ok" and info.node(doc_real) == info.node(d)
    if tabled:
        # the request carried the schema's tables (the data of lean/Gen/RoundTrip.lean), the driver evaluated both parts
        ctx.count("roundtrip_tie:tabled")
        if out.get("rtSchemaOk") and out.get("rtDocOk") != out.get("rtOk"):
            ctx.mismatch("roundtrip-parts", replay, "rtDocOk = rtOk under rtSchemaOk (roundtrip_parts_iff)",
                         {"rtDocOk": out.get("rtDocOk"), "rtOk": out.get("rtOk")})
        if out.get("rtSchemaOk") and out.get("rtDocOk"):
            ctx.count("roundtrip_tie:rtDocOk")
            # roundtrip_basic / roundtrip_list: the document part holds (the schema part is kernel-checked), so the model's
            # round trip is the identity; when the real serializer printed what the tables say, the real one must be too
            if out.get("html") == html and not identity:
                ctx.violation("roundtrip-theorem", "the document satisfies the document part rtDocOk of the round-trip theorem for "
                              "the bundled schema, its HTML is what the schema's toDOM tables give, and parsing it back "
                              + ("raised " + str(st_real) if st_real != "ok" else "does not give the document"),
                              dict(replay, html=html[:600]))
                return
            if not eligible:
                ctx.count("roundtrip_tie:rtDocOk-but-not-harness-normal")
        elif eligible:
            ctx.count("roundtrip_tie:harness-normal-but-not-rtDocOk")
    if out.get("html") != html:
        ctx.mismatch("roundtrip-html", replay, html[:400], str(out.get("html", out))[:400])
        return
    if out.get("dom") != snap["kids"]:
        ctx.mismatch("roundtrip-dom", dict(replay, html=html[:600]), snap["kids"], out.get("dom", out))
        return
    ctx.count("roundtrip_tie:dom-agree")
    ctx.count("roundtrip_tie:dom-elements", snap["_elements"])
    if st_real != "ok":
        ctx.count("roundtrip_tie:real-" + st_real)
        if out.get("err") != st_real:
            ctx.mismatch("roundtrip-outcome", replay, st_real, out.get("err", "ok"))
        return
    want = info.node(doc_real)
    if out.get("doc") != want:
        ctx.mismatch("roundtrip-result", dict(replay, html=html[:600]), want, out.get("doc", out))
        return
    ctx.count("roundtrip_tie:result-agree")
    mark_free = not any(k.startswith("mark:") for k in node_kinds(d)) and not d.marks
    if out.get("noMarks") != mark_free:
        ctx.mismatch("roundtrip-noMarks", replay, mark_free, out.get("noMarks"))
        return
    if mark_free and out.get("rtOk"):
        ctx.count("roundtrip_tie:markfree-theorem-instances")      # roundtrip_markfree_partial applies: model = real = identity
    ctx.count("roundtrip_tie:identity" if identity else "roundtrip_tie:not-identity")
    if out.get("rtOk"):
        ctx.count("roundtrip_tie:rtOk")
        for k, v in node_kinds(d).items():
            ctx.count("roundtrip_kind:" + k, v)
        if not identity:
            ctx.mismatch("roundtrip-rtOk", dict(replay, html=html[:600]), "rtOk holds", "the real round trip is not the identity")
        if not eligible:
            ctx.count("roundtrip_tie:rtOk-but-not-harness-normal")
    elif eligible:
        ctx.count("roundtrip_tie:harness-normal-but-not-rtOk")


# a schema that uses every kind of parse rule the real parser supports: clear_mark / ignore / non-consuming style rules,
# a mark with a shared default instance, ignore / close_parent / non-consuming tag rules, get_attrs answering False / None,
# content_element (callable), get_content, all preserve_whitespace values, context restrictions, an explicit mark name
def rules_schema():
    nodes = {k: dict(v) for k, v in basic_schema.spec["nodes"].items()}
    marks = {k: dict(v) for k, v in basic_schema.spec["marks"].items()}
    nodes["paragraph"]["parseDOM"] = [{"tag": "p", "getAttrs": lambda d: False if d.get("class") == "no" else None}]
    nodes["blockquote"]["parseDOM"] = [{"tag": "blockquote"},
                                       {"tag": "blockquote.nc", "consuming": False, "priority": 60},
                                       {"tag": "div.cp", "close_parent": True, "priority": 55},
                                       {"tag": "div.ig", "ignore": True},
                                       {"tag": "span.ig", "ignore": True}]
    nodes["fig"] = {"content": "inline*", "group": "block",
                    "parseDOM": [{"tag": "figure", "contentElement": lambda d: next((c for c in d if c.tag == "figcaption"), d)}],
                    "toDOM": lambda _: ["figure", 0]}
    nodes["gc"] = {"content": "inline*", "group": "block",
                   "parseDOM": [{"tag": "div.gc", "getContent": lambda d, s: Fragment.from_([s.text("gc%d" % len(d)), s.node("hard_break")])},
                                {"tag": "div.gcp", "getContent": lambda d, s: Fragment.empty}],
                   "toDOM": lambda _: ["div", {"class": "gc"}, 0]}
    nodes["pw"] = {"content": "inline*", "group": "block",
                   "parseDOM": [{"tag": "div.pw", "preserveWhitespace": True}, {"tag": "div.pwf", "preserveWhitespace": "full"},
                                {"tag": "div.pw0", "preserveWhitespace": False},
                                {"tag": "p", "context": "blockquote/|pw/", "priority": 40}],
                   "toDOM": lambda _: ["div", {"class": "pw"}, 0]}
    marks["strong"]["parseDOM"] = [{"tag": "strong"}, {"tag": "b"}, {"style": "font-weight"},
                                   {"style": "font-weight=400", "clear_mark": lambda m: m.type.name == "strong", "priority": 60},
                                   {"style": "font-weight=normal", "clear_mark": lambda m: m.type.name == "strong", "priority": 60}]
    marks["em"]["parseDOM"] = [{"tag": "i"}, {"tag": "em"}, {"style": "font-style=italic"},
                               {"style": "font-style=normal", "clear_mark": lambda m: m.type.name in ("em", "hl"), "priority": 60},
                               {"style": "display=none", "ignore": True},
                               {"tag": "span.u", "mark": "u"}]
    marks["u"] = {"parseDOM": [{"tag": "u"}, {"style": "text-decoration=underline", "consuming": False, "priority": 60}],
                  "toDOM": lambda _, __: ["u", 0]}
    marks["hl"] = {"attrs": {"color": {"default": "yellow"}}, "excludes": "",
                   "parseDOM": [{"tag": "mark"}, {"tag": "span.hl", "getAttrs": lambda d: {"color": d.get("data-c")}},
                                {"style": "background-color", "getAttrs": lambda v: False if v == "none" else {"color": v}},
                                {"style": "text-decoration", "getAttrs": lambda v: None}],
                   "toDOM": lambda m, _: ["mark", {"data-c": m.attrs["color"]}, 0]}
    return Schema({"nodes": nodes, "marks": marks})


RICH_CLASSES = ["no", "nc", "cp", "ig", "gc", "gcp", "pw", "pwf", "pw0", "u", "hl", "q"]
RICH_STYLES = STYLES + ["font-weight: 400", "font-weight:normal; font-style:normal", "font-style: normal", "display: none",
                        "text-decoration: underline", "text-decoration:none", "background-color: red", "background-color:none",
                        "font-weight:bold;background-color: #ff0;text-decoration:underline", "font-weight:400;font-weight:bold"]
RICH_TAGS = ["figure", "figcaption", "mark", "u", "div", "span", "blockquote", "p", "b", "em"]


def gen_rich_html(rng, depth=0):
    """gen_html plus the vocabulary of rules_schema(): class attributes, figure / figcaption, more style declarations"""
    parts = []
    for _ in range(rng.randint(0, 4 if depth else 5)):
        r = rng.random()
        if r < 0.28:
            parts.append(rng.choice(WORDS))
        elif r < 0.33:
            parts.append(rng.choice([" ", "\n", "\n   ", "  ", "\r\n", "a\rb", "a&#13;b", "x&#13;&#10;"]))
        elif r < 0.35:
            parts.append("<!-- c -->")
        else:
            tag = rng.choice(RICH_TAGS) if rng.random() < 0.55 else rng.choice(BLOCK if rng.random() < 0.45 else INLINE)
            attrs = ""
            if tag == "a" and rng.random() < 0.8:
                attrs += ' href="foo"'
            if tag == "img" and rng.random() < 0.8:
                attrs += ' src="img.png"'
            if rng.random() < 0.45:
                attrs += ' class="%s"' % rng.choice(RICH_CLASSES)
                if rng.random() < 0.5:
                    attrs += ' data-c="%s"' % rng.choice(["red", "yellow"])
            if rng.random() < 0.35:
                attrs += ' style="%s"' % rng.choice(RICH_STYLES)
            if tag in ("hr", "br", "img"):
                parts.append(f"<{tag}{attrs}>")
            elif depth >= 4:
                parts.append(f"<{tag}{attrs}>{rng.choice(WORDS)}</{tag}>")
            else:
                parts.append(f"<{tag}{attrs}>{gen_rich_html(rng, depth + 1)}</{tag}>")
    return "".join(parts)


# aimed inputs for the walk tie (lists to normalise, <br> fallbacks, whitespace modes, ignored node kinds)
WALK_EDGE_HTML = [
    "<ul><li>a</li><ul><li>b</li></ul></ul>", "<ul><li></li><ul><li>b</li></ul></ul>",
    "<ul><li>a</li> <!--c--> <ul><li>b</li></ul>text<ol><li>c</li></ol><p>x</p><ol></ol></ul>",
    "<ol><li>a</li><ol><li>b</li></ol><ol><li>c</li></ol><li>d</li><ul></ul></ol>", "<ul><ul><li>x</li></ul></ul>", "<ul></ul>",
    "<p>a<br> b</p>", "<p>a <br>b<br></p>", "<br>", "<pre>a<br>b</pre>", "<pre>a\r\nb\rc\nd</pre>", "<pre> a  b </pre>",
    "<p> a \r\n b </p> <p>\t</p>", "<p>a</p> x <p>b</p>", "<div> <p>a</p> </div>", "<em>a</em> <strong>b</strong>",
    "<p>a<document-fragment>zz</document-fragment>b</p>", "<p>a<?php x ?>b<!-- c --></p>", "<script>x</script><style>y</style><p>z</p>",
    "<title><br></title>", "<script><br></script>a", "<h1>a<p>b</p>c</h1>", "<blockquote>a<p>b</p>c</blockquote>",
    "<li>a</li>", "<td>a</td>", "<hr><img src='x'><img>", "<a>bare</a><a href='h' title='t'>l</a>",
    "<p><lxmltext>foo<b>x</b></lxmltext>bar</p>", "<b><p>a</p><p>b</p></b>", "<span style='font-weight:bold'><p>a</p>b</span>",
    "<div class='cp'>a</div>", "<p>x<div class='cp'>a</div>y</p>", "<blockquote class='nc'><p>a</p></blockquote>",
    "<figure>junk<figcaption>cap <b>b</b></figcaption>tail</figure>", "<figure>no caption <i>i</i></figure>",
    "<div class='gc'><p>ignored</p></div>", "<div class='gcp'>x</div>", "<div class='pw'> a  b\n c </div>", "<div class='pwf'> a  b\r\n c </div>",
    "<div class='pw0'> a  b\n c </div>", "<div class='pw'>a\rb\r\nc\n\rd</div>", "<pre>a\rb\n\rc</pre>",
    "<div class='pw'>a&#13;b&#13;&#10;c&#10;&#13;d</div>", "<pre>a&#13;b&#13;&#10;c</pre>", "<p>a&#13;b &#13;&#9; c</p>", "<p>a&#13;b &#13;&#12; c&#11;</p>&#12;", "<div class='pwf'>a&#13;b&#13;&#10;c</div>", "<pre><div class='pw0'> a  b </div></pre>", "<p class='no'>not a paragraph</p>",
    "<blockquote><p>in quote</p></blockquote><div class='pw'><p>in pw</p></div>", "<span class='ig'>gone<br></span><div class='ig'><br></div>",
    "<b>x<span style='font-weight:400'>y</span>z</b>", "<b><span style='font-weight:normal'>y</span>z</b>",
    "<em>m<span style='font-style:normal'></span></em>&amp;", "<mark>a<mark>b</mark>c</mark>", "<mark>a<span class='hl' data-c='red'>b<mark>c</mark></span></mark>",
    "<span style='background-color: red'>a<span style='background-color:none'>b</span><span style='background-color: yellow'>c</span></span>",
    "<span style='text-decoration: underline'>u</span><span style='text-decoration:none'>n</span>", "<p style='display:none'>hidden</p>v",
    "<span class='u'>a<u>b</u></span>", "<i><mark><span style='font-style: normal'>x</span></mark></i>",
]


# rule sets the real parser does NOT survive (tie only: the model must fail the same way).  Reported as findings.
def crash_parsers(schema):
    def rule(**kw):
        return from_dom_mod.ParseRule.from_json(kw)
    base = DOMParser.schema_rules(schema)
    return [
        ("skip-true", DOMParser(schema, [rule(tag="div.sk", skip=True)] + base), '<div class="sk"><p>a</p></div>', "valueError"),
        ("skip-true-inline", DOMParser(schema, [rule(tag="span", skip=True)] + base), '<p>x<span>a</span></p>', "valueError"),
        ("unknown-node", DOMParser(schema, [rule(tag="div.un", node="nope")] + base), '<div class="un">a</div>', "internal"),
        ("unknown-mark", DOMParser(schema, [rule(tag="span.un", mark="nope")] + base), '<p><span class="un">a</span></p>', "internal"),
        ("style-rule-without-mark", DOMParser(schema, [rule(style="color", node="paragraph")] + base), '<p style="color: red">a</p>', "internal"),
        ("text-node-rule", DOMParser(schema, [rule(tag="span.t", node="text")] + base), '<p><span class="t">a</span></p>', "valueError"),
        ("get-attrs-raises", DOMParser(schema, [rule(tag="span.r", mark="em", getAttrs=lambda d: {}["x"])] + base), '<p><span class="r">a</span></p>', "internal"),
        ("missing-required-attr", DOMParser(schema, [rule(tag="a.bare", mark="link")] + base), '<p><a class="bare">a</a></p>', "valueError"),
        ("lxmltext-literal", DOMParser(schema, base), '<p>a<lxmltext></lxmltext>b</p>', "internal"),
        ("no-crash-control", DOMParser(schema, [rule(tag="div.sk", close_parent=True)] + base), '<p>x</p><div class="sk"><p>a</p></div>', "ok"),
    ]


def rules_spec_tie(ctx, named_schemas):
    """`DOMParser.schema_rules`: the order of the collected rules (priority, then marks before nodes, then spec order) and
    which rules get their owner's name, against the model's `schemaRules`"""
    reqs, wants = [], []
    for name, schema in named_schemas:
        specs, objs = [], []
        for owner in list(schema.marks.values()) + list(schema.nodes.values()):
            for r in owner.spec.get("parseDOM") or []:
                pr = from_dom_mod.ParseRule.from_json(r)
                specs.append([len(specs), pr.priority, bool(pr.mark), bool(pr.ignore), bool(pr.clear_mark)])
                objs.append((owner.name, r))
        real = DOMParser.schema_rules(schema)
        # identify each collected rule with its spec entry: same owner order, from_json is deterministic
        want = []
        pool = [(i, from_dom_mod.ParseRule.from_json(r), o) for i, (o, r) in enumerate(objs)]
        for rr in real:
            for k, (i, pr, o) in enumerate(pool):
                same = all(getattr(pr, f) == getattr(rr, f) or (f in ("node", "mark") and getattr(pr, f) is None)
                           for f in ("tag", "namespace", "style", "priority", "consuming", "context", "node", "mark", "clear_mark",
                                     "ignore", "close_parent", "skip", "attrs", "get_attrs", "content_element", "get_content",
                                     "preserve_whitespace"))
                if same:
                    took = (rr.node == o or rr.mark == o) and pr.node is None and pr.mark is None
                    want.append([i, bool(took)])
                    pool.pop(k)
                    break
        reqs.append({"op": "schemaRules", "specs": specs})
        wants.append((name, want))
    outs = ctx.driver.run(reqs)
    for req, (name, want), out in zip(reqs, wants, outs):
        ctx.count("model_requests")
        ctx.count("schema_rules_rules", len(want))
        if out.get("ok") != want:
            ctx.mismatch("schemaRules", dict(req, schema=name), want, out.get("ok", out))
        else:
            ctx.count("schema_rules:agree")


def run(ctx):
    core.lean_phase(ctx)
    rng = ctx.rng
    reqs, metas = [], []
    cschema = context_schema()
    parse_schemas = [("basic", basic_schema), ("list", list_schema), ("context", cschema)]
    parsers = {name: DOMParser.from_schema(s) for name, s in parse_schemas}
    infos = {"basic": schemas.by_name("basic"), "list": schemas.by_name("list"), "context": codec.SchemaInfo(cschema, "context")}
    # further schemas for the import checks (validity oracle + placement tie): family variants with parse rules and a
    # schema whose content expressions need filling
    extra_schemas = [(n, schemas.by_name(n).schema) for n in ("title", "heading-body", "iso", "marks-on-doc", "marks-x")]
    extra_schemas.append(("fill", fill_schema()))
    for n, sch in extra_schemas:
        infos[n] = schemas.by_name(n) if n != "fill" else codec.SchemaInfo(sch, "fill")
        parsers[n] = DOMParser.from_schema(sch)
    preqs, pmetas = [], []
    wreqs, wmetas = [], []          # whole-parse requests of the DOM-walk model

    def walk_case(replay, info, sid, pc, st_real, kind, is_slice=False):
        req = walk_request(sid, pc, is_slice)
        if req is None:
            ctx.count("walk:not-modelled")
            return
        wreqs.append(req)
        wmetas.append((replay, info, pc, st_real, kind))
    cinfo = infos["context"]
    ctx.guard(lambda: context_tie(ctx, [schemas.by_name("basic"), schemas.by_name("list"), cinfo, schemas.by_name("table"),
                                        schemas.by_name("marks-x")]), "context_tie")
    # ---- import: total and valid
    for _ in range(ctx.budget(250, 2500)):
        if ctx.time_left() < 0:
            break
        name, schema = rng.choice(parse_schemas) if rng.random() < 0.65 else rng.choice(extra_schemas)
        html = gen_html(rng)
        replay = {"schema": name, "html": html}
        ctx.case(["parse", name, html], nontrivial=bool(html.strip()), sample={"op": "from_html", "schema": name, "html": html[:200]})
        st, j = outcome(lambda: from_html(schema, html), 5.0)
        ctx.count("parse:" + st)
        if st != "ok":
            ctx.violation("parse-" + ("hang" if st == "hang" else "raises"), f"parsing an HTML fragment did not return a document: {j}", replay)
            continue
        # the same parse once more, recorded, for the placement-core tie (and a parse_slice of the same DOM)
        info = infos[name]
        sid = ctx.driver.add_schema(info)
        dom = html_fragment(html)
        (st_r, doc_r), pcs = recorded(info, lambda: parsers[name].parse(dom))
        if st_r == "ok" and len(pcs) == 1 and pcs[0]._supported and doc_r.to_json() == j:
            preqs.append(placement_request(info, sid, pcs[0]))
            pmetas.append((replay, info, pcs[0], "parse"))
            walk_case(replay, info, sid, pcs[0], st_r, "parse")
        else:
            ctx.count("placement:not-recorded")
            if st_r != "ok" or doc_r.to_json() != j:
                # the schema's parser object is shared by every parse of the process: a second parse of the same input is a
                # second call on the same object and must give the same document
                ctx.violation("parse-repeat", "parsing the same HTML fragment a second time with the same schema's parser did not give the "
                              f"same document: {st_r} {str(doc_r)[:200]}", dict(replay, first=j))
        if rng.random() < 0.5:
            (st_s, sl), pcs = recorded(info, lambda: parsers[name].parse_slice(dom))    # `dom` now carries the lxmltext nodes
            if st_s == "ok" and len(pcs) == 1 and pcs[0]._supported:
                preqs.append(placement_request(info, sid, pcs[0]))
                pmetas.append((dict(replay, slice=True, open=[sl.open_start, sl.open_end]), info, pcs[0], "parse_slice"))
                walk_case(dict(replay, slice=True, open=[sl.open_start, sl.open_end]), info, sid, pcs[0], st_s, "parse_slice", True)
            else:
                ctx.count("placement:slice-" + st_s)
        stn, node = outcome(lambda: Node.from_json(schema, j))
        prob = validator(schema).problem(j) if stn == "ok" else "from_json failed"
        stc, err = outcome(node.check) if stn == "ok" else ("internal", "")
        if prob or stc != "ok":
            ctx.violation("parse-invalid", f"the parsed document is not schema-valid: {prob or err}", dict(replay, doc=j))
        if name == "context" and stn == "ok":
            bad = []

            def f(n, pos, parent, i, depth_types=None):
                return True
            # context rule exactness: quote_para only directly inside blockquote (and not deeper rules), plain paragraphs never directly inside a blockquote
            def walk(n, anc):
                for c in n.content.content:
                    if c.type.name == "quote_para" and (not anc or anc[-1] != "blockquote"):
                        bad.append("quote_para outside a blockquote")
                    if c.type.name == "deep_para" and anc.count("blockquote") < 1:
                        bad.append("deep_para without a blockquote ancestor")
                    if c.type.name == "heading" and c.attrs.get("level") == 6:
                        bad.append("an <h6> was parsed by the plain heading rule although the rule with context 'doc//' (which every "
                                   "position satisfies) has priority")
                    if not c.is_leaf and not c.is_text:
                        walk(c, anc + [c.type.name])
            walk(node, ["doc"])
            if bad:
                ctx.violation("context-rule", "a context-restricted parse rule was applied where the open ancestors do not match, or not applied where they do: " + bad[0], dict(replay, doc=j))
    # fixed edge cases, tie only: the real parser returns an INVALID document here (upstream behaviour, see strip_schema)
    sinfo = codec.SchemaInfo(strip_schema(), "strip")
    sparser = DOMParser.from_schema(sinfo.schema)
    for html in EDGE_HTML:
        sid = ctx.driver.add_schema(sinfo)
        dom = html_fragment(html)
        (st_r, doc_r), pcs = recorded(sinfo, lambda: sparser.parse(dom))
        if st_r == "ok" and len(pcs) == 1 and pcs[0]._supported:
            preqs.append(placement_request(sinfo, sid, pcs[0]))
            pmetas.append(({"schema": "strip", "html": html}, sinfo, pcs[0], "edge"))
            walk_case({"schema": "strip", "html": html}, sinfo, sid, pcs[0], st_r, "edge")
            st_c, _ = outcome(doc_r.check)
            ctx.count("edge_case_real_doc_" + ("valid" if st_c == "ok" else "invalid"))
    infos["strip"] = sinfo
    # ---- the rule-kind schema: every kind of parse rule the parser supports (validity oracle + whole-parse tie)
    rinfo = codec.SchemaInfo(rules_schema(), "rules")
    rparser = DOMParser.from_schema(rinfo.schema)
    infos["rules"] = rinfo
    for k in range(ctx.budget(220, 2200)):
        if ctx.time_left() < 0:
            break
        html = gen_rich_html(rng) if k % 4 else gen_html(rng)
        replay = {"schema": "rules", "html": html}
        ctx.case(["parse", "rules", html], nontrivial=bool(html.strip()), sample={"op": "from_html", "schema": "rules", "html": html[:200]})
        sid = ctx.driver.add_schema(rinfo)
        dom = html_fragment(html)
        (st_r, doc_r), pcs = recorded(rinfo, lambda: rparser.parse(dom))
        ctx.count("parse:" + st_r)
        if st_r != "ok":
            ctx.violation("parse-" + ("hang" if st_r == "hang" else "raises"), f"parsing an HTML fragment did not return a document: {doc_r}", replay)
            continue
        if len(pcs) == 1:
            walk_case(replay, rinfo, sid, pcs[0], st_r, "rules")
        j = doc_r.to_json()
        prob = validator(rinfo.schema).problem(j)
        stc, err = outcome(doc_r.check)
        if prob or stc != "ok":
            ctx.violation("parse-invalid", f"the parsed document is not schema-valid: {prob or err}", dict(replay, doc=j))
        if rng.random() < 0.3:
            (st_s, sl), pcs = recorded(rinfo, lambda: rparser.parse_slice(dom))
            if st_s == "ok" and len(pcs) == 1:
                walk_case(dict(replay, slice=True, open=[sl.open_start, sl.open_end]), rinfo, sid, pcs[0], st_s, "parse_slice", True)
    # ---- generated context-rule schemas: rules restricted by context expressions of every form, HTML with several places of
    # equal depth and innermost open node under different ancestors (validity oracle, context-rule oracle on the result,
    # whole-parse tie)
    gen_ctx_schemas = []
    quick = ctx.tier == "quick"
    for gi in range(8 if quick else 30):
        if ctx.time_left() < 0:
            break
        gschema, gtable, gtags, auditable = gen_context_rule_schema(rng)
        ginfo = codec.SchemaInfo(gschema, "context-gen-%d" % gi)
        gparser = DOMParser.from_schema(gschema)
        infos[ginfo.name] = ginfo
        gen_ctx_schemas.append((ginfo.name, gschema))
        ctx.count("context_gen_schemas")
        for _, cexpr, _, _ in gtable:
            if cexpr:
                ctx.count("context_gen_rule_form:" + ("alt:" if "|" in cexpr else "") + re.sub(r"[a-z_0-9]+", "a", re.split(r"\s*\|\s*", cexpr)[0]))
        for _ in range(24 if quick else 60):
            html = gen_ctx_html(rng, gtags) if rng.random() < 0.85 else gen_html(rng)
            structured = bool(re.match(r"(<(ul|ol|blockquote|li|p|aside|section|h6|figure)>)+(<u>)?[wm]\d+", html))
            replay = {"schema": ginfo.name, "context_rules": gtable, "html": html}
            ctx.case(["parse", "context-gen", gtable, html], nontrivial=bool(html.strip()), sample=None)
            sid = ctx.driver.add_schema(ginfo)
            dom = html_fragment(html)
            (st_r, doc_r), pcs = recorded(ginfo, lambda: gparser.parse(dom))
            ctx.count("parse:" + st_r)
            ctx.count("context_gen_parses")
            if st_r != "ok":
                ctx.violation("parse-" + ("hang" if st_r == "hang" else "raises"), f"parsing an HTML fragment did not return a document: {doc_r}", replay)
                continue
            if len(pcs) == 1:
                walk_case(replay, ginfo, sid, pcs[0], st_r, "context-gen")
            j = doc_r.to_json()
            prob = validator(gschema).problem(j)
            stc, err = outcome(doc_r.check)
            if prob or stc != "ok":
                ctx.violation("parse-invalid", f"the parsed document is not schema-valid: {prob or err}", dict(replay, doc=j))
            elif structured and auditable:
                bad = context_rule_audit(gparser, doc_r, html, gtags)
                ctx.count("context_gen_audits")
                ctx.count("context_gen_audited_leaves", len(re.findall(r"[wmc]\d+", html)))
                if bad:
                    ctx.violation("context-rule", "a context-restricted parse rule was applied where the open ancestors do not match, or not "
                                  "applied where they do: " + bad[0], dict(replay, doc=j, problems=bad[:5]))
    edge_infos = [(n, infos[n], parsers[n]) for n in ("basic", "list", "context", "fill")] + [("rules", rinfo, rparser)]
    for html in WALK_EDGE_HTML:
        for n, einfo, eparser in edge_infos:
            sid = ctx.driver.add_schema(einfo)
            dom = html_fragment(html)
            (st_r, doc_r), pcs = recorded(einfo, lambda: eparser.parse(dom))
            ctx.case(["parse-edge", n, html], sample=None)
            if st_r != "ok":
                ctx.violation("parse-" + ("hang" if st_r == "hang" else "raises"), f"parsing an HTML fragment did not return a document: {doc_r}",
                              {"schema": n, "html": html})
                continue
            stc, err = outcome(doc_r.check)
            if stc != "ok":
                ctx.violation("parse-invalid", f"the parsed document is not schema-valid: {err}", {"schema": n, "html": html, "doc": doc_r.to_json()})
            if len(pcs) == 1:
                walk_case({"schema": n, "html": html}, einfo, sid, pcs[0], st_r, "aimed")
            (st_s, sl), pcs = recorded(einfo, lambda: eparser.parse_slice(dom))
            if st_s == "ok" and len(pcs) == 1:
                walk_case({"schema": n, "html": html, "slice": True, "open": [sl.open_start, sl.open_end]}, einfo, sid, pcs[0], st_s, "parse_slice", True)
    # rule sets the parser does not survive: the model must fail with the same class of exception
    for cname, cparser, html, expect in crash_parsers(rinfo.schema):
        sid = ctx.driver.add_schema(rinfo)
        dom = html_fragment(html)
        (st_r, _), pcs = recorded(rinfo, lambda: cparser.parse(dom))
        ctx.count("crash_case:" + cname + ":" + st_r)
        if st_r != expect:
            ctx.notes.append(f"crash case {cname}: the real parser now answers {st_r} (was {expect})")
        if len(pcs) == 1:
            walk_case({"schema": "rules", "crash_case": cname, "html": html}, rinfo, sid, pcs[0], st_r, "crash-case")
    # a schema without any finite document (x needs an x): filling recurses for ever — RecursionError in the real code, fuel
    # exhaustion (`.internal`) in the model; the schema guard `fillOk` of parse_no_internal is false for it
    xinfo = codec.SchemaInfo(Schema({"nodes": {"doc": {"content": "x+"}, "x": {"content": "x+", "parseDOM": [{"tag": "x"}]}, "text": {}}}), "self-filling")
    infos["self-filling"] = xinfo
    for html in ("", "<x></x>"):
        sid = ctx.driver.add_schema(xinfo)
        dom = html_fragment(html)
        (st_r, _), pcs = recorded(xinfo, lambda: DOMParser.from_schema(xinfo.schema).parse(dom))
        ctx.count("crash_case:self-filling:" + st_r)
        if len(pcs) == 1:
            walk_case({"schema": "self-filling", "html": html}, xinfo, sid, pcs[0], st_r, "crash-case")
    ctx.guard(lambda: rules_spec_tie(ctx, parse_schemas + extra_schemas + [("rules", rinfo.schema), ("strip", sinfo.schema)] + gen_ctx_schemas), "rules_spec_tie")
    # the decidable schema hypotheses of the import theorems (Det, TextStable, LeafOk, fillOk) on every schema of the tie
    hyps = {}
    hyp_infos = list(infos.values())
    houts = ctx.driver.run([{"op": "domHyps", "s": ctx.driver.add_schema(i)} for i in hyp_infos])
    for i, o in zip(hyp_infos, houts):
        h = o.get("ok") or {}
        hyps[i.name] = h
        allh = h.get("det") and h.get("textStable") and h.get("leafOk")
        ctx.count("theorem_hypotheses_hold" if allh else "theorem_hypotheses_fail:" + i.name)
        if not allh:
            ctx.notes.append(f"schema {i.name}: Det={h.get('det')} TextStable={h.get('textStable')} LeafOk={h.get('leafOk')} — "
                             "parse_valid / placement_finish_valid do not apply to it (placement_finish_marks does; placement_match_coherent needs Det)")
        ctx.count("no_internal_schema_guard_holds" if h.get("det") and h.get("fillOk") else "no_internal_schema_guard_fails:" + i.name)
    if wreqs:
        outs = ctx.driver.run(wreqs)
        for (replay, info, pc, st_real, kind), out in zip(wmetas, outs):
            ctx.count("model_requests")
            walk_compare(ctx, replay, info, pc, st_real, out, kind)
            # parse_no_internal: when its decidable guards hold of schema, rules, DOM and oracle, the real parse did not die
            # with an internal error
            g, sh = out.get("guards") or {}, hyps.get(info.name, {})
            failing = [k for k, v in (("rulesOk", g.get("rulesOk")), ("domOk", g.get("domOk")), ("det", sh.get("det")),
                                      ("fillOk", sh.get("fillOk"))) if not v]
            if not failing:
                ctx.count("no_internal_guards_hold")
                if st_real == "internal":
                    ctx.mismatch("parse_no_internal", replay, st_real, "the guards of parse_no_internal hold")
            else:
                ctx.count("no_internal_guards_fail:" + "+".join(failing))
            if kind == "parse_slice" and "open" in out and out["open"] != replay["open"]:
                ctx.mismatch("walk-slice-open", replay, replay["open"], out["open"])
    if preqs:
        outs = ctx.driver.run(preqs)
        for (replay, info, pc, kind), out in zip(pmetas, outs):
            ctx.count("model_requests")
            placement_compare(ctx, replay, info, pc, out, kind)
            if kind == "parse_slice" and "open" in out and out["open"] != replay["open"]:
                ctx.mismatch("placement-slice-open", replay, replay["open"], out["open"])
    # ---- export, escaping, round trip
    rreqs, rmetas, rt_seen = [], [], 0
    from .. import translate_schemas as ts_mod
    rt_ev = roundtrip_schema_tie(ctx, list(ts_mod.RT_SCHEMAS))
    if ctx.family is not None:
        for n, e in rt_ev.items():
            ctx.family.setdefault("roundtrip_schema_part", {}).setdefault(n, {}).update(e)
    for name, schema in parse_schemas[:2]:
        info = schemas.by_name(name)
        ser = DOMSerializer.from_schema(schema)
        for _ in range(ctx.budget(120, 1200)):
            if ctx.time_left() < 0:
                break
            d = gen.gen_doc(rng, schema, budget=rng.choice([6, 12, 25]))
            replay = {"schema": name, "doc": d.to_json()}
            ctx.case(["serialize", name, d.to_json()], sample={"op": "serialize+parse", "schema": name, "doc": str(d)[:160]})
            st, html = outcome(lambda: str(ser.serialize_fragment(d.content)))
            ctx.count("serialize:" + st)
            if st != "ok":
                ctx.violation("serialize-raises", f"serialising a valid document raised {html}", replay)
                continue
            # escaping: re-reading the HTML with an independent parser gives back exactly the document's text
            stl, frag = outcome(lambda: lxml.html.fragment_fromstring(html, create_parent="div"))
            if stl == "ok":
                got_text = "".join(frag.itertext())
                want_text = d.text_between(0, d.content.size, "")
                norm = lambda s: re.sub(r"\r\n?", "\n", s)
                if norm(got_text) != norm(want_text):
                    ctx.violation("escape", "text is not preserved by serialisation + an independent HTML reader (escaping)",
                                  dict(replay, html=html[:400], got=got_text[:200], want=want_text[:200]))
            if whitespace_normal(d) and carried_attrs(d):
                ctx.count("roundtrip:eligible")
                st2, j = outcome(lambda: from_html(schema, html), 5.0)
                if st2 != "ok":
                    ctx.violation("roundtrip-raises", f"parsing the serialised HTML raised {j}", dict(replay, html=html[:600]))
                elif json.dumps(j, sort_keys=True) != json.dumps(d.to_json(), sort_keys=True):
                    ctx.violation("roundtrip", "parsing the serialised HTML back does not give an equal document",
                                  dict(replay, html=html[:600], parsed=j))
            ids = {}
            reqs.append({"op": "serialize", "kids": [snode_json(ser, c, ids) for c in d.content.content]})
            metas.append((replay, html))
            # export -> import tie: the real parse of the real HTML, recorded (snapshot of the oracle-annotated DOM);
            # quick tier: two documents out of three (wall-clock budget)
            rt_seen += 1
            if ctx.tier == "quick" and rt_seen % 3 == 0:
                continue
            rdom = html_fragment(html)
            (st_r, doc_r), pcs = recorded(info, lambda: parsers[name].parse(rdom))
            snap = pcs[0]._snapshot if len(pcs) == 1 else None
            if snap and not snap.get("_unsupported"):
                rq = roundtrip_request(info, ctx.driver.add_schema(info), ser, parsers[name], snap, d)
                T = rt_tables.tables(info, parsers[name])
                if rq is not None and "toDom" in rq:
                    # the tables against the running library, on this case: the rules the recorded real parse used, and
                    # the real `toDOM` outputs of every node and mark of the document
                    if any(T[k] != snap[k] for k in ("tags", "styles", "groups", "wsPre")):
                        ctx.mismatch("roundtrip-tables-rules", replay, {k: snap[k] for k in ("tags", "styles")}, {k: T[k] for k in ("tags", "styles")})
                        continue
                    bad = rt_tables.check_doc(info, ser, T["toDom"], d, ctx.count)
                    if bad:
                        ctx.mismatch("todom-template", replay, bad[0][2], {"type": bad[0][0], "attrs": bad[0][1], "table gives": bad[0][3]})
                        continue
                if rq is not None:
                    rreqs.append(rq)
                    rmetas.append((replay, info, d, html, snap, st_r, doc_r, whitespace_normal(d) and carried_attrs(d), "toDom" in rq))
                else:
                    ctx.count("roundtrip_tie:rules-not-in-restricted-form")
            else:
                ctx.count("roundtrip_tie:not-recorded")
    if rreqs:
        outs = ctx.driver.run(rreqs)
        for (replay, info, d, html, snap, st_r, doc_r, eligible, tabled), out in zip(rmetas, outs):
            ctx.count("model_requests")
            roundtrip_compare(ctx, replay, info, d, html, snap, st_r, doc_r, eligible, out, tabled)
    if reqs and any(r["op"] == "serialize" for r in reqs):
        outs = ctx.driver.run(reqs)
        for req, (replay, html), out in zip(reqs, metas, outs):
            ctx.count("model_requests")
            if out.get("ok") != html:
                ctx.mismatch("serialize", replay, html[:400], (out.get("ok") or str(out))[:400])
    return ctx.finish(
        rule="a case is a generated HTML fragment (block/inline/list/table/ignorable vocabulary, random nesting, whitespace, style "
             "attributes, missing attributes, comments) parsed under the basic / list / context-rule schema, or a generated valid "
             "document of the bundled schemas serialised and — when whitespace-normal with attributes the rules carry — parsed back",
        level_note="partial: lxml parsing, selector matching (cssselect), the style-attribute regex and rule callbacks live outside the "
                   "model and enter it as an oracle carried in the input; modelled and tied on the import side: the whole DOM walk of "
                   "DOMParser.parse / parse_slice over an oracle-annotated abstract DOM (exact: the list of calls into the placement "
                   "core and the final document), context expressions (matches_context, exact), the placement core of "
                   "ParseContext/NodeContext (recorded-event tie) and schema_rules ordering")


if __name__ == "__main__":
    core.main("C19", run)
