"""C19 — HTML import is total and schema-valid; export then import is the identity.

Only part of this property is logic a model can carry; the rest lives in lxml, cssselect and `re`.
Import side (PM/FromDom.lean): `ParseContext.matches_context` (exact tie on real ParseContext objects with generated
stacks x generated expressions; theorem matchesContext_spec) and the node-placement core (find_place, insert_node,
enter, enter_inner, close_extra, sync, finish, NodeContext.find_wrapping / finish, pending / active / stash marks),
tied by recorded events of real `parse` / `parse_slice` runs (theorems placement_match_coherent,
placement_finish_valid_partial).
Lean part (Props/C19.lean): the escaping contract of the serializer (`unescape (escape s) = s`, output
free of raw `< > & "`) and the mark-nesting discipline of `serialize_fragment` (model PM/Dom.lean),
tied by exact correspondence of the serialised HTML of generated documents.
Search (named as such): termination (per-call alarm) and no-crash of DOM walking, rule matching,
context expressions, whitespace handling and style parsing on generated HTML; validity of the parsed
document (check() + independent validator); context-restricted rules apply exactly where the open
ancestors match; serialise → parse round trip on whitespace-normal documents of the bundled schemas.
"""
import html as html_mod
import json
import re

import lxml.html

from prosemirror.model import DOMParser, DOMSerializer, Fragment, Node, Schema
from prosemirror.model import from_dom as from_dom_mod
from prosemirror.model.from_dom import NodeContext, ParseContext, ParseOptions, from_html
from prosemirror.schema.basic import schema as basic_schema
from prosemirror.test_builder import test_schema as list_schema

from .. import codec, core, gen, schemas
from ..core import outcome
from ..validator import validator

BLOCK = ["p", "h1", "h2", "h3", "h6", "blockquote", "pre", "ul", "ol", "li", "hr", "div", "section", "table", "tr", "td"]
INLINE = ["em", "i", "strong", "b", "code", "a", "img", "br", "span", "u"]
IGNORABLE = ["script", "style", "title"]
STYLES = ["font-weight: bold", "font-style:italic", "font-weight:400;font-style: italic", "color: red", "font-weight", ""]
WORDS = ["foo", "bar", "a", "x y", " lead", "trail ", "two  spaces", "new\nline", "&amp;", "&lt;b&gt;", "é😀", "tab\there",
         "10\u00a0km", "\u00a0indented", "em\u2003space", "&nbsp;x",
         # control characters the HTML parser lets through: form feed (HTML white space), vertical tab, a C0 control
         "form&#12;feed", "v&#11;tab", "ctl&#1;x", "raw\x0cff"]



_CTL = re.compile("[\x00-\x08\x0b\x0c\x0e-\x1f]")


def html_fragment(html):
    """the DOM of an HTML fragment under a `document-fragment` root, as `from_html` builds it: lxml's own
    `fragment_fromstring(create_parent=…)` refuses leading text with control characters, so the root is made here and the
    leading text stored XML-compatible (form feed / vertical tab -> space, other C0 controls -> U+FFFD)"""
    parts = lxml.html.fragments_fromstring(html)
    root = lxml.html.Element("document-fragment")
    if parts and isinstance(parts[0], str):
        root.text = _CTL.sub(lambda m: " " if m.group() in "\x0b\x0c" else "\ufffd", parts.pop(0))
    root.extend(parts)
    return root


def gen_html(rng, depth=0):
    parts = []
    for _ in range(rng.randint(0, 4 if depth else 5)):
        r = rng.random()
        if r < 0.3:
            parts.append(rng.choice(WORDS))
        elif r < 0.35:
            parts.append(rng.choice([" ", "\n", "\n   ", "  "]))
        elif r < 0.38:
            parts.append("<!-- c -->")
        else:
            tag = rng.choice(BLOCK if rng.random() < 0.45 else INLINE) if rng.random() < 0.93 else rng.choice(IGNORABLE)
            attrs = ""
            if tag == "a" and rng.random() < 0.8:
                attrs += ' href="%s"' % rng.choice(["foo", "http://x/?a=1&amp;b=2", ""])
            if tag == "a" and rng.random() < 0.3:
                attrs += ' title="t"'
            if tag == "img" and rng.random() < 0.8:
                attrs += ' src="%s"' % rng.choice(["img.png", "a b.png"])
            if tag == "img" and rng.random() < 0.3:
                attrs += ' alt="x" title="y"'
            if tag == "ol" and rng.random() < 0.3:
                attrs += ' start="3"'
            if rng.random() < 0.25:
                attrs += ' style="%s"' % rng.choice(STYLES)
            if tag in ("hr", "br", "img"):
                parts.append(f"<{tag}{attrs}>")
            elif depth >= 4:
                parts.append(f"<{tag}{attrs}>{rng.choice(WORDS)}</{tag}>")
            else:
                parts.append(f"<{tag}{attrs}>{gen_html(rng, depth + 1)}</{tag}>")
    return "".join(parts)


def spec_json(structure):
    """a toDOM output spec in the driver's encoding (attribute values as the strings str() would give)"""
    if isinstance(structure, str):
        return ["s", structure]
    if structure == 0:
        return ["h"]
    tag = structure[0]
    attrs, start = [], 1
    if len(structure) > 1 and isinstance(structure[1], dict):
        start = 2
        attrs = [[k, None if v is None else (v if isinstance(v, str) else str(v))] for k, v in structure[1].items()]
    return ["e", tag, attrs, [spec_json(c) for c in structure[start:]]]


def snode_json(ser, node, ids):
    marks = []
    for m in node.marks:
        key = (m.type.name, json.dumps(m.attrs, sort_keys=True, default=str))
        mid = ids.setdefault(key, len(ids))
        to_dom = ser.marks.get(m.type.name)
        marks.append([mid, spec_json(to_dom(m, node.is_inline)) if to_dom else None, m.type.spec.get("spanning") is not False])
    spec = spec_json(ser.nodes[node.type.name](node))
    return {"marks": marks, "spec": spec, "kids": [snode_json(ser, c, ids) for c in node.content.content]}


def context_schema():
    nodes = {k: dict(v) for k, v in basic_schema.spec["nodes"].items()}
    nodes["quote_para"] = {"content": "inline*", "group": "block",
                           "parseDOM": [{"tag": "p", "context": "blockquote/", "priority": 60}],
                           "toDOM": lambda _: ["p", {"class": "q"}, 0]}
    nodes["deep_para"] = {"content": "inline*", "group": "block",
                          "parseDOM": [{"tag": "p", "context": "blockquote//|blockquote/blockquote/", "priority": 70}],
                          "toDOM": lambda _: ["p", {"class": "d"}, 0]}
    # a context anchored at the root with a `//` wildcard: matches everywhere, so every <h6> becomes a rooted_para
    nodes["rooted_para"] = {"content": "inline*", "group": "block",
                            "parseDOM": [{"tag": "h6", "context": "doc//", "priority": 80}],
                            "toDOM": lambda _: ["h6", {"class": "r"}, 0]}
    return Schema({"nodes": nodes, "marks": {k: dict(v) for k, v in basic_schema.spec["marks"].items()}})


def fill_schema():
    """content expressions that need filling at `finish` (a section starts with a heading, a row has exactly two cells)
    and wrappers found through several levels"""
    nodes = {k: dict(v) for k, v in basic_schema.spec["nodes"].items()}
    nodes["doc"] = {"content": "section+"}
    nodes["section"] = {"content": "heading block*", "parseDOM": [{"tag": "section"}], "toDOM": lambda _: ["section", 0]}
    nodes["table"] = {"content": "row+", "group": "block", "parseDOM": [{"tag": "table"}], "toDOM": lambda _: ["table", 0]}
    nodes["row"] = {"content": "cell{2}", "parseDOM": [{"tag": "tr"}], "toDOM": lambda _: ["tr", 0]}
    nodes["cell"] = {"content": "block+", "parseDOM": [{"tag": "td"}], "toDOM": lambda _: ["td", 0]}
    return Schema({"nodes": nodes, "marks": {k: dict(v) for k, v in basic_schema.spec["marks"].items()}})


def strip_schema():
    """a content expression that *requires* a trailing text: NodeContext.finish strips a whitespace-only last text node
    after `match` has advanced over it, so `<figure><br><img src="a"> </figure>` parses to an invalid fig(hard_break, image).
    Used for the model tie only (the model must reproduce the invalid document); TextStable fails for this schema."""
    nodes = {k: dict(v) for k, v in basic_schema.spec["nodes"].items()}
    nodes["fig"] = {"content": "hard_break image? (text | hard_break)", "group": "block", "parseDOM": [{"tag": "figure"}],
                    "toDOM": lambda _: ["figure", 0]}
    return Schema({"nodes": nodes, "marks": {k: dict(v) for k, v in basic_schema.spec["marks"].items()}})


EDGE_HTML = ['<figure><br><img src="a"> </figure>', '<figure><br><img src="a">x</figure>', '<figure><br><img src="a"></figure>',
             '<figure> <br> <img src="a"> <b> </b></figure>', '<p>a</p><figure><br> </figure> <figure></figure>']


def whitespace_normal(doc):
    """text that HTML whitespace collapsing leaves alone: outside code blocks no tab/newline, no double space, and no
    space at the start or end of a textblock or next to a hard break / block boundary"""
    ok = [True]

    def f(n, pos, parent, i):
        if n.is_textblock:
            if n.type.spec.get("code"):
                for c in n.content.content:
                    if c.is_text and "\r" in c.text:
                        ok[0] = False
            else:
                txt = "".join(c.text if c.is_text else ("\x01" if c.type.name == "hard_break" else "\x00") for c in n.content.content)
                if re.search(r"[\t\r\n\u000c]|  |^ | $| \x01|\x01 ", txt):
                    ok[0] = False
        return True
    doc.descendants(f)
    return ok[0]


def carried_attrs(doc):
    """the bundled parse rules read link href, image src/title, heading level; everything else must be at its default"""
    ok = [True]

    def f(n, pos, parent, i):
        if n.type.name == "image" and (n.attrs.get("alt") is not None or not isinstance(n.attrs.get("src"), str)
                                       or not (n.attrs.get("title") is None or isinstance(n.attrs.get("title"), str))):
            ok[0] = False
        if n.type.name == "ordered_list" and n.attrs.get("order") != 1:
            ok[0] = False
        if n.type.name == "heading" and n.attrs.get("level") not in (1, 2, 3, 4, 5, 6):
            ok[0] = False
        for m in n.marks:
            if m.type.name == "link" and (m.attrs.get("title") is not None or not isinstance(m.attrs.get("href"), str)):
                ok[0] = False
        return True
    doc.descendants(f)
    return ok[0] and doc.attrs.get("meta") is None


# ---------------------------------------------------------------------------------------------
# tie of ParseContext.matches_context (PM/FromDom.lean: matchesContext)

PY_SPACES = [" ", " ", "  ", "\t", "\n", "\u00a0", "\u2003", "\x1c", "\x85", "\u3000", "\u200b"]   # the last one is NOT \s


def gen_context_expr(rng, info, visible):
    """a context expression: names / groups / unknown names, `/`, `//`, leading, trailing and doubled slashes, `|` with
    whitespace; biased towards expressions derived from the visible ancestors so that matches happen"""
    schema = info.schema
    names = list(schema.nodes.keys())
    groups = sorted({g for t in schema.nodes.values() for g in t.groups}) or ["block"]

    def one():
        parts = []
        if visible and rng.random() < 0.7:
            k = rng.randint(1, min(4, len(visible)))
            for t in visible[-k:]:
                r = rng.random()
                if r < 0.55:
                    parts.append(t.name)
                elif r < 0.75 and t.groups:
                    parts.append(rng.choice(t.groups))
                elif r < 0.9:
                    parts.append("")
                else:
                    parts.append(rng.choice(names + groups))
            if rng.random() < 0.3:
                parts.insert(rng.randint(0, len(parts)), "")
        else:
            for _ in range(rng.randint(0, 4)):
                r = rng.random()
                parts.append(rng.choice(names) if r < 0.45 else rng.choice(groups) if r < 0.65 else "" if r < 0.85
                             else rng.choice(["zzz", "Doc", "p", " ", "doc ", "block|"]).replace("|", ""))
        e = "/".join(parts)
        r = rng.random()
        if r < 0.45:
            e += "/"
        elif r < 0.6:
            e += "//"
        if rng.random() < 0.15:
            e = "/" + e
        if rng.random() < 0.07:
            e = "/" + e
        if rng.random() < 0.06:
            e = rng.choice(PY_SPACES) + e
        if rng.random() < 0.06:
            e = e + rng.choice(PY_SPACES)
        return e
    alts = [one() for _ in range(1 if rng.random() < 0.6 else rng.randint(2, 3))]
    out = alts[0]
    for a in alts[1:]:
        out += rng.choice(["", "", " "] + PY_SPACES) + "|" + rng.choice(["", "", " "] + PY_SPACES) + a
    return out


def context_tie(ctx, infos):
    """drive the real `ParseContext.matches_context` on real ParseContext objects whose stack of open NodeContexts (and
    `open`, `is_open`, `options.context`, `options.top_node`) is generated, and compare every answer with the model"""
    rng = ctx.rng
    reqs, metas = [], []
    for _ in range(ctx.budget(60, 600)):
        if ctx.time_left() < 0:
            break
        info = rng.choice(infos)
        schema = info.schema
        sid = ctx.driver.add_schema(info)
        parser = DOMParser.from_schema(schema)
        is_open = rng.random() < 0.25
        rp = None
        if rng.random() < 0.4:
            d = gen.gen_doc(rng, schema, budget=rng.choice([6, 12, 25]))
            rp = d.resolve(rng.randint(0, d.content.size))
        top_node = None
        if not is_open and rng.random() < 0.3:
            cands = [t for t in schema.nodes.values() if not t.is_leaf and not t.has_required_attrs()]
            if rp is not None and rng.random() < 0.6:
                top_node = rp.parent.type.create()
            else:
                top_node = rng.choice(cands).create()
        pc = ParseContext(parser, ParseOptions(context=rp, top_node=top_node), is_open)
        types = [t for t in schema.nodes.values() if not t.is_text]
        for _ in range(rng.choice([0, 0, 1, 2, 3, 4, 6])):
            t = rng.choice(types)
            pc.nodes.append(NodeContext(t, None, [], [], False, None, 0))
        pc.open = rng.randint(0, len(pc.nodes) - 1) if rng.random() < 0.5 else len(pc.nodes) - 1
        visible = []
        if rp is not None:
            visible += [rp.node(i).type for i in range(rp.depth + 1)]
        visible += [n.type for n in pc.nodes[:pc.open + 1] if n.type is not None]
        exprs = [gen_context_expr(rng, info, visible) for _ in range(8)]
        answers = []
        for e in exprs:
            st, v = outcome(lambda: pc.matches_context(e), 2.0)
            ctx.count("matches_context:" + (str(v) if st == "ok" else st))
            answers.append(v if st == "ok" else {"raised": st, "what": v})
            ctx.case(["matches_context", info.name, [n.type.name if n.type else None for n in pc.nodes], pc.open, is_open,
                      None if rp is None else [rp.node(i).type.name for i in range(rp.depth + 1)], e],
                     nontrivial=bool(e.strip("/ |")), sample={"op": "matches_context", "schema": info.name, "expr": e,
                                                             "stack": [n.type.name if n.type else None for n in pc.nodes]})
        req = {"op": "matchesContext", "s": sid,
               "groups": [list(schema.nodes[n].groups) for n in info.node_names],
               "nodes": [None if n.type is None else info.nid[n.type.name] for n in pc.nodes],
               "open": pc.open, "isOpen": is_open,
               "ctx": None if rp is None else [info.nid[rp.node(i).type.name] for i in range(rp.depth + 1)],
               "exprs": exprs}
        reqs.append(req)
        metas.append(answers)
    if reqs:
        outs = ctx.driver.run(reqs)
        for req, answers, out in zip(reqs, metas, outs):
            ctx.count("model_requests")
            got = out.get("ok")
            if got != answers:
                bad = [i for i in range(len(answers)) if not isinstance(got, list) or got[i] != answers[i]]
                ctx.mismatch("matchesContext", dict(req, first_bad_expr=req["exprs"][bad[0]] if bad else None), answers, got if got is not None else out)
            else:
                ctx.count("matches_context:agree", len(answers))



# ---------------------------------------------------------------------------------------------
# recorded-event tie of the placement core (PM/FromDom.lean part B)
#
# A subclass of the real ParseContext (installed as `from_dom.ParseContext` only while one recorded parse runs, in this
# process only) logs every *outermost* call the DOM walk makes into the placement core — insert_node, enter,
# find_place, add_pending_mark, remove_pending_mark, sync, close_extra — with its arguments, and every direct write
# of `open` / `needs_block` from outside those calls; after each event it notes what the call returned, `open` and
# `len(nodes)`.  NodeContext arguments (sync target, `upto`) are recorded as their index in `nodes` at call time;
# marks handed to add/remove_pending_mark carry an object-identity number (the code looks them up by identity).

REC = {"info": None, "instances": []}


def _enc_attrs(attrs):
    return None if attrs is None else [[k, codec.jval(v)] for k, v in attrs.items()]


class RecordingParseContext(ParseContext):
    def __init__(self, parser, options, is_open):
        self._depth = 1            # nothing is recorded during construction
        self._events, self._obs, self._mark_ids, self._keep = [], [], {}, []
        self._result = None
        self._info = REC["info"]
        super().__init__(parser, options, is_open)
        self._depth = 0
        self._init = {"isOpen": bool(is_open), "pw": options.preserve_whitespace, "topOpen": bool(options.top_open)}
        self._supported = options.top_node is None and options.context is None and options.top_match is None
        REC["instances"].append(self)

    # -- direct writes from the DOM walk
    @property
    def open(self):
        return self.__dict__.get("_open", 0)

    @open.setter
    def open(self, v):
        self.__dict__["_open"] = v
        if self._depth == 0:
            self._note(["setOpen", v], None)

    @property
    def needs_block(self):
        return self.__dict__.get("_needs_block", False)

    @needs_block.setter
    def needs_block(self, v):
        self.__dict__["_needs_block"] = v
        if self._depth == 0:
            self._note(["setNeedsBlock", bool(v)], None)

    def _note(self, ev, ret):
        self._events.append(ev)
        self._obs.append([ret if isinstance(ret, bool) else None, self.open, len(self.nodes)])

    def _idx(self, cx):
        for i, n in enumerate(self.nodes):
            if n is cx:
                return i
        return None

    def _mid(self, mark):
        if id(mark) not in self._mark_ids:
            self._mark_ids[id(mark)] = len(self._mark_ids)
            self._keep.append(mark)     # keeps the object alive so that its id() is not reused
        return self._mark_ids[id(mark)]

    def _call(self, name, ev, *a, **k):
        orig = getattr(ParseContext, name)
        if self._depth > 0:
            return orig(self, *a, **k)
        event = ev()
        self._depth += 1
        try:
            r = orig(self, *a, **k)
        finally:
            self._depth -= 1
        self._note(event, r)
        return r

    def insert_node(self, node):
        return self._call("insert_node", lambda: ["insertNode", self._info.node(node)], node)

    def enter(self, type_, attrs=None, preserve_ws=None):
        return self._call("enter", lambda: ["enter", self._info.nid[type_.name], _enc_attrs(attrs), preserve_ws], type_, attrs, preserve_ws)

    def find_place(self, node):
        return self._call("find_place", lambda: ["findPlace", self._info.node(node)], node)

    def add_pending_mark(self, mark):
        return self._call("add_pending_mark", lambda: ["addPending", self._mid(mark), self._info.mark(mark)], mark)

    def remove_pending_mark(self, mark, upto):
        return self._call("remove_pending_mark", lambda: ["removePending", self._mid(mark), self._info.mark(mark), self._idx(upto)], mark, upto)

    def sync(self, to_):
        return self._call("sync", lambda: ["sync", self._idx(to_)], to_)

    def close_extra(self, open_end=False):
        return self._call("close_extra", lambda: ["closeExtra", bool(open_end)], open_end)

    def enter_inner(self, *a, **k):
        if self._depth == 0:
            self._supported = False      # never called by the DOM walk directly
        return ParseContext.enter_inner(self, *a, **k)

    def finish(self):
        self._depth += 1
        try:
            self._result = ParseContext.finish(self)
        finally:
            self._depth -= 1
        return self._result


def recorded(info, fn):
    """run fn() with the recording subclass installed; returns (outcome, recorder instances)"""
    REC["info"], REC["instances"] = info, []
    saved = from_dom_mod.ParseContext
    from_dom_mod.ParseContext = RecordingParseContext
    try:
        res = outcome(fn, 5.0)
    finally:
        from_dom_mod.ParseContext = saved
    return res, REC["instances"]


def placement_request(info, sid, pc):
    return {"op": "placement", "s": sid, "wsPre": [info.schema.nodes[n].whitespace == "pre" for n in info.node_names],
            "isOpen": pc._init["isOpen"], "pw": pc._init["pw"], "topOpen": pc._init["topOpen"], "events": pc._events}


def placement_compare(ctx, replay, info, pc, out, kind):
    """model answer against the recorded run: the per-event observations and the final document / fragment"""
    ctx.count("placement:" + kind)
    ctx.count("placement_events", len(pc._events))
    if out.get("obs") != pc._obs:
        k = next((i for i, (a, b) in enumerate(zip(out.get("obs") or [], pc._obs)) if a != b), min(len(out.get("obs") or []), len(pc._obs)))
        ctx.mismatch("placement-observation", dict(replay, event_index=k, event=pc._events[k] if k < len(pc._events) else None),
                     pc._obs[k] if k < len(pc._obs) else None, (out.get("obs") or [None] * (k + 1))[k] if out.get("obs") and k < len(out["obs"]) else out.get("err", out))
        return
    res = pc._result
    if isinstance(res, Node):
        want = info.node(res)
        got = out.get("doc")
    else:
        want = info.frag(res)
        got = out.get("frag")
    if got != want:
        ctx.mismatch("placement-result", replay, want, got if got is not None else out)
    else:
        ctx.count("placement:agree")

def run(ctx):
    core.lean_phase(ctx)
    rng = ctx.rng
    reqs, metas = [], []
    cschema = context_schema()
    parse_schemas = [("basic", basic_schema), ("list", list_schema), ("context", cschema)]
    parsers = {name: DOMParser.from_schema(s) for name, s in parse_schemas}
    infos = {"basic": schemas.by_name("basic"), "list": schemas.by_name("list"), "context": codec.SchemaInfo(cschema, "context")}
    # further schemas for the import checks (validity oracle + placement tie): family variants with parse rules and a
    # schema whose content expressions need filling
    extra_schemas = [(n, schemas.by_name(n).schema) for n in ("title", "heading-body", "iso", "marks-on-doc", "marks-x")]
    extra_schemas.append(("fill", fill_schema()))
    for n, sch in extra_schemas:
        infos[n] = schemas.by_name(n) if n != "fill" else codec.SchemaInfo(sch, "fill")
        parsers[n] = DOMParser.from_schema(sch)
    preqs, pmetas = [], []
    cinfo = infos["context"]
    ctx.guard(lambda: context_tie(ctx, [schemas.by_name("basic"), schemas.by_name("list"), cinfo, schemas.by_name("table"),
                                        schemas.by_name("marks-x")]), "context_tie")
    # ---- import: total and valid
    for _ in range(ctx.budget(250, 2500)):
        if ctx.time_left() < 0:
            break
        name, schema = rng.choice(parse_schemas) if rng.random() < 0.65 else rng.choice(extra_schemas)
        html = gen_html(rng)
        replay = {"schema": name, "html": html}
        ctx.case(["parse", name, html], nontrivial=bool(html.strip()), sample={"op": "from_html", "schema": name, "html": html[:200]})
        st, j = outcome(lambda: from_html(schema, html), 5.0)
        ctx.count("parse:" + st)
        if st != "ok":
            ctx.violation("parse-" + ("hang" if st == "hang" else "raises"), f"parsing an HTML fragment did not return a document: {j}", replay)
            continue
        # the same parse once more, recorded, for the placement-core tie (and a parse_slice of the same DOM)
        info = infos[name]
        sid = ctx.driver.add_schema(info)
        dom = html_fragment(html)
        (st_r, doc_r), pcs = recorded(info, lambda: parsers[name].parse(dom))
        if st_r == "ok" and len(pcs) == 1 and pcs[0]._supported and doc_r.to_json() == j:
            preqs.append(placement_request(info, sid, pcs[0]))
            pmetas.append((replay, info, pcs[0], "parse"))
        else:
            ctx.count("placement:not-recorded")
        if rng.random() < 0.5:
            (st_s, sl), pcs = recorded(info, lambda: parsers[name].parse_slice(dom))    # `dom` now carries the lxmltext nodes
            if st_s == "ok" and len(pcs) == 1 and pcs[0]._supported:
                preqs.append(placement_request(info, sid, pcs[0]))
                pmetas.append((dict(replay, slice=True, open=[sl.open_start, sl.open_end]), info, pcs[0], "parse_slice"))
            else:
                ctx.count("placement:slice-" + st_s)
        stn, node = outcome(lambda: Node.from_json(schema, j))
        prob = validator(schema).problem(j) if stn == "ok" else "from_json failed"
        stc, err = outcome(node.check) if stn == "ok" else ("internal", "")
        if prob or stc != "ok":
            ctx.violation("parse-invalid", f"the parsed document is not schema-valid: {prob or err}", dict(replay, doc=j))
        if name == "context" and stn == "ok":
            bad = []

            def f(n, pos, parent, i, depth_types=None):
                return True
            # context rule exactness: quote_para only directly inside blockquote (and not deeper rules), plain paragraphs never directly inside a blockquote
            def walk(n, anc):
                for c in n.content.content:
                    if c.type.name == "quote_para" and (not anc or anc[-1] != "blockquote"):
                        bad.append("quote_para outside a blockquote")
                    if c.type.name == "deep_para" and anc.count("blockquote") < 1:
                        bad.append("deep_para without a blockquote ancestor")
                    if c.type.name == "heading" and c.attrs.get("level") == 6:
                        bad.append("an <h6> was parsed by the plain heading rule although the rule with context 'doc//' (which every "
                                   "position satisfies) has priority")
                    if not c.is_leaf and not c.is_text:
                        walk(c, anc + [c.type.name])
            walk(node, ["doc"])
            if bad:
                ctx.violation("context-rule", "a context-restricted parse rule was applied where the open ancestors do not match, or not applied where they do: " + bad[0], dict(replay, doc=j))
    # fixed edge cases, tie only: the real parser returns an INVALID document here (upstream behaviour, see strip_schema)
    sinfo = codec.SchemaInfo(strip_schema(), "strip")
    sparser = DOMParser.from_schema(sinfo.schema)
    for html in EDGE_HTML:
        sid = ctx.driver.add_schema(sinfo)
        dom = html_fragment(html)
        (st_r, doc_r), pcs = recorded(sinfo, lambda: sparser.parse(dom))
        if st_r == "ok" and len(pcs) == 1 and pcs[0]._supported:
            preqs.append(placement_request(sinfo, sid, pcs[0]))
            pmetas.append(({"schema": "strip", "html": html}, sinfo, pcs[0], "edge"))
            st_c, _ = outcome(doc_r.check)
            ctx.count("edge_case_real_doc_" + ("valid" if st_c == "ok" else "invalid"))
    infos["strip"] = sinfo
    if preqs:
        # the decidable schema hypotheses of the placement theorems (Det, TextStable) on every schema of the tie
        hyp_infos = list(infos.values())
        houts = ctx.driver.run([{"op": "domHyps", "s": ctx.driver.add_schema(i)} for i in hyp_infos])
        for i, o in zip(hyp_infos, houts):
            h = o.get("ok") or {}
            allh = h.get("det") and h.get("textStable") and h.get("leafOk")
            ctx.count("theorem_hypotheses_hold" if allh else "theorem_hypotheses_fail:" + i.name)
            if not allh:
                ctx.notes.append(f"schema {i.name}: Det={h.get('det')} TextStable={h.get('textStable')} LeafOk={h.get('leafOk')} — "
                                 "placement_finish_valid does not apply to it (placement_finish_marks does; placement_match_coherent needs Det)")
        outs = ctx.driver.run(preqs)
        for (replay, info, pc, kind), out in zip(pmetas, outs):
            ctx.count("model_requests")
            placement_compare(ctx, replay, info, pc, out, kind)
            if kind == "parse_slice" and "open" in out and out["open"] != replay["open"]:
                ctx.mismatch("placement-slice-open", replay, replay["open"], out["open"])
    # ---- export, escaping, round trip
    for name, schema in parse_schemas[:2]:
        info = schemas.by_name(name)
        ser = DOMSerializer.from_schema(schema)
        for _ in range(ctx.budget(120, 1200)):
            if ctx.time_left() < 0:
                break
            d = gen.gen_doc(rng, schema, budget=rng.choice([6, 12, 25]))
            replay = {"schema": name, "doc": d.to_json()}
            ctx.case(["serialize", name, d.to_json()], sample={"op": "serialize+parse", "schema": name, "doc": str(d)[:160]})
            st, html = outcome(lambda: str(ser.serialize_fragment(d.content)))
            ctx.count("serialize:" + st)
            if st != "ok":
                ctx.violation("serialize-raises", f"serialising a valid document raised {html}", replay)
                continue
            # escaping: re-reading the HTML with an independent parser gives back exactly the document's text
            stl, frag = outcome(lambda: lxml.html.fragment_fromstring(html, create_parent="div"))
            if stl == "ok":
                got_text = "".join(frag.itertext())
                want_text = d.text_between(0, d.content.size, "")
                norm = lambda s: re.sub(r"\r\n?", "\n", s)
                if norm(got_text) != norm(want_text):
                    ctx.violation("escape", "text is not preserved by serialisation + an independent HTML reader (escaping)",
                                  dict(replay, html=html[:400], got=got_text[:200], want=want_text[:200]))
            if whitespace_normal(d) and carried_attrs(d):
                ctx.count("roundtrip:eligible")
                st2, j = outcome(lambda: from_html(schema, html), 5.0)
                if st2 != "ok":
                    ctx.violation("roundtrip-raises", f"parsing the serialised HTML raised {j}", dict(replay, html=html[:600]))
                elif json.dumps(j, sort_keys=True) != json.dumps(d.to_json(), sort_keys=True):
                    ctx.violation("roundtrip", "parsing the serialised HTML back does not give an equal document",
                                  dict(replay, html=html[:600], parsed=j))
            ids = {}
            reqs.append({"op": "serialize", "kids": [snode_json(ser, c, ids) for c in d.content.content]})
            metas.append((replay, html))
    if reqs and any(r["op"] == "serialize" for r in reqs):
        outs = ctx.driver.run(reqs)
        for req, (replay, html), out in zip(reqs, metas, outs):
            ctx.count("model_requests")
            if out.get("ok") != html:
                ctx.mismatch("serialize", replay, html[:400], (out.get("ok") or str(out))[:400])
    return ctx.finish(
        rule="a case is a generated HTML fragment (block/inline/list/table/ignorable vocabulary, random nesting, whitespace, style "
             "attributes, missing attributes, comments) parsed under the basic / list / context-rule schema, or a generated valid "
             "document of the bundled schemas serialised and — when whitespace-normal with attributes the rules carry — parsed back",
        level_note="partial: termination and crash-freedom of DOM walking, rule/selector/regex matching and lxml parsing live in external "
                   "C libraries and `re` and are decided by search only; modelled and tied on the import side: context expressions "
                   "(matches_context, exact) and the placement core of ParseContext/NodeContext (recorded-event tie: the real parse's "
                   "calls into the core are replayed through the model, per-event observations and the final document compared)")


if __name__ == "__main__":
    core.main("C19", run)
