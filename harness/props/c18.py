"""C18 — edits made inside an isolating node never reach outside it.

Tie: Slice.max_open exactly (documented, deterministic) with lean/PM/Replace.lean `Slice.maxOpen`;
relational for the range-expansion / fitting heuristics: the Lean monitor `insideNode`
(lean/PM/Monitor.lean) is evaluated on every step delete_range / replace_range / replace / delete /
replace_with emit for ranges inside an isolating node, and each emitted step is applied by the model
too; lift targets and approved splits must stay inside.
`delete_range`'s widened range is tied exactly to lean/PM/RangeOps.lean (harness/rangeplan.py), for which Props/C18.lean
proves that it stays inside an isolating node containing both ends; likewise every range `replace_range` hands to
`Transform.replace` (lean/PM/ReplaceRange.lean, `replaceRange_inside_isolating`) and the pair `replace_range_with` passes on
(`replaceRangeWith_target`; insert_point may move it outside: open finding C18-insert-point-outside).
Search: tokens before the node's opening and after its closing unchanged, the node itself (type,
attributes, marks) still there — for all ranges inside isolating nodes incl. their whole content.
"""
from prosemirror.model import Fragment, Node, Slice
from prosemirror.transform import Transform
from prosemirror.transform.replace import covered_depths
from prosemirror.transform.structure import NodeTypeWithAttrs, can_split, lift_target

from .. import core, gen, ops, rangeplan, schemas
from ..codec import doc_tokens
from ..core import outcome


def iso_nodes(doc):
    """(start, end, depth) of every node whose type is declared isolating"""
    out = []

    def walk(node, start, depth):
        pos = start
        for i in range(node.child_count):
            c = node.child(i)
            if c.type.spec.get("isolating"):
                out.append((pos, pos + c.node_size, depth + 1, c))
            if not c.is_leaf and not c.is_text:
                walk(c, pos + 1, depth + 1)
            pos += c.node_size
    walk(doc, 0, 0)
    return out


def match_close(toks, i):
    d = 0
    for j in range(i, len(toks)):
        if toks[j][0] == "op":
            d += 1
        elif toks[j][0] == "cl":
            d -= 1
            if d == 0:
                return j
    return None


def is_subseq(a, b):
    it = iter(b)
    return all(any(x == y for y in it) for x in a)


def aimed_nested_doc(rng, info):
    """a list inside an isolating node that itself sits inside a list item (and, for the table schema, inside a cell of a
    table inside a list item): lifting the inner items must stop at the isolating node although an ancestor list further
    out could hold them"""
    S = info.schema
    n = S.node
    def para(t):
        return n("paragraph", None, [S.text(t)] if t else [])
    inner = n(rng.choice(["bullet_list", "ordered_list"]), None,
              [n("list_item", None, [para(rng.choice(["a", "bc", ""]))] +
                 ([n("bullet_list", None, [n("list_item", None, [para("n")])])] if rng.random() < 0.3 else []))
               for _ in range(rng.randint(1, 3))])
    if "iso" in S.nodes and (rng.random() < 0.5 or "table" not in S.nodes):
        holder = n("iso", None, [inner] + ([para("t")] if rng.random() < 0.4 else []))
        if rng.random() < 0.4:
            holder = n("blockquote", None, [holder])
    elif "table" in S.nodes:
        holder = n("table", None, [n("row", None, [n("cell", None, [inner]), ] + ([n("cell", None, [para("c")])] if rng.random() < 0.5 else []))])
    else:
        return None
    outer = n("bullet_list", None, [n("list_item", None, [para("x"), holder])] + ([n("list_item", None, [para("y")])] if rng.random() < 0.5 else []))
    d = n("doc", None, [outer] + ([para("z")] if rng.random() < 0.5 else []))
    st, _ = outcome(d.check)
    return d if st == "ok" else None


def gen_types_after(rng, schema, r, dp, iso_depth):
    """a `types_after` list for can_split / split at `r`, `dp` levels deep: one entry per split level (outermost first),
    each the type the node has anyway (with its attributes) or another block type at random — for the level of an isolating
    node mostly a type that is *not* isolating; sometimes only the outer levels are named (a shorter list)"""
    cands = [t for t in schema.nodes.values() if not t.is_leaf and not t.is_text and not t.is_inline and not t.has_required_attrs()]
    plain = [t for t in cands if not t.spec.get("isolating")]
    out, changed = [], False
    for i in range(dp):
        node = r.node(r.depth - dp + 1 + i)
        is_iso = bool(node.type.spec.get("isolating"))
        x = rng.random()
        if x < (0.2 if is_iso else 0.55) or not cands:
            out.append(NodeTypeWithAttrs(node.type, node.attrs))
            continue
        pool = plain if (is_iso and plain and rng.random() < 0.85) else cands
        if node.inline_content and rng.random() < 0.7:
            pool = [t for t in pool if t.inline_content] or pool
        elif not node.inline_content and rng.random() < 0.7:
            pool = [t for t in pool if not t.inline_content] or pool
        t = rng.choice(pool)
        out.append(NodeTypeWithAttrs(t, gen.gen_attrs(rng, t)))
        changed = changed or t is not node.type
    if not changed:
        return None
    if dp > 1 and rng.random() < 0.15:
        out = out[:rng.randint(1, dp - 1)]
    return out


def describe_types(ta):
    return [[x.type.name, x.attrs] for x in ta]


class Mirror:
    """the like-named schema variant in which no node type is isolating (schemas.flag_variant "strip"): the same documents
    (through JSON) and the same calls, made there *before* they are made on the schema under check.  Nothing is checked on
    the variant — the property says nothing about it; what is checked is that the answers for the isolating schema do not
    depend on what the library was asked about another schema with equal type names earlier in the process."""

    def __init__(self, info):
        self.info = schemas.flag_variant(info, "strip")
        self.S = self.info.schema
        self._docs = {}

    def doc(self, d):
        if id(d) not in self._docs:
            self._docs[id(d)] = (d, Node.from_json(self.S, d.to_json()))
        return self._docs[id(d)][1]

    def conv(self, a):
        if isinstance(a, Slice):
            return Slice.from_json(self.S, a.to_json())
        if isinstance(a, Node):
            return Node.from_json(self.S, a.to_json())
        if isinstance(a, NodeTypeWithAttrs):
            return NodeTypeWithAttrs(self.S.nodes[a.type.name], a.attrs)
        if isinstance(a, list):
            return [self.conv(x) for x in a]
        return a

    def op(self, ctx, d, name, args):
        d2 = self.doc(d)
        args2 = [self.conv(a) for a in args]
        st, _ = outcome(lambda: getattr(Transform(d2), name)(*args2))
        ctx.count("same call first on the like-named schema without isolating nodes")
        return st

    def probes(self, ctx, d, p, q, types_after):
        d2 = self.doc(d)
        f_, t_ = min(p, q), max(p, q)
        outcome(lambda: covered_depths(d2.resolve(f_), d2.resolve(t_)))
        br = outcome(lambda: d2.resolve(f_).block_range(d2.resolve(t_)))
        if br[0] == "ok" and br[1] is not None:
            outcome(lambda: lift_target(br[1]))
        for dp in (1, 2, 3):
            outcome(lambda: can_split(d2, p, dp))
        for dp, ta in types_after:
            outcome(lambda: can_split(d2, p, dp, self.conv(ta)))
        ctx.count("same probes first on the like-named schema without isolating nodes")


def gen_iso_doc(rng, info):
    if rng.random() < 0.3:
        d = aimed_nested_doc(rng, info)
        if d is not None and iso_nodes(d):
            return d
    for _ in range(30):
        d = gen.gen_doc(rng, info.schema, budget=rng.choice([12, 25, 40]))
        if iso_nodes(d):
            return d
    return None


def run(ctx):
    core.lean_phase(ctx)
    rng = ctx.rng
    reqs, metas = [], []

    def flush():
        outs = ctx.driver.run(reqs) if reqs else []
        for req, (op, replay, exp), out in zip(reqs, metas, outs):
            ctx.count("model_requests")
            if op in rangeplan.EXACT_OPS:
                # lean/PM/RangeOps.lean, Fitter.lean: the range delete_range hands to Transform.delete and the step replace_step
                # emits, exact (incl. "the code raises")
                if rangeplan.answer(out) != exp:
                    ctx.mismatch(op, replay, exp, out)
                if op == "fitGuards":
                    # relational: the model's guards true => the real replace_step neither raised nor hung
                    rangeplan.check_fit_guards(ctx, replay, out)
                continue
            if op == "inside":
                # the monitor is sufficient, not necessary: a step may re-create the node's own close tokens from its slice
                # (range reaching past the closing) and still leave everything outside intact — such steps are decided by
                # the oracle above only; the theorem covers the steps the monitor accepts
                ctx.count("monitor isoSafe:" + str(out.get("ok") == [True]).lower())
                continue
            if out.get("ok") != exp:
                ctx.mismatch(op, replay, exp if op != "apply" else "recorded document", out if ("err" in out or op != "apply") else "different document")
        del reqs[:], metas[:]

    fams = [schemas.by_name("iso"), schemas.by_name("table")]
    kinds = ["delete_range", "replace_range", "replace", "delete", "replace_with", "replace_range_with", "insert"]
    for si in range(ctx.budget(8, 40)):
        if len(reqs) >= 15000:
            flush()     # keep memory bounded in long runs
        info = fams[(si // 3) % 2 if si % 3 == 2 else si % 2]
        if si % 3 == 2:
            # a further isolating variant with the *same type names*: the isolating flag moved from `iso` / `table` / `cell` to
            # other block containers of the schema (blockquote, lists, items, rows …).  Used alternately with the two fixed
            # variants in one process: what the library answers must depend on the schema at hand, not on the names.
            info = schemas.flag_variant(info, "move", rng)
            ctx.count("schema: isolating flags moved to other containers")
        schema = info.schema
        ctx.driver.add_schema(info)
        mirror = Mirror(info)
        docs = [x for x in (gen_iso_doc(rng, info) for _ in range(ctx.budget(4, 8))) if x is not None]
        if not docs:
            continue
        for di, d in enumerate(docs):
            ctx.driver.add_schema(info)     # (a violation's replay names the schema used last)
            old = doc_tokens(d)
            # ---- Slice.max_open, both flags (exact)
            for n in [d] + [c for (_, _, _, c) in iso_nodes(d)]:
                for flag in (True, False):
                    mo = Slice.max_open(n.content, flag)
                    # oracle: open depth on each side = leading/trailing run of non-leaf nodes, stopping at isolating ones unless asked
                    def depth_side(frag, first):
                        k, cur = 0, frag
                        while True:
                            c = (cur.first_child if first else cur.last_child)
                            if c is None or c.is_leaf or (not flag and c.type.spec.get("isolating")):
                                return k
                            k += 1
                            cur = c.content
                    want = (depth_side(n.content, True), depth_side(n.content, False))
                    replay = {"schema": info.name, "fragment": n.content.to_json(), "open_isolating": flag}
                    ctx.case(["max_open", info.name, n.content.to_json(), flag])
                    if (mo.open_start, mo.open_end) != want:
                        ctx.violation("max_open", "Slice.max_open opens the wrong depths", dict(replay, got=[mo.open_start, mo.open_end], expected=list(want)))
                    reqs.append({"op": "sliceOps", "s": info.lean_id, "k": "maxOpen", "slice": info.slice(Slice(n.content, 0, 0)), "openIso": flag})
                    metas.append(("maxOpen", replay, info.slice(mo)))
            for (a, b, depth, node) in iso_nodes(d):
                inner = [p for p in gen.aligned_positions(d) if a + 1 <= p <= b - 1]
                pairs = [(a + 1, b - 1)] + [tuple(sorted((rng.choice(inner), rng.choice(inner)))) for _ in range(ctx.budget(8, 20))]
                for pi_, (f, t) in enumerate(pairs):
                    if ctx.time_left() < 0:
                        break
                    # every call of this case is made on the like-named schema without isolating nodes first: for the first
                    # cases of the first document of a schema, now and then later
                    mirror_now = (di == 0 and pi_ < 6) or rng.random() < 0.1
                    if mirror_now:
                        mirror.op(ctx, d, "delete_range", [f, t])
                    # the range delete_range widens [f, t] to (tied exactly to the model, for which Props/C18.lean proves
                    # `deleteRange_inside_isolating`): it must stay within the isolating node's content
                    tgt = rangeplan.tie_delete_range(ctx, info, d, f, t, reqs, metas, extra={"iso": [a, b]})
                    if tgt != rangeplan.RAISES and not (a + 1 <= tgt[0] and tgt[1] <= b - 1):
                        ctx.violation("delete_range-crosses", "delete_range widens a range inside an isolating node beyond the node's content",
                                      {"schema": info.name, "doc": d.to_json(), "from": f, "to": t, "iso": [a, b], "target": tgt})
                    name = rng.choice(kinds)
                    if name in ("delete_range", "delete"):
                        args = [f, t]
                    elif name in ("replace_range", "replace"):
                        args = [f, t, gen.random_slice(rng, docs)]
                    elif name == "insert":
                        n2 = ops.random_node(rng, info, docs)
                        args = [f, n2]
                    else:
                        n2 = ops.random_node(rng, info, docs)
                        args = [f, t, n2]
                    if any(x is None for x in args):
                        continue
                    # replace_range as a whole (lean/PM/ReplaceRange.lean, tied exactly; Props/C18.lean proves
                    # `replaceRange_inside_isolating`): every range it hands to Transform.replace stays within the node's content
                    rr_slice = args[2] if name in ("replace_range", "replace") else Slice.empty if name in ("delete_range", "delete") \
                        else Slice(Fragment.from_(n2), 0, 0)
                    if mirror_now:
                        mirror.op(ctx, d, "replace_range", [f, f if name == "insert" else t, rr_slice])
                        mirror.op(ctx, d, name, args)
                    plan = rangeplan.tie_replace_range(ctx, info, d, f, f if name == "insert" else t, rr_slice, reqs, metas, extra={"iso": [a, b]})
                    if isinstance(plan, list):
                        for (x, y, _) in ([plan[1]] if plan[0] == "direct" else plan[1]):
                            if not (a + 1 <= x and y <= b - 1):
                                ctx.violation("replace_range-crosses", "replace_range hands Transform.replace a range reaching outside the isolating node that contains both ends",
                                              {"schema": info.name, "doc": d.to_json(), "from": f, "to": t, "iso": [a, b], "slice": rr_slice.to_json(), "call": [x, y]})
                    if name in ("replace_with", "replace_range_with", "insert"):
                        # replace_range_with: the pair it passes on is insert_point's answer (which may lie outside the node:
                        # open finding C18-insert-point-outside, decided by the oracle below) — tied exactly
                        rangeplan.tie_replace_range_with(ctx, info, d, f, f if name == "insert" else t, n2, reqs, metas, extra={"iso": [a, b]})
                    # the Fitter (lean/PM/Fitter.lean): the step replace_step emits for the request inside the node, exactly
                    if name in ("replace", "replace_range"):
                        rangeplan.tie_replace_step(ctx, info, d, f, t, args[2], reqs, metas)
                    elif name in ("delete", "delete_range"):
                        rangeplan.tie_replace_step(ctx, info, d, f, t, Slice.empty, reqs, metas)
                        rangeplan.tie_delete_range_step(ctx, info, d, f, t, reqs, metas)
                    elif name in ("replace_with", "replace_range_with"):
                        rangeplan.tie_replace_step(ctx, info, d, f, t, Slice(Fragment.from_(n2), 0, 0), reqs, metas)
                    else:
                        rangeplan.tie_replace_step(ctx, info, d, f, f, Slice(Fragment.from_(n2), 0, 0), reqs, metas)
                    tr = Transform(d)
                    st, val, added = ops.run_op(tr, lambda tr_: getattr(tr_, name)(*args))
                    replay = {"schema": info.name, "doc": d.to_json(), "iso": [a, b], **ops.describe(name, args)}
                    ctx.case([name, info.name, d.to_json(), a, b, ops.describe(name, args)["args"]], nontrivial=added > 0,
                             sample={"op": name, "schema": info.name, "iso_node": [a, b], "range": [f, t], "steps": [s.to_json() for s in tr.steps][:2]})
                    ctx.count(f"{name}:{st}")
                    if st != "ok":
                        ctx.violation("raises", f"{name} raised {val} for a range inside an isolating node", replay)
                        continue
                    new = doc_tokens(tr.doc)
                    delta = len(new) - len(old)
                    # the property, literally: every token up to and including the node's opening and from its closing on is
                    # unchanged (so the node is neither removed nor split nor merged, and nothing is added outside it)
                    tail = len(old) - (b - 1)
                    strict_ok = (len(new) >= a + 1 + tail and new[:a + 1] == old[:a + 1] and new[len(new) - tail:] == old[b - 1:]
                                 and match_close(new, a) == len(new) - tail)
                    if not strict_ok:
                        # data for classifying the failure (pure function of the replay): do the old outside tokens survive in
                        # order around an intact copy of the node (something was only *added* outside), and do all emitted
                        # steps lie inside the node's content
                        relaxed_ok = False
                        for i in [i for i, tk in enumerate(new) if tk == old[a]]:
                            j = match_close(new, i)
                            if j is not None and is_subseq(old[:a], new[:i]) and is_subseq(old[b:], new[j + 1:]):
                                relaxed_ok = True
                                break
                        lo, hi, inside = a + 1, b - 1, True
                        for k, s_ in enumerate(tr.steps):
                            # the step starts inside the node's content and ends inside it, or runs on only over closing tokens
                            # (which its slice then has to re-create: `survives_in_order` says they are still there)
                            if not (lo <= s_.from_ <= hi and s_.from_ <= s_.to) or \
                                    (s_.to > hi and any(tk[0] != "cl" for tk in doc_tokens(tr.docs[k])[hi:s_.to])):
                                inside = False
                                break
                            nxt_ = tr.docs[k + 1] if k + 1 < len(tr.docs) else tr.doc
                            hi += nxt_.content.size - tr.docs[k].content.size
                        pure_outside = (len(tr.steps) == 1 and tr.steps[0].from_ == tr.steps[0].to and hasattr(tr.steps[0], "slice")
                                        and not hasattr(tr.steps[0], "gap_from") and not (a + 1 <= tr.steps[0].from_ <= b - 1))
                        ctx.violation("escaped", f"{name} changed tokens outside the isolating node's content (before/at its opening or from its closing on), "
                                                 "or removed/split/merged the node",
                                      dict(replay, steps=[s_.to_json() for s_ in tr.steps], result=tr.doc.to_json(),
                                           survives_in_order=relaxed_ok, steps_inside=inside, pure_insert_outside=pure_outside))
                    cur_a, cur_b = a, b
                    for k, s in enumerate(tr.steps):
                        if getattr(s, "from_", None) is not None and s.from_ == getattr(s, "to", None) and s.from_ <= cur_a:
                            shift_before = (tr.docs[k + 1] if k + 1 < len(tr.docs) else tr.doc).content.size - tr.docs[k].content.size
                        else:
                            shift_before = 0
                        nxt = tr.docs[k + 1] if k + 1 < len(tr.docs) else tr.doc
                        reqs.append({"op": "apply", "s": info.lean_id, "doc": info.node(tr.docs[k]), "step": info.step(s)})
                        metas.append(("apply", replay, info.node(nxt)))
                        reqs.append({"op": "monitor", "k": "inside", "doc": info.node(tr.docs[k]), "a": cur_a, "b": cur_b, "steps": [info.step(s)]})
                        metas.append(("inside", dict(replay, step=s.to_json()), [True]))
                        cur_b += nxt.content.size - tr.docs[k].content.size   # position after the (possibly re-closed) node + inserted tail
                        cur_a += shift_before
                # ---- lift targets and splits stay inside
                for p in inner[:40]:
                    r = d.resolve(p)
                    # `types_after` lists for the splits that would cross the node's boundary (and for one that would not)
                    tas = []
                    for dp in (1, 2, 3):
                        if 0 <= r.depth - dp and (r.depth - dp < depth or rng.random() < 0.25):
                            ta = gen_types_after(rng, schema, r, dp, depth)
                            if ta is not None:
                                tas.append((dp, ta))
                    # covered_depths / lift_target / can_split tied exactly to the model (PM/Structure.lean), whose answers
                    # Props/C18.lean proves never to cross an isolating ancestor
                    q = rng.choice(inner)
                    if di == 0 or rng.random() < 0.1:
                        mirror.probes(ctx, d, p, q, tas)
                    f_, t_ = min(p, q), max(p, q)
                    stc, cov = outcome(lambda: covered_depths(d.resolve(f_), d.resolve(t_)))
                    if stc == "ok":
                        reqs.append({"op": "coveredDepths", "s": info.lean_id, "doc": info.node(d), "from": f_, "to": t_})
                        metas.append(("coveredDepths", {"schema": info.name, "doc": d.to_json(), "from": f_, "to": t_, "iso": [a, b]}, list(cov)))
                        if any(x <= depth for x in cov):
                            ctx.violation("covered-crosses", "covered_depths reports a depth at or above the isolating ancestor of both ends",
                                          {"schema": info.name, "doc": d.to_json(), "from": f_, "to": t_, "iso": [a, b], "iso_depth": depth, "covered": list(cov)})
                    elif gen.pair_aligned(d, f_) and gen.pair_aligned(d, t_):
                        ctx.violation("covered_depths-raises", f"covered_depths raised {cov}", {"schema": info.name, "doc": d.to_json(), "from": f_, "to": t_})
                    br2 = outcome(lambda: d.resolve(f_).block_range(d.resolve(t_)))
                    if br2[0] == "ok" and br2[1] is not None:
                        stl2, tgt2 = outcome(lambda: lift_target(br2[1]))
                        if stl2 == "ok":
                            reqs.append({"op": "liftTarget", "s": info.lean_id, "doc": info.node(d), "from": f_, "to": t_, "depth": br2[1].depth})
                            metas.append(("liftTarget", {"schema": info.name, "doc": d.to_json(), "from": f_, "to": t_, "depth": br2[1].depth}, tgt2))
                        # the edit itself, the way an editor performs it: both ends of the selection lie inside the node's
                        # content, the block range is the library's own answer for them, the lift follows its lift_target —
                        # literally: nothing up to and including the node's opening and from its closing on may change
                        # (a selection directly in the node's content that is collapsed — or any selection directly in an isolating
                        # node with inline content — has, by the documented rule, the node itself as its block range: a range around
                        # the node, not inside it; left out.  The condition is the hypothesis of `blockRange_inside_isolating`.)
                        if stl2 == "ok" and tgt2 is not None and \
                                d.resolve(f_).depth - (1 if (d.resolve(f_).parent.inline_content or f_ == t_) else 0) >= depth:
                            old_l = doc_tokens(d)
                            trl = Transform(d)
                            stL, valL, _ = ops.run_op(trl, lambda tr_: tr_.lift(br2[1], tgt2))
                            ctx.count("lift of a selection inside:" + stL)
                            if stL == "ok":
                                new_l = doc_tokens(trl.doc)
                                tail_l = len(old_l) - (b - 1)
                                if not (len(new_l) >= a + 1 + tail_l and new_l[:a + 1] == old_l[:a + 1] and new_l[len(new_l) - tail_l:] == old_l[b - 1:]
                                        and match_close(new_l, a) == len(new_l) - tail_l):
                                    ctx.violation("lift-escaped", "lifting the block range of a selection inside an isolating node changed tokens outside the node's content",
                                                  {"schema": info.name, "doc": d.to_json(), "from": f_, "to": t_, "iso": [a, b],
                                                   "range": [br2[1].start, br2[1].end, br2[1].depth], "target": tgt2})
                    for dp in (1, 2, 3):
                        sts2, ok2 = outcome(lambda: can_split(d, p, dp))
                        if sts2 == "ok":
                            reqs.append({"op": "canSplit", "s": info.lean_id, "doc": info.node(d), "pos": p, "depth": dp})
                            metas.append(("canSplit", {"schema": info.name, "doc": d.to_json(), "pos": p, "depth": dp}, bool(ok2)))
                    br = r.block_range()
                    if br is not None and br.depth >= depth:
                        stl, tgt = outcome(lambda: lift_target(br))
                        if stl != "ok":
                            ctx.violation("lift_target-raises", f"lift_target raised {tgt}", {"schema": info.name, "doc": d.to_json(), "pos": p})
                        elif tgt is not None and tgt < depth:
                            ctx.violation("lift-crosses", "lift_target crosses the isolating node's boundary",
                                          {"schema": info.name, "doc": d.to_json(), "pos": p, "iso": [a, b], "iso_depth": depth, "target": tgt})
                    for dp in (1, 2, 3):
                        if r.depth - dp < depth and r.depth - dp >= 0:
                            sts, ok = outcome(lambda: can_split(d, p, dp))
                            if sts not in ("ok",):
                                if gen.pair_aligned(d, p):
                                    ctx.violation("can_split-raises", f"can_split raised {ok}", {"schema": info.name, "doc": d.to_json(), "pos": p, "depth": dp})
                            elif ok:
                                ctx.violation("split-crosses", "can_split approves a split that crosses the isolating node's boundary",
                                              {"schema": info.name, "doc": d.to_json(), "pos": p, "depth": dp, "iso": [a, b], "iso_depth": depth})
                    for dp, ta in tas:
                        crossing = r.depth - dp < depth
                        rp_ = {"schema": info.name, "doc": d.to_json(), "pos": p, "depth": dp, "types_after": describe_types(ta), "iso": [a, b], "iso_depth": depth}
                        sts, ok = outcome(lambda: can_split(d, p, dp, ta))
                        ctx.count("can_split with types_after (" + ("crossing" if crossing else "inside") + "):" + (str(bool(ok)) if sts == "ok" else sts))
                        if sts != "ok":
                            if sts in ("internal", "hang") and gen.pair_aligned(d, p):
                                ctx.violation("can_split-raises", f"can_split with types_after raised {ok}", rp_)
                            continue
                        if ok and crossing:
                            ctx.violation("split-crosses", "can_split (with types_after) approves a split that crosses the isolating node's boundary", rp_)
                        elif ok:
                            # approved and inside: the split itself leaves everything outside the node's content alone
                            old_s = doc_tokens(d)
                            trs = Transform(d)
                            stS, valS, _ = ops.run_op(trs, lambda tr_: tr_.split(p, dp, ta))
                            if stS == "ok":
                                new_s = doc_tokens(trs.doc)
                                tail_s = len(old_s) - (b - 1)
                                if not (len(new_s) >= a + 1 + tail_s and new_s[:a + 1] == old_s[:a + 1] and new_s[len(new_s) - tail_s:] == old_s[b - 1:]
                                        and match_close(new_s, a) == len(new_s) - tail_s):
                                    ctx.violation("split-escaped", "an approved split inside an isolating node changed tokens outside the node's content", rp_)
                    ctx.count("lift/split probes")
    flush()
    return ctx.finish(
        rule="a case is (isolating/table-like schema, document containing isolating nodes, one isolating node, a range inside its "
             "content incl. the whole content, one replace-family operation with a random slice/node); plus Slice.max_open on every "
             "node content with both flags and lift/split probes at positions inside; non-trivial = a step was emitted")


if __name__ == "__main__":
    core.main("C18", run)
