"""C01 — applying a step never yields a schema-invalid document.

Tie: exact correspondence of Step.apply for the eight step kinds (result document, or outcome
class at the granularity the property distinguishes: failed result / ValueError-family are one
class) with lean/PM/Step.lean, including steps decoded from JSON.
Search: on every applied step: failed result or ValueError, or a document accepted by `check()`
AND by the independent spec validator; any other exception class is a violation.
"""
import json

from prosemirror.transform import Step

from .. import core, gen, schemas
from ..core import outcome
from ..validator import validator


def apply_outcome(step, doc):
    st, res = outcome(lambda: step.apply(doc))
    if st == "ok":
        if res.failed is not None or res.doc is None:
            return "failed", res.failed
        return "ok", res.doc
    return st, res


def payload_valid(step, schema):
    """slice payloads cut from valid documents are valid by construction; wrappers are generated empty"""
    return True


def run(ctx):
    core.lean_phase(ctx)
    rng = ctx.rng
    reqs, metas = [], []

    def flush():
        outs = ctx.driver.run(reqs) if reqs else []
        for req, (replay, st, val_), out in zip(reqs, metas, outs):
            ctx.count("model_requests")
            if "bad" in out:
                ctx.mismatch("apply", replay, st, out)
            elif st == "ok":
                if out.get("ok") != val_:
                    ctx.mismatch("apply", replay, "ok", out if "err" in out else {"different": out.get("ok")})
            else:
                cls = "rejected" if st in ("failed", "valueError") else st
                mcls = "rejected" if out.get("err") in ("failed", "valueError") else out.get("err", "ok")
                if cls != mcls:
                    ctx.mismatch("apply", replay, st, out if "err" in out else "ok")
        del reqs[:], metas[:]

    fam = schemas.family()
    n_schemas = ctx.budget(14, 70)
    for si in range(n_schemas):
        if len(reqs) >= 15000:
            flush()     # keep memory bounded in long runs
        info = fam[si % len(fam)] if si < len(fam) or rng.random() < 0.4 else schemas.random_schema(rng)
        schema = info.schema
        val = validator(schema)
        ctx.driver.add_schema(info)
        ctx.count("schema:" + info.name)
        docs = [gen.gen_doc(rng, schema, budget=rng.choice([6, 12, 25])) for _ in range(ctx.budget(6, 12))]
        for d in docs:
            p0 = val.problem(d.to_json())
            if p0:
                ctx.notes.append(f"generator produced a document the spec validator rejects ({info.name}): {p0}")
                continue
            for k in range(ctx.budget(18, 60)):
                if ctx.time_left() < 0:
                    break
                step = gen.gen_step(rng, info, d, docs)
                via_json = rng.random() < 0.3
                if via_json:
                    stj, step2 = outcome(lambda: Step.from_json(schema, json.loads(json.dumps(step.to_json()))))
                    if stj != "ok":
                        continue
                    step = step2
                kind = type(step).__name__
                st, res = apply_outcome(step, d)
                sj = info.step(step)
                ctx.case(["apply", info.name, d.to_json(), sj],
                         sample={"op": "apply", "schema": info.name, "doc": str(d)[:200], "step": step.to_json(), "outcome": st})
                ctx.count(f"{kind}:{st}")
                replay = {"schema": info.name, "schema_spec_nodes": {n: {k2: v for k2, v in t.spec.items() if isinstance(v, (str, bool, int, dict))}
                                                                     for n, t in schema.nodes.items()} if info.name == "random" else None,
                          "doc": d.to_json(), "step": step.to_json(), "via_json": via_json}
                if st == "ok":
                    stc, err = outcome(res.check)
                    prob = val.problem(res.to_json())
                    if stc != "ok" or prob:
                        ctx.violation("invalid-result", "step returned a schema-invalid document: " + (prob or str(err)),
                                      dict(replay, result=res.to_json()))
                elif st in ("internal", "hang"):
                    ctx.violation("internal-error", f"Step.apply died with an internal error: {res}", replay)
                reqs.append({"op": "apply", "s": info.lean_id, "doc": info.node(d), "step": sj})
                metas.append((replay, st, info.node(res) if st == "ok" else None))
    flush()
    return ctx.finish(
        rule="a case is (schema, valid document, step) with the step of a random kind among the eight, positions inside "
             "the document, slices cut from other valid documents (all open depths), wrappers plausible and implausible, "
             "30% of the steps passed through JSON; distinct by content")


if __name__ == "__main__":
    core.main("C01", run)
