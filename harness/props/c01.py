"""C01 — applying a step never yields a schema-invalid document.

Tie: exact correspondence of Step.apply for the eight step kinds (result document, or outcome
class at the granularity the property distinguishes: failed result / ValueError-family are one
class) with lean/PM/Step.lean, including steps decoded from JSON.
Search: on every applied step: failed result or ValueError, or a document accepted by `check()`
AND by the independent spec validator; any other exception class is a violation.

Aimed: replace-around steps whose insertion point lies outside their slice (`insert` in (size, size + open_end], negative
`insert` before an open start): refused by `Slice.insert_at` (second repair for C01) — validity oracle, exact tie for the
non-negative ones (the model's positions are naturals), expectation "refused".

Second stream ("payload well-formedness", `apply_no_internal'`): steps whose slices carry perturbed open
depths / insert offsets and whose positions may lie outside the document.  Tie: `StepWF` / `StepOrdered`
of lean/PM/StepWF.lean against their re-statement on the real objects (exact), and `apply` (exact) on the
well-formed, ordered ones.  Oracle: a well-formed, ordered step must not end in an internal error; the
internal errors met on ill-formed payloads are counted (they show the hypothesis is needed).
"""
import json

from prosemirror.model import Fragment, Node, Schema, Slice
from prosemirror.transform import AddMarkStep, RemoveMarkStep, ReplaceAroundStep, ReplaceStep, Step

from .. import core, gen, schemas
from ..codec import SchemaInfo
from ..core import outcome
from ..validator import validator


def apply_outcome(step, doc):
    st, res = outcome(lambda: step.apply(doc))
    if st == "ok":
        if res.failed is not None or res.doc is None:
            return "failed", res.failed
        return "ok", res.doc
    return st, res


def _spine(fragment, left):
    d, n = 0, (fragment.first_child if left else fragment.last_child)
    while n is not None and not n.is_leaf and not n.is_text:
        d += 1
        n = n.first_child if left else n.last_child
    return d


def slice_wf(sl):
    """`Slice.wf` of the model: the open depths are available as element spines of the content"""
    return sl.open_start <= _spine(sl.content, True) and sl.open_end <= _spine(sl.content, False)


def step_wf(step):
    """`StepWF` (lean/PM/StepWF.lean) on the real step"""
    if isinstance(step, ReplaceAroundStep):
        return slice_wf(step.slice) and step.insert <= step.slice.size
    if isinstance(step, ReplaceStep):
        return slice_wf(step.slice)
    return True


def step_ordered(step):
    """`StepOrdered`: the region in which the model follows the code"""
    if isinstance(step, ReplaceAroundStep):
        return step.from_ <= step.gap_from <= step.gap_to <= step.to
    if isinstance(step, (ReplaceStep, AddMarkStep, RemoveMarkStep)):
        return step.from_ <= step.to
    return True


def gen_wf_probe(rng, info, doc, docs):
    """a step with a possibly ill-formed payload: open depths pushed past the spines, insert offset past the
    slice, positions possibly outside the document or out of order (never negative)"""
    size = doc.content.size
    step = gen.gen_step(rng, info, doc, docs)
    pos = lambda: rng.randint(0, size + 2) if rng.random() < 0.15 else rng.randint(0, size)  # noqa: E731

    def bend(sl):
        r = rng.random()
        if r < 0.35:
            return sl
        if r < 0.5:
            return Slice(sl.content, _spine(sl.content, True), _spine(sl.content, False))
        return Slice(sl.content, max(0, sl.open_start + rng.choice([-1, 0, 1, 1, 2])),
                     max(0, sl.open_end + rng.choice([-1, 0, 1, 1, 2])))

    def kept(a, b):
        # the payload is still the slice as it was cut from a valid document (bending an open depth down turns a partly
        # present node into a complete one: not a valid payload any more, outside the property's quantifier)
        return a.open_start == b.open_start and a.open_end == b.open_end
    if isinstance(step, ReplaceAroundStep):
        sl = bend(step.slice)
        f, t, gf, gt = step.from_, step.to, step.gap_from, step.gap_to
        r = rng.random()
        if r < 0.25:
            f, gf, gt, t = sorted([pos(), pos(), pos(), pos()])
        elif r < 0.35:
            f, t, gf, gt = pos(), pos(), pos(), pos()
        ins = step.insert if rng.random() < 0.4 else rng.randint(0, max(0, sl.size) + 2)
        # the generator's wrapper slices (`<blockquote()>`) are valid only with the gap content in its place: with another
        # insertion point the slice has to be valid by itself (closed, every node passes `check()`)
        alone = sl.open_start == 0 and sl.open_end == 0 and all(
            outcome(sl.content.child(j).check)[0] == "ok" for j in range(sl.content.child_count))
        return ReplaceAroundStep(f, t, gf, gt, sl, ins, step.structure), kept(sl, step.slice) and (ins == step.insert or alone)
    if isinstance(step, ReplaceStep):
        f, t = step.from_, step.to
        r = rng.random()
        if r < 0.2:
            f, t = sorted([pos(), pos()])
        elif r < 0.3:
            f, t = pos(), pos()
        sl = bend(step.slice)
        return ReplaceStep(f, t, sl, step.structure), kept(sl, step.slice)
    if isinstance(step, (AddMarkStep, RemoveMarkStep)):
        f, t = step.from_, step.to
        r = rng.random()
        if r < 0.3:
            f, t = sorted([pos(), pos()])
        elif r < 0.4:
            f, t = pos(), pos()
        return type(step)(f, t, step.mark), True
    return step, True


def block_runs(doc):
    """(start position of the content of `parent`, parent, i) for every run of three consecutive non-leaf children
    `i, i+1, i+2` of a node of `doc` (the document itself included)"""
    out = []

    def walk(node, start):
        pos = start
        kids = [node.child(j) for j in range(node.child_count)]
        for i, ch in enumerate(kids):
            if i + 2 < len(kids) and not any(k.is_leaf or k.is_text for k in kids[i:i + 3]):
                out.append((start, node, i))
            if not ch.is_leaf and not ch.is_text:
                walk(ch, pos + 1)
            pos += ch.node_size
    walk(doc, 0)
    return out


def aimed_insert_outside(rng, doc):
    """replace-around steps whose insertion point lies outside their slice, built so that everything else about the step
    is in order (a peer can send one: `from_json` does not look at `insert`).  Three neighbouring block children
    `c0 c1 c2` of some node; the gap is `c1`.
      * open end: `from` before `c0`, `to` inside `c2`, slice `<c0'>` open 0/1 with `c0'` a copy of `c0` holding a prefix
        of its children (often none: not valid content by itself, allowed — the node is open); `insert` in
        (size, size + open_end]: the gap content lands *behind* the open node, the filled slice is open through `c1`
        instead and `c0'` goes into the document as a complete node nobody looked at;
      * open start, mirrored: `from` inside `c0`, `to` behind `c2`, slice `<c2'>` open 1/0, `insert` negative.
    `Slice.insert_at` refuses both (second repair for C01); before it the step returned a schema-invalid document.
    Returns [(step, kind)]; a step with a negative `insert` is outside the model's step type (positions are naturals)."""
    runs = block_runs(doc)
    if not runs:
        return []
    start, parent, i = rng.choice(runs)
    off = [0]
    for j in range(parent.child_count):
        off.append(off[-1] + parent.child(j).node_size)
    c0, c2 = parent.child(i), parent.child(i + 2)

    def boundary(node):
        k = rng.randint(0, node.child_count)
        return k, sum(node.child(j).node_size for j in range(k))
    out = []
    # open end
    k0 = rng.choice([0, 0, rng.randint(0, c0.child_count)])
    sl = Slice(Fragment.from_(c0.copy(c0.content.cut_by_index(0, k0))), 0, 1)
    _, b2 = boundary(c2)
    f, t = start + off[i], start + off[i + 2] + 1 + b2
    gf, gt = start + off[i + 1], start + off[i + 2]
    for ins, kind in ((sl.size + 1, "beyond-open-end"), (sl.size + 1 + rng.randint(0, 2), "beyond-open-end+"),
                      (sl.size, "at-size")):
        out.append((ReplaceAroundStep(f, t, gf, gt, sl, ins, False), kind))
    # open start
    k2 = rng.choice([c2.child_count, c2.child_count, rng.randint(0, c2.child_count)])
    sl = Slice(Fragment.from_(c2.copy(c2.content.cut_by_index(k2, c2.child_count))), 1, 0)
    _, b0 = boundary(c0)
    f, t = start + off[i] + 1 + b0, start + off[i + 3]
    gf, gt = start + off[i + 1], start + off[i + 2]
    for ins, kind in ((-1, "negative-open-start"), (-rng.randint(1, 3), "negative-open-start-"), (0, "at-zero")):
        out.append((ReplaceAroundStep(f, t, gf, gt, sl, ins, False), kind))
    return out


def payload_valid(step, schema):
    """slice payloads cut from valid documents are valid by construction; wrappers are generated empty"""
    return True


# ---- aimed cases for `insert_into` (the flat case validates the content it *built*) ------------------------------------
# Three local schemas whose textblock `para` tells apart what the old test looked at (`can_replace(index, index, gap)`:
# the unjoined sequence with the gap *before* a split text) from what is built (the two halves of the text around the
# gap, adjacent texts with equal marks joined by `Fragment.append`):
#   inside-text   `image* text*`                 gap with an image inside a text: test passed, result invalid (finding
#                                                C01-insert-inside-text) — now refused
#   optional-text `text?`                        gap text that joins the texts around it: test failed (two / three texts),
#                                                result valid — now accepted
#   join-pair     `(text (text image)? image)?`  unjoined `text text image image` matches, joined `text image image` does
#                                                not (`text text (text text)?` itself is not a constructible expression:
#                                                text in a required position) — now refused
AIMED_JOIN = {
    "inside-text": "image* text*",
    "optional-text": "text?",
    "join-pair": "(text (text image)? image)?",
}


def aimed_join_schema(shape):
    return Schema({"nodes": {"doc": {"content": "para+"}, "para": {"content": AIMED_JOIN[shape]},
                             "image": {"inline": True, "group": "inline"}, "text": {"group": "inline"}},
                   "marks": {"em": {}}})


def aimed_join_content(rng, shape):
    """a random valid content of `para`, as a list of ("text", str, marked) / ("image",) items (adjacent texts differ in marks)"""
    t = lambda marked: ("text", gen.gen_text(rng, 1, 4, plain=True), marked)  # noqa: E731
    if shape == "inside-text":
        out = [("image",)] * rng.randint(0, 2)
        m = rng.random() < 0.5
        for _ in range(rng.randint(0, 3)):
            out.append(t(m))
            m = not m
        return out
    if shape == "optional-text":
        return [t(rng.random() < 0.3)] if rng.random() < 0.8 else []
    r = rng.random()
    if r < 0.15:
        return []
    m = rng.random() < 0.5
    if r < 0.6:
        return [t(m), ("image",)]
    return [t(m), t(not m), ("image",), ("image",)]


def aimed_join_nodes(schema, items):
    em = schema.mark("em")
    return [schema.node("image") if it[0] == "image" else schema.text(it[1], [em] if it[2] else None) for it in items]


def aimed_join_built(pre_items, off, gap_items):
    """the content `insert_into` has to build and validate, stated on the items: the slice node's content cut at text
    offset `off` (in positions: an image counts 1), the gap in between, adjacent texts with equal marks joined"""
    left, right, pos = [], [], 0
    for it in pre_items:
        size = 1 if it[0] == "image" else len(it[1])
        if pos + size <= off:
            left.append(it)
        elif pos >= off:
            right.append(it)
        else:
            k = off - pos
            left.append(("text", it[1][:k], it[2]))
            right.append(("text", it[1][k:], it[2]))
        pos += size
    out = []
    for it in left + list(gap_items) + right:
        if out and out[-1][0] == "text" and it[0] == "text" and out[-1][2] == it[2]:
            out[-1] = ("text", out[-1][1] + it[1], it[2])
        else:
            out.append(it)
    return out


def aimed_join_json(items):
    return [{"type": "image"} if it[0] == "image" else
            dict({"type": "text", "text": it[1]}, **({"marks": [{"type": "em"}]} if it[2] else {})) for it in items]



def run(ctx):
    core.lean_phase(ctx)
    rng = ctx.rng
    reqs, metas = [], []

    def flush():
        outs = ctx.driver.run(reqs) if reqs else []
        for req, (replay, st, val_), out in zip(reqs, metas, outs):
            ctx.count("model_requests")
            if "bad" in out:
                ctx.mismatch("apply", replay, st, out)
            elif st == "ok":
                if out.get("ok") != val_:
                    ctx.mismatch("apply", replay, "ok", out if "err" in out else {"different": out.get("ok")})
            else:
                cls = "rejected" if st in ("failed", "valueError") else st
                mcls = "rejected" if out.get("err") in ("failed", "valueError") else out.get("err", "ok")
                if cls != mcls:
                    ctx.mismatch("apply", replay, st, out if "err" in out else "ok")
        del reqs[:], metas[:]

    wreqs, wmetas = [], []

    def flush_wf():
        outs = ctx.driver.run(wreqs) if wreqs else []
        for req, (replay, what, val_), out in zip(wreqs, wmetas, outs):
            ctx.count("model_requests")
            if "bad" in out:
                ctx.mismatch(req["op"], replay, what, out)
            elif req["op"] == "stepWF":
                if out.get("ok") != val_:
                    ctx.mismatch("stepWF", replay, val_, out)
            elif what == "ok":
                if out.get("ok") != val_:
                    ctx.mismatch("apply-wf", replay, "ok", out if "err" in out else {"different": out.get("ok")})
            else:
                cls = "rejected" if what in ("failed", "valueError") else what
                mcls = "rejected" if out.get("err") in ("failed", "valueError") else out.get("err", "ok")
                if cls != mcls:
                    ctx.mismatch("apply-wf", replay, what, out if "err" in out else "ok")
        del wreqs[:], wmetas[:]

    def wf_stream(info, d, docs):
        val = validator(info.schema)
        for k in range(ctx.budget(8, 30)):
            step, payload_kept = gen_wf_probe(rng, info, d, docs)
            kind = type(step).__name__
            wf, ordered = step_wf(step), step_ordered(step)
            # `apply_no_internal'` / the exact tie of `apply` need `Slice.wf` only: an insertion point outside the slice is
            # refused by `Slice.insert_at` (code and model alike)
            swf = slice_wf(step.slice) if isinstance(step, (ReplaceStep, ReplaceAroundStep)) else True
            st, res = apply_outcome(step, d)
            sj = info.step(step)
            replay = {"schema": info.name, "doc": d.to_json(), "step": step.to_json(), "stream": "payload-wf",
                      "open": [getattr(getattr(step, "slice", None), "open_start", None),
                               getattr(getattr(step, "slice", None), "open_end", None)]}
            ctx.case(["apply-wf", info.name, d.to_json(), sj], nontrivial=swf and ordered)
            ctx.count(f"wf:{kind}:{'wf' if wf else ('insert-outside' if swf else 'illformed')}:{'ordered' if ordered else 'unordered'}:{st}")
            wreqs.append({"op": "stepWF", "step": sj})
            wmetas.append((replay, "stepWF", {"wf": wf, "ordered": ordered}))
            if st == "ok" and swf and ordered and payload_kept:
                # the slice is as it was cut from a valid document: whatever the insertion point, the result is valid
                stc, err = outcome(res.check)
                prob = val.problem(res.to_json())
                if stc != "ok" or prob:
                    ctx.violation("invalid-result", "step returned a schema-invalid document: " + (prob or str(err)),
                                  dict(replay, result=res.to_json()))
            if not (swf and ordered):
                if st == "internal":
                    ctx.count("wf:excluded_internal:" + ("illformed" if not swf else "unordered"))
                    # positions that lie inside the document, in whatever order, are inside the property's quantifier
                    # ("steps … whose positions lie inside the document"): dying with an internal error there is a violation
                    size = d.content.size
                    poss = [getattr(step, a) for a in ("from_", "to", "gap_from", "gap_to", "pos") if hasattr(step, a)]
                    if swf and all(isinstance(x, int) and 0 <= x <= size for x in poss):
                        ctx.violation("internal-error", f"Step.apply of a step whose positions lie inside the document (not in order) died with an internal error: {res}", replay)
                continue
            if st in ("internal", "hang"):
                ctx.violation("internal-error", f"Step.apply of a well-formed step died with an internal error: {res}", replay)
            wreqs.append({"op": "apply", "s": info.lean_id, "doc": info.node(d), "step": sj})
            wmetas.append((replay, st, info.node(res) if st == "ok" else None))

    fam = schemas.family()
    n_schemas = ctx.budget(14, 70)
    for si in range(n_schemas):
        if len(reqs) >= 15000:
            flush()     # keep memory bounded in long runs
        info = fam[si % len(fam)] if si < len(fam) or rng.random() < 0.4 else schemas.random_schema(rng)
        aimed_inside_text = si == len(fam)
        if aimed_inside_text:
            # aimed: a textblock that wants its images before its text; replace-around steps that re-wrap a textblock's content
            # in a slice node and put it *inside the text* of that node (finding C01-insert-inside-text: with the repaired
            # `insert_into` such a step is refused whenever the built content `text₁ gap text₂` is not valid content)
            info = SchemaInfo(Schema({"nodes": {"doc": {"content": "para+"}, "para": {"content": "image* text*"},
                                                "image": {"inline": True, "group": "inline"}, "text": {"group": "inline"}},
                                      "marks": {"em": {}}}), "random")
        aimed_inline_containers = si > len(fam) and (si - len(fam)) % 5 == 3
        if aimed_inline_containers:
            # aimed: inline nodes *with content* whose allowed marks differ from their textblock's (no bundled schema has one)
            info = schemas.inline_container_schema(rng)
            ctx.count("aimed_inline_container_schemas")
        schema = info.schema
        val = validator(schema)
        ctx.driver.add_schema(info)
        ctx.count("schema:" + info.name)
        docs = [gen.gen_doc(rng, schema, budget=rng.choice([6, 12, 25])) for _ in range(ctx.budget(6, 12) - (3 if aimed_inline_containers else 0))]
        # documents built around inline nodes with content (where the schema has any), each with the ranges / marks of its case
        ic_cases = {}
        if gen.inline_containers(schema):
            for _ in range(ctx.budget(3, 6) if aimed_inline_containers else 1):
                case = gen.gen_inline_container_case(rng, schema)
                if case is not None:
                    ic_cases[id(case[0])] = case
                    docs.append(case[0])
        problems = {id(x): val.problem(x.to_json()) for x in docs}
        for d_outer in docs:
            p0 = problems[id(d_outer)]
            if p0:
                ctx.notes.append(f"generator produced a document the spec validator rejects ({info.name}): {p0}")
                continue
            for k in range(ctx.budget(18, 60)):
                if ctx.time_left() < 0:
                    break
                d = d_outer
                step = gen.gen_step(rng, info, d, docs)
                if k % 8 == 3:
                    # aimed: a two-node slice open on both sides, the gap in a complete wrapper below the top level (on this
                    # document, or on another one of this schema when this one has no sibling run with neighbours)
                    for d2 in [d] + rng.sample(docs, min(3, len(docs))):
                        st2 = gen.gen_two_sided_around(rng, info, d2) if problems[id(d2)] is None else None
                        if st2 is not None:
                            d, step = d2, st2
                            ctx.count("aimed_two_sided_around_steps")
                            break
                if id(d) in ic_cases and k % 2 == 0:
                    # aimed: a range mark step over / into / inside an inline node with content
                    _, ic_ranges, ic_marks = ic_cases[id(d)]
                    f_, t_ = rng.choice(ic_ranges)
                    mk_ = ic_marks[0] if rng.random() < 0.4 else rng.choice(ic_marks)
                    step = (AddMarkStep if rng.random() < 0.6 else RemoveMarkStep)(f_, t_, mk_)
                    ctx.count("aimed_inline_container_mark_steps")
                if aimed_inside_text and k % 2 == 0 and d.child_count:
                    i0 = rng.randrange(d.child_count)
                    a0 = sum(d.child(j).node_size for j in range(i0))
                    x0 = d.child(i0)
                    txt = gen.gen_text(rng, 2, 4, plain=True)
                    step = ReplaceAroundStep(a0, a0 + x0.node_size, a0 + 1, a0 + x0.node_size - 1,
                                             Slice(Fragment.from_(x0.type.create(x0.attrs, [schema.text(txt)])), 0, 0),
                                             1 + rng.randint(1, len(txt) - 1), rng.random() < 0.3)
                    ctx.count("aimed_insert_inside_text_steps")
                    # expectation (repaired `insert_into`): the built content `text₁ gap text₂` is valid content of
                    # `image* text*` iff the gap holds no image — refused otherwise ("Content does not fit in gap")
                    want_st = "failed" if any(x0.child(j).type.name == "image" for j in range(x0.child_count)) else "ok"
                    got_st = apply_outcome(step, d)[0]
                    ctx.count("aimed_inside_text_random:" + got_st)
                    if got_st != want_st:
                        ctx.mismatch("aimed-inside-text-expectation",
                                     {"schema": "random", "doc": d.to_json(), "step": step.to_json()}, want_st, got_st)
                via_json = rng.random() < 0.3
                if via_json:
                    stj, step2 = outcome(lambda: Step.from_json(schema, json.loads(json.dumps(step.to_json()))))
                    if stj != "ok":
                        continue
                    step = step2
                kind = type(step).__name__
                st, res = apply_outcome(step, d)
                sj = info.step(step)
                ctx.case(["apply", info.name, d.to_json(), sj],
                         sample={"op": "apply", "schema": info.name, "doc": str(d)[:200], "step": step.to_json(), "outcome": st})
                ctx.count(f"{kind}:{st}")
                replay = {"schema": info.name, "schema_spec_nodes": {n: {k2: v for k2, v in t.spec.items() if isinstance(v, (str, bool, int, dict))}
                                                                     for n, t in schema.nodes.items()} if info.name == "random" else None,
                          "doc": d.to_json(), "step": step.to_json(), "via_json": via_json}
                if st == "ok":
                    stc, err = outcome(res.check)
                    prob = val.problem(res.to_json())
                    if stc != "ok" or prob:
                        ctx.violation("invalid-result", "step returned a schema-invalid document: " + (prob or str(err)),
                                      dict(replay, result=res.to_json()))
                elif st in ("internal", "hang"):
                    ctx.violation("internal-error", f"Step.apply died with an internal error: {res}", replay)
                reqs.append({"op": "apply", "s": info.lean_id, "doc": info.node(d), "step": sj})
                metas.append((replay, st, info.node(res) if st == "ok" else None))
            # aimed: insertion point outside the slice (beyond the open end / negative before the open start)
            for _ in range(ctx.budget(2, 6)):
                for step, akind in aimed_insert_outside(rng, d):
                    if rng.random() < 0.3:
                        stj, step2 = outcome(lambda: Step.from_json(schema, json.loads(json.dumps(step.to_json()))))
                        if stj != "ok":
                            ctx.count("aimed_insert_outside:from_json-refuses")
                            continue
                        step = step2
                    st, res = apply_outcome(step, d)
                    ctx.count(f"aimed_insert_outside:{akind}:{st}")
                    replay = {"schema": info.name, "schema_spec_nodes": {n: {k2: v for k2, v in t.spec.items() if isinstance(v, (str, bool, int, dict))}
                                                                         for n, t in schema.nodes.items()} if info.name == "random" else None,
                              "doc": d.to_json(), "step": step.to_json(), "aimed": "insert-outside:" + akind}
                    ctx.case(["apply", info.name, d.to_json(), step.to_json()])
                    if st == "ok":
                        stc, err = outcome(res.check)
                        prob = val.problem(res.to_json())
                        if stc != "ok" or prob:
                            ctx.violation("invalid-result", "step returned a schema-invalid document: " + (prob or str(err)),
                                          dict(replay, result=res.to_json()))
                    elif st in ("internal", "hang"):
                        ctx.violation("internal-error", f"Step.apply died with an internal error: {res}", replay)
                    if step.insert > step.slice.size or step.insert < 0:
                        if st == "ok":
                            # `Slice.insert_at` refuses an insertion point outside the slice (model: `Slice.insertAt`)
                            ctx.mismatch("aimed-insert-outside-expectation", replay, "refused", st)
                    if step.insert >= 0:
                        reqs.append({"op": "apply", "s": info.lean_id, "doc": info.node(d), "step": info.step(step)})
                        metas.append((replay, st, info.node(res) if st == "ok" else None))
            if ctx.time_left() > 0:
                wf_stream(info, d_outer, docs)
        if len(wreqs) >= 8000:
            flush_wf()

    # aimed: the flat case of `insert_into` at every offset of a slice node's content, gap = the whole content of a
    # textblock of the document (join shapes; see AIMED_JOIN).  Exact tie with the model as for every other step, the
    # validity oracle, and the closed-form expectation: the step applies iff the content that has to be built is valid
    # content of `para` for the independent spec validator.
    for shape in AIMED_JOIN:
        info = SchemaInfo(aimed_join_schema(shape), "random")
        schema = info.schema
        val = validator(schema)
        ctx.driver.add_schema(info)
        ctx.count("schema:aimed-join:" + shape)
        for _ in range(ctx.budget(60, 300)):
            paras = [aimed_join_content(rng, shape) for _ in range(rng.randint(1, 3))]
            d = schema.node("doc", None, [schema.node("para", None, aimed_join_nodes(schema, c)) for c in paras])
            i0 = rng.randrange(len(paras))
            a0 = sum(d.child(j).node_size for j in range(i0))
            x0 = d.child(i0)
            pre = aimed_join_content(rng, shape)
            size = sum(1 if it[0] == "image" else len(it[1]) for it in pre)
            off = rng.randint(0, size)
            step = ReplaceAroundStep(a0, a0 + x0.node_size, a0 + 1, a0 + x0.node_size - 1,
                                     Slice(Fragment.from_(schema.node("para", None, aimed_join_nodes(schema, pre))), 0, 0),
                                     1 + off, False)
            built = aimed_join_built(pre, off, paras[i0])
            want = d.to_json()
            want["content"][i0] = dict({"type": "para"}, **({"content": aimed_join_json(built)} if built else {}))
            expect_ok = val.problem(want) is None
            via_json = rng.random() < 0.3
            if via_json:
                stj, step2 = outcome(lambda: Step.from_json(schema, json.loads(json.dumps(step.to_json()))))
                if stj != "ok":
                    continue
                step = step2
            st, res = apply_outcome(step, d)
            sj = info.step(step)
            inside = 0 < off < size and aimed_join_built(pre, off, [("image",)]) != aimed_join_built(pre, off, []) and \
                len(aimed_join_built(pre, off, [("image",)])) == len(pre) + 2
            ctx.case(["apply", info.name, d.to_json(), sj],
                     sample={"op": "apply", "schema": "aimed-join:" + shape, "doc": str(d)[:200], "step": step.to_json(), "outcome": st})
            ctx.count(f"aimed_join:{shape}:{'inside-text' if inside else 'boundary'}:{st}")
            if shape == "inside-text" and inside:
                ctx.count("aimed_insert_inside_text_steps")
            replay = {"schema": info.name, "schema_spec_nodes": {n: {k2: v for k2, v in t.spec.items() if isinstance(v, (str, bool, int, dict))}
                                                                 for n, t in schema.nodes.items()},
                      "doc": d.to_json(), "step": step.to_json(), "via_json": via_json, "aimed": "join:" + shape}
            if st == "ok":
                stc, err = outcome(res.check)
                prob = val.problem(res.to_json())
                if stc != "ok" or prob:
                    ctx.violation("invalid-result", "step returned a schema-invalid document: " + (prob or str(err)),
                                  dict(replay, result=res.to_json()))
                elif expect_ok and not res.eq(Node.from_json(schema, want)):
                    ctx.mismatch("aimed-join-result", replay, want, res.to_json())
            elif st in ("internal", "hang"):
                ctx.violation("internal-error", f"Step.apply died with an internal error: {res}", replay)
            if (st == "ok") != expect_ok and st in ("ok", "failed"):
                # not a violation of C01 (a refusal is always allowed); the expectation states what the repaired
                # `insert_into` does: it refuses exactly the gap contents whose built form the receiving node rejects
                ctx.mismatch("aimed-join-expectation", replay, "applies" if expect_ok else "refused", st)
            reqs.append({"op": "apply", "s": info.lean_id, "doc": info.node(d), "step": sj})
            metas.append((replay, st, info.node(res) if st == "ok" else None))
    flush()
    flush_wf()
    return ctx.finish(
        rule="a case is (schema, valid document, step) with the step of a random kind among the eight, positions inside "
             "the document, slices cut from other valid documents (all open depths), wrappers plausible and implausible, "
             "30% of the steps passed through JSON; distinct by content")


if __name__ == "__main__":
    core.main("C01", run)
