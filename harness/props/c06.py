"""C06 — a content expression and its compiled matcher accept exactly the same sequences.

Translator: every ContentMatch graph the running library compiled for the bundled-family schemas is
dumped, a bisimulation certificate is searched by the (unverified) model driver, and
lean/Gen/DfaCerts.lean is regenerated with one `decide +kernel` theorem per expression
(`equivCheck dfa Σ expr cert = true`); `equivCheck_accepts/_live` (Props/C06.lean) say what that means.
Tie: for enumerated and random expressions the verified checker is *evaluated* by the driver
(not kernel-checked) on the automaton the real code built; accept/reject of malformed expressions
is compared with the model's reading of the grammar + dead-end rule.
Tie of the constructor as a whole: for every spec of the pools (family, random, enumerated) and for variants with malformed
content at random positions of the node loop (`schemas.malform_content`, then `schemas.mutate_spec`), `Schema(spec)` against
`buildSchema` (lean/PM/SchemaBuild.lean): the full dump (`SchemaInfo.dump()`), or the kind of refusal — the table compiler's
ValueErrors / SyntaxError, the content parser's SyntaxErrors (syntax / unknown name / mixing) and the three other
exceptions it dies with on truncated input (TypeError, AssertionError, ValueError of int()), the dead-end check.
Search: the real matcher against an independent Python reading of the grammar (validator.py) on
child sequences; disagreements are replayed as a child sequence.
"""
import itertools
import os

from prosemirror.model import Schema

from .. import core, schemas
from ..codec import SchemaInfo
from ..core import outcome
from ..validator import SpecError, SpecValidator

GEN_DIR = os.path.join(core.LEAN, "Gen")



# two defects in one content expression (of `doc`, over doc / p[block] / text, br, img[inline] / fig[block]), in both orders:
# the refusal is the one a left-to-right reading meets first
ORDER_EXPRS = [
    ("unknown<mixed", "nosuch text p"), ("mixed<unknown", "p text nosuch"), ("mixed<unknown:group", "block inline nosuch"),
    ("unknown<syntax", "(p nosuch"), ("syntax<unknown", "p{2 nosuch"), ("syntax<unknown:trailing", "p) nosuch"),
    ("unknown<syntax:close", "nosuch )"), ("mixed<syntax", "p text ("), ("syntax<mixed", "p{x} text"),
    ("mixed<noToken", "p text |"), ("unknown<noToken", "nosuch |"), ("unknown<badInt", "nosuch p{1a}"),
    ("badInt<unknown", "p{1a} nosuch"), ("unknown<noNumber", "p nosuch{"), ("noNumber<-", "p{2,"),
    ("mixed<dead", "img p"), ("unknown<dead", "fig nosuch img"), ("syntax<dead", "(img"), ("mixed:in-group", "(p | inline)+"),
    ("digit-word:unknown", "p 2p"), ("unknown:in-choice<mixed", "(p | nosuch) text"),
]


def _set(path, v):
    def edit(sp):
        d = sp
        for k in path[:-1]:
            d = d.setdefault(k, {})
        d[path[-1]] = v
    return edit


def _both(*edits):
    def edit(sp):
        for e in edits:
            e(sp)
    return edit


# defects in different places of the constructor: the order of `Schema.__init__`
ORDER_SPECS = [
    ("dead@1<unknown@5", _both(_set(("nodes", "p", "content"), "img"), _set(("nodes", "fig", "content"), "nosuch"))),
    ("unknown@1<dead@5", _both(_set(("nodes", "p", "content"), "nosuch"), _set(("nodes", "fig", "content"), "img"))),
    ("content<marks:same-round", _both(_set(("nodes", "doc", "content"), "nosuch"), _set(("nodes", "doc", "marks"), "nosuchmark"))),
    ("dead<marks:same-round", _both(_set(("nodes", "fig", "content"), "img"), _set(("nodes", "fig", "marks"), "nosuchmark"))),
    ("marks@1<content@5", _both(_set(("nodes", "p", "marks"), "nosuchmark"), _set(("nodes", "fig", "content"), "nosuch"))),
    ("content@0<clash@5", _both(_set(("nodes", "doc", "content"), "nosuch"), _set(("marks", "fig"), {}))),
    ("clash<content:same-round", _both(_set(("nodes", "doc", "content"), "nosuch"), _set(("marks", "doc"), {}))),
    ("clash@1<dead@5", _both(_set(("marks", "p"), {}), _set(("nodes", "fig", "content"), "img"))),
    ("dead@5<excludes", _both(_set(("nodes", "fig", "content"), "img"), _set(("marks", "em", "excludes"), "nosuchmark"))),
    ("marks@5<excludes", _both(_set(("nodes", "fig", "marks"), "nosuchmark"), _set(("marks", "em", "excludes"), "nosuch2"))),
    ("top<everything", _both(_set(("topNode",), "nosuch"), _set(("nodes", "doc", "content"), "(p"), _set(("marks", "doc"), {}))),
    ("text-attrs<content", _both(_set(("nodes", "text", "attrs"), {"a": {"default": 1}}), _set(("nodes", "doc", "content"), "(p"))),
    ("cache:same-bad-expr-twice", _both(_set(("nodes", "p", "content"), "img"), _set(("nodes", "fig", "content"), "img"))),
    ("cache:ok-expr-then-dead", _both(_set(("nodes", "doc", "content"), "fig+"), _set(("nodes", "fig", "content"), "img+"))),
    ("only-excludes", _set(("marks", "em", "excludes"), "nosuchmark")),
    ("nothing-wrong", _both()),
]


def table_of(schema):
    out = []
    for name, t in schema.nodes.items():
        groups = t.spec.get("group", "").split(" ") if t.spec.get("group") else []
        out.append([name, groups, bool(t.is_inline), not (t.is_text or t.has_required_attrs())])
    return out


def table_of_spec(spec):
    out = []
    for name, s in spec["nodes"].items():
        groups = s.get("group", "").split(" ") if s.get("group") else []
        inline = bool(s.get("inline")) or name == "text"
        required = any("default" not in a for a in (s.get("attrs") or {}).values())
        out.append([name, groups, inline, not (name == "text" or required)])
    return out


def real_accepts(match, types):
    cur = match
    for t in types:
        cur = cur.match_type(t)
        if cur is None:
            return False, False
    return bool(cur.valid_end), True


def dump_ast(e, ids):
    """the dict AST of content.py as nested lists (node types by index in the table)"""
    t = e["type"]
    if t in ("choice", "seq"):
        return [t, [dump_ast(x, ids) for x in e["exprs"]]]
    if t in ("plus", "star", "opt"):
        return [t, dump_ast(e["expr"], ids)]
    if t == "range":
        return [t, e["min"], e["max"], dump_ast(e["expr"], ids)]
    return [t, ids[e["value"].name]]


def real_compile(schema, expr, ids):
    """run the real parser and `nfa()` on the expression: (ast, nfa) as plain lists, or (None, None) for the empty expression"""
    from prosemirror.model import content as C
    stream = C.TokenStream(expr, schema.nodes)
    if stream.next() is None:
        return None, None, None
    e = C.parse_expr(stream)
    n = C.nfa(e)
    return (dump_ast(e, ids), [[[ids[ed["term"].name] if ed["term"] else None, ed["to"]] for ed in edges] for edges in n],
            [C.null_from(n, k) for k in range(len(n))])


ENUM_NODES = {
    "doc": {"content": "a"},
    "a": {"group": "g"},
    "b": {"group": "g h"},
    "c": {"group": "h", "attrs": {"x": {}}},     # non-generatable
    "d": {"group": "hg"},                          # a group whose name contains the names of the groups g and h
    "text": {"group": "inline"},
    "i": {"inline": True, "group": "inline"},
}
ATOMS = ["a", "b", "c", "g", "h", "text", "inline", "nosuch"]
UNARY = ["+", "*", "?", "{2}", "{1,2}", "{1,}", "{2,}", "{0,1}", "{0,}"]


def enum_exprs(depth):
    if depth == 0:
        return list(ATOMS)
    smaller = enum_exprs(depth - 1)
    out = list(smaller)
    for e in smaller:
        for u in UNARY:
            out.append(f"({e}){u}" if " " in e or "|" in e else e + u)
    base = enum_exprs(0) if depth > 1 else smaller
    for a, b in itertools.product(smaller, base):
        out.append(f"{a} {b}")
        out.append(f"({a} | {b})")
    return out


# counts that are no plain decimal numbers: `int()` of the code reads `1_0` as 10, the documented grammar (and `specParse`)
# has plain numbers only — outside `PlainNumbers` (Props/C06.lean: parse_agrees); the compile tie still compares the AST exactly
NON_PLAIN = ["a{1_0}", "a{1,1_0}", "b{0_2,}", "(a | b){1_1} g", "a{2_}", "a{_2}", "g{1__0}", "a{01_0,1_1}"]

MALFORMED = ["(a", "a)", "a{2", "a{,2}", "a{2,", "a |", "| a", "a b |", "()", "a++{", "a{x}", "a text", "g inline*",
             "c", "c+", "a c", "(c | text)+", "c{2,}", "a? c", "nosuch+", "a,b", "a;", "a{2,1}", "a{0}", "text+", "text{1,}"]


def run(ctx):
    rng = ctx.rng
    reqs, metas = [], []
    creqs, cmetas = [], []
    cert_items = []   # (schema name, node type, expr, dfa, table) for Gen/DfaCerts.lean
    pools = []
    for info in schemas.family():
        pools.append((info.name, info.schema.spec, info.schema, True))
    rejected = []
    for _ in range(ctx.budget(25, 150)):
        spec = schemas.random_spec(rng)
        st, s = outcome(lambda: Schema(spec))
        if st == "internal" and "RecursionError" in str(s):
            ctx.count("schema-build:python-recursion-limit")     # an automaton too large for CPython's stack: not a verdict
            continue
        pools.append(("random", spec, s if st == "ok" else None, False))
    # enumerated / malformed expressions as the content of `doc`
    exprs = enum_exprs(2 if ctx.tier == "thorough" else 1)
    if ctx.tier != "thorough":
        exprs = exprs + rng.sample(enum_exprs(2), 250)
    # longer expressions (counted repetitions of sequences behind an optional / repeated prefix): automata with a dozen
    # or more states, where state numbering and subset bookkeeping matter
    def long_expr():
        names = ["a", "b", "g", "h"]
        parts = []
        if rng.random() < 0.8:
            parts.append(rng.choice(names) + rng.choice(["*", "?", "+", "{0,2}"]))
        for _ in range(rng.randint(1, 2)):
            seq = " ".join(rng.choice(names) + rng.choice(["", "", "", "?", "*"]) for _ in range(rng.randint(1, 3)))
            cnt = rng.choice(["{1,3}", "{2}", "{3}", "{5}", "{2,4}", "{3,}", "{10}", "+", "{2,}", "{0,}"])
            parts.append((f"({seq})" if " " in seq or seq[-1] in "?*" else seq) + cnt)
        if rng.random() < 0.3:
            parts.append(rng.choice(names) + rng.choice(["", "?", "{7}"]))
        return " ".join(parts)
    exprs = exprs + [long_expr() for _ in range(ctx.budget(25, 200))]
    # aimed: a repetition as the first thing of a choice alternative or of a repeated body
    exprs = list(dict.fromkeys(exprs + schemas.aimed_op_exprs("a", "b") + schemas.aimed_op_exprs("g", "b") + MALFORMED + NON_PLAIN))
    for e in exprs:
        nodes = {k: dict(v) for k, v in ENUM_NODES.items()}
        nodes["doc"] = {"content": e}
        spec = {"nodes": nodes}
        st, s = outcome(lambda: Schema(spec))
        if st == "internal" and "RecursionError" in str(s):
            # the recursive subset construction of the port exceeds CPython's default recursion limit on automata with a few
            # hundred states (long counted expressions over overlapping groups); that is a resource limit of the interpreter,
            # not a refusal of the expression: such expressions are counted and left out of the accept/reject comparison
            ctx.count("schema-build:python-recursion-limit")
            continue
        pools.append(("enum", spec, s if st == "ok" else None, False))
    # aimed: schemas with the *same node names and the same content strings* as the ones above but other group / inline /
    # attribute assignments, built later in the same process — a matcher must not be reused across schemas
    for e in ["g+", "h+", "g h", "(g | h)*", "g{2}", "h g?", "a g", "g", "h*", "(a | h)+"]:
        nodes = {"doc": {"content": e}, "a": {"group": "h"}, "b": {"group": "g"}, "c": {"group": "g"},
                 "d": {"group": "h g", "attrs": {"x": {}}}, "text": {"group": "inline"}, "i": {"inline": True, "group": "inline"}}
        spec = {"nodes": nodes}
        st, s = outcome(lambda: Schema(spec))
        if st == "internal" and "RecursionError" in str(s):
            continue
        ctx.count("twin-schemas:" + ("accepted" if st == "ok" else "refused"))
        pools.append(("enum", spec, s if st == "ok" else None, False))
    ctx.notes.append(f"{len(exprs)} enumerated/malformed expressions over the alphabet a b c(text) + groups g h inline")
    for name, spec, schema, bundled in pools:
        if ctx.time_left(100, 900) < 0:
            break
        table = table_of_spec(spec)
        ids = {row[0]: i for i, row in enumerate(table)}
        try:
            sv = SpecValidator.__new__(SpecValidator)
            sv.schema = None
            sv.char = {n: chr(0x100 + i) for i, n in enumerate(spec["nodes"])}
            sv.groups = {}
            for n, s_ in spec["nodes"].items():
                for g in (s_.get("group") or "").split(" "):
                    if g:
                        sv.groups.setdefault(g, []).append(n)
            sv.inline = {n: bool(s_.get("inline")) or n == "text" for n, s_ in spec["nodes"].items()}
        except Exception:  # noqa: BLE001
            continue
        seen = set()
        for tname, tspec in spec["nodes"].items():
            expr = tspec.get("content") or ""
            if name == "enum" and tname != "doc":
                continue
            if expr in seen:
                continue
            seen.add(expr)
            ctx.case(["expr", name, expr, table], nontrivial=bool(expr),
                     sample={"op": "content expression", "schema": name, "type": tname, "expr": expr, "accepted": schema is not None})
            ctx.count("exprs:" + name)
            replay = {"schema": name, "nodes": {k: {kk: vv for kk, vv in v.items() if kk in ("content", "group", "inline", "attrs")}
                                                for k, v in spec["nodes"].items()}, "type": tname, "expr": expr}
            req = {"op": "c06", "table": table, "expr": expr}
            dfa = None
            if schema is not None:
                info = SchemaInfo(schema, name)
                dfa = info.dump_dfa(schema.nodes[tname].content_match)
                req["dfa"] = dfa
                # ---- search: real matcher vs the independent Python reading on child sequences
                try:
                    rx, _ = sv.compile(expr)
                except SpecError:
                    rx = None
                if rx is not None:
                    tnames = list(spec["nodes"].keys())
                    types = [schema.nodes[n] for n in tnames]
                    words = [[]]
                    for L in range(1, 4):
                        words += [list(w) for w in itertools.product(range(len(types)), repeat=L)][:400]
                    words += [[rng.randrange(len(types)) for _ in range(rng.randint(4, 8))] for _ in range(40)]
                    for w in words:
                        acc, alive = real_accepts(schema.nodes[tname].content_match, [types[i] for i in w])
                        want = bool(rx.fullmatch("".join(sv.char[tnames[i]] for i in w)))
                        ctx.count("sequences")
                        if acc != want:
                            ctx.violation("accepts", "the compiled matcher and the expression disagree on a child sequence",
                                          dict(replay, sequence=[tnames[i] for i in w], matcher_accepts=acc, expression_matches=want))
                            break
            reqs.append(req)
            metas.append((replay, schema is not None, dfa, table, bundled, name, tname))
            # ---- tie of the compiler model (PM/Compile.lean): AST, NFA and compiled automaton, exact
            real = None
            if schema is not None:
                st_, rc = outcome(lambda: real_compile(schema, expr, ids))
                real = (dfa, rc[0], rc[1], rc[2]) if st_ == "ok" else (dfa, "raised", "raised", "raised")
            creqs.append({"op": "compile", "table": table, "expr": expr})
            cmetas.append((replay, real, name))
    # ---- the whole constructor: `Schema(spec)` against `buildSchema` (lean/PM/SchemaBuild.lean) — the full dump or the
    #      kind of refusal, for every spec of the pools and for variants with malformed content at random positions
    breqs, bmetas = [], []

    def tie_build(spec, schema, tag, labels=()):
        t = schemas.build_tie(spec, schema)
        if t is None:
            ctx.count("schema-build:python-recursion-limit")
            return
        req, exp, kind = t
        ctx.count("build:" + tag + ":" + kind)
        for lb in labels:
            if lb.startswith("order"):
                ctx.count("build-" + lb + "=" + kind)     # which refusal came first (compared exactly below)
            else:
                ctx.count("build-corner:" + lb + ":" + ("ok" if kind == "ok" else "refused"))
        if kind == "ok" and any(len(n["dfa"]) >= 4 for n in exp["nodes"]):
            ctx.count("build:ok-with-4+state-automaton")
        breqs.append(req)
        bmetas.append(({"spec": spec, "tag": tag}, exp))

    for name, spec, schema, bundled in pools:
        tie_build(spec, schema, name)
    for _ in range(ctx.budget(60, 400)):
        base = schemas.random_spec(rng)
        mspec, labels = schemas.malform_content(rng, base)
        tie_build(mspec, None, "malformed", labels)
        if rng.random() < 0.5:
            mspec2, labels2 = schemas.mutate_spec(rng, mspec)
            tie_build(mspec2, None, "malformed+mutated", labels + labels2)
    # ---- which refusal comes first when several apply (lean/Props/C06.lean: buildSchema_first_error, nodeStep_refusal,
    #      buildSchema_refusal_kind): aimed specs with two or three defects at once — inside one expression in both
    #      left-to-right orders, in different rounds of the node loop, before the loop and in the marks; the kind is
    #      compared exactly as for every other spec
    def order_base():
        return {"nodes": {"doc": {"content": "p+"},
                          "p": {"content": "inline*", "group": "block"},
                          "text": {"group": "inline"},
                          "br": {"inline": True, "group": "inline"},
                          "img": {"inline": True, "group": "inline", "attrs": {"src": {}}},
                          "fig": {"content": "br*", "group": "block"}},
                "marks": {"em": {}}}

    for label, e in ORDER_EXPRS:
        sp = order_base()
        sp["nodes"]["doc"]["content"] = e
        tie_build(sp, None, "order", ("order:" + label,))
        # the same with a dead end, an unknown mark and an unknown `excludes` further down: the parser on `doc` still speaks first
        sp = order_base()
        sp["nodes"]["doc"]["content"] = e
        sp["nodes"]["doc"]["marks"] = "nosuchmark"
        sp["nodes"]["fig"]["content"] = "img"
        sp["marks"]["em"]["excludes"] = "nosuchmark"
        tie_build(sp, None, "order", ("order+later:" + label,))
    for label, edit in ORDER_SPECS:
        sp = order_base()
        edit(sp)
        tie_build(sp, None, "order", ("order:" + label,))
    bouts = ctx.driver.run(breqs) if breqs else []
    for req, (replay, exp), out in zip(breqs, bmetas, bouts):
        ctx.count("build_requests")
        if out.get("ok", out) != exp:
            ctx.mismatch("buildSchema", replay, exp, out)
        else:
            ctx.count("build_exact")
    outs = ctx.driver.run(reqs) if reqs else []
    for req, (replay, accepted, dfa, table, bundled, name, tname), out in zip(reqs, metas, outs):
        ctx.count("model_requests")
        if "ok" not in out:
            ctx.mismatch("c06", replay, "answer", out)
            continue
        o = out["ok"]
        dead_unknown = o.get("dead") == "unknown"
        if dead_unknown:
            # the spec-level exploration of derivative sets did not finish within its allowance (very large expressions of the
            # thorough tier): no verdict on dead ends from this route — the compiler model's own test (compile tie) still decides
            ctx.count("spec-dead-end:unknown")
            o = dict(o, dead=False)
        model_accepts = o["parse"] == "ok" and not o.get("dead")
        ctx.count("class:" + (o["parse"] if o["parse"] != "ok" else ("dead-end" if o.get("dead") else "ok")))
        plain = o.get("plain", True)
        if not plain:
            # a count that is no plain decimal number: not an expression of the documented grammar (the specification reader
            # refuses it); the code's `int()` may read it — a leniency, outside the accept/reject comparison
            ctx.count("outside-PlainNumbers")
            if accepted:
                ctx.count("outside-PlainNumbers:accepted-by-the-code")
            if o["parse"] == "ok":
                ctx.mismatch("c06-plain", replay, "specParse refuses an expression with a non-plain count", o)
        # every node type's expression must be acceptable for the schema to be built; for enum schemas only doc varies
        if (name == "enum" or accepted) and not dead_unknown and plain:
            if accepted != model_accepts and name == "enum":
                ctx.violation("accept-reject", "Schema() and the documented grammar disagree on whether the expression is well-formed",
                              dict(replay, schema_built=accepted, model=o))
            if accepted and not model_accepts and name != "enum":
                ctx.violation("accept-reject", "Schema() accepted an expression the documented grammar rejects", dict(replay, model=o))
        if accepted and o["parse"] == "ok":
            if not o.get("equiv"):
                w = o.get("witness")
                r = dict(replay, witness=w)
                if w:
                    tn = [row[0] for row in table]
                    r["sequence"] = [tn[i] for i in w[0]]
                    r["matcher"] = w[1]
                    r["expression"] = w[2]
                    ctx.violation("not-equivalent", "compiled automaton and expression differ (distinguishing child sequence found by the verified checker's search)", r)
                elif o.get("searchExhausted"):
                    ctx.count("certificate-search:exhausted")     # no certificate and no witness within the allowance: no verdict
                else:
                    ctx.mismatch("equivCheck", r, "equivalent", o)
            elif bundled:
                cert_items.append((name, tname, req["expr"], dfa, table, o["re"], o["cert"]))
    # ---- compiler model against the real compiler
    couts = ctx.driver.run(creqs) if creqs else []
    for req, (replay, real, name), out in zip(creqs, cmetas, couts):
        ctx.count("compile_requests")
        if "ok" not in out:
            ctx.mismatch("compile", replay, "answer", out)
            continue
        o = out["ok"]
        if real is None:
            # Schema() refused the spec; for the enumerated family only `doc` varies, so the model must refuse too
            if name == "enum" and o["parse"] == "ok" and not o.get("dead"):
                ctx.mismatch("compile-accept", replay, "rejected", o)
            continue
        dfa, ast, nfa_, nulls = real
        if o["parse"] != "ok" or o.get("dead"):
            ctx.mismatch("compile-accept", replay, "accepted", o)
            continue
        if not o.get("plain", True):
            ctx.count("compile:outside-PlainNumbers")     # the two readers are expected to differ there (parse_agrees needs it)
            if o.get("reSame"):
                ctx.mismatch("compile-toRE", replay, "specParse refuses a non-plain count", o)
        elif not o.get("reSame"):
            ctx.mismatch("compile-toRE", replay, "Expr.toRE (parseC e) = specParse e", o)
        else:
            ctx.count("compile_reSame")
        if o["ast"] != ast:
            ctx.mismatch("compile-ast", replay, ast, o["ast"])
        elif o["nfa"] != nfa_:
            ctx.mismatch("compile-nfa", replay, nfa_, o["nfa"])
        elif o.get("nullFrom") != nulls:
            ctx.mismatch("compile-nullFrom", replay, nulls, o.get("nullFrom"))
        elif o["dfa"] != dfa:
            ctx.mismatch("compile-dfa", replay, dfa, o["dfa"])
        elif ast is not None and not o.get("wf"):
            ctx.mismatch("compile-wf", replay, "Expr.wf of the parsed AST", o)
        else:
            ctx.count("compile_exact")
            ctx.count("compile_exact_states", len(dfa))
            if len(dfa) >= 4:
                ctx.count("compile_exact_4+states")
    # ---- translator: regenerate Gen/DfaCerts.lean from what the code compiles now, then kernel-check it
    write_certs(cert_items)
    ok, log, dt = core.build(["PM", "pmdriver", "Props.C06", "Gen.DfaCerts"])
    ctx.build_ok = ok
    ctx.build_log = log
    ctx.counters["lake_build_s"] = round(dt, 1)
    n, d, details = core.audit("C06")
    gen_n = len(cert_items)
    gen_ok = gen_n if ok else 0
    ctx.obligations, ctx.discharged = n + gen_n, d + gen_ok
    details["Gen.DfaCerts"] = f"{gen_ok}/{gen_n} generated decide+kernel instances (bundled-family expressions) built"
    ctx.audit_details = details
    if ok:
        # the family schemas as Lean data: `<name>_builds : buildSchema <spec> = .ok <compiled>` by the kernel
        core.family_phase(ctx, builds=True)
    return ctx.finish(
        rule="a case is one content expression in one node table: every expression of the bundled-family schemas (kernel-checked "
             "certificate), of random schema specs, and enumerated/malformed expressions as the content of `doc`; the real matcher "
             "is also run on all child sequences up to length 3 plus random longer ones against an independent Python reading",
        extra={"generated_instances": gen_n})


def lean_dfa(dfa):
    return "#[" + ", ".join("⟨%s, [%s]⟩" % ("true" if v else "false", ", ".join("(%d, %d)" % (a, b) for a, b in edges))
                            for v, edges in dfa) + "]"


def write_certs(items):
    os.makedirs(GEN_DIR, exist_ok=True)
    lines = ["/- GENERATED on every run by harness/props/c06.py from the automata the running library compiled.",
             "   One kernel-checked instance per content expression of the bundled-family schemas. Do not edit. -/",
             "import PM.Regex", "namespace PM.Gen", "open PM", ""]
    for k, (sname, tname, expr, dfa, table, re_, cert) in enumerate(items):
        sigma = "[" + ", ".join(str(i) for i in range(len(table))) + "]"
        lines.append(f"/-- schema `{sname}`, node type `{tname}`, content expression `{expr}` -/")
        lines.append(f"theorem cert_{k} : equivCheck {lean_dfa(dfa)} {sigma}\n    {re_}\n    {cert} = true := by decide +kernel")
        lines.append("")
    lines.append("end PM.Gen")
    text = "\n".join(lines) + "\n"
    path = os.path.join(GEN_DIR, "DfaCerts.lean")
    if not os.path.exists(path) or open(path).read() != text:
        with open(path, "w") as f:
            f.write(text)


if __name__ == "__main__":
    core.main("C06", run)
