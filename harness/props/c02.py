"""C02 — replacing a range is exactly a splice of the flat token sequence.

Tie: exact correspondence of Fragment.cut, Node.slice, Node.replace (result document / outcome
class) with lean/PM/Fragment.lean + PM/Replace.lean.
Search: slice = token range with the right open depths; replace = old[:from] + slice tokens + old[to:],
size arithmetic, re-insertion gives an equal document, result is well-formed and valid.
"""
from prosemirror.model import Slice
from prosemirror.model.replace import ReplaceError

from .. import core, gen, schemas
from ..codec import doc_tokens, frag_tokens
from ..reuse import Pool
from ..core import outcome
from . import c02_frag


def slice_tokens(schema, sl):
    toks = frag_tokens(schema, sl.content)
    return toks[sl.open_start:len(toks) - sl.open_end]


def open_depth_ref(tokens, pos):
    """unmatched opens in tokens[:pos]"""
    d = 0
    for t in tokens[:pos]:
        if t[0] == "op":
            d += 1
        elif t[0] == "cl":
            d -= 1
    return d


def shared_depth_ref(tokens, f, t):
    """depth of the deepest node whose content contains both positions"""
    # minimal nesting depth reached between f and t
    d = open_depth_ref(tokens, f)
    m = d
    for tok in tokens[f:t]:
        if tok[0] == "op":
            d += 1
        elif tok[0] == "cl":
            d -= 1
            m = min(m, d)
    return m


def depth_table(tokens):
    """open depth at every position 0..len(tokens)"""
    out, d = [0], 0
    for t in tokens:
        if t[0] == "op":
            d += 1
        elif t[0] == "cl":
            d -= 1
        out.append(d)
    return out


def is_norm(json_node):
    kids = json_node.get("content") or []
    for a, b in zip(kids, kids[1:]):
        if a["type"] == "text" and b["type"] == "text" and a.get("marks") == b.get("marks"):
            return False
    return all(is_norm(k) for k in kids if k["type"] != "text")


def class_of(st):
    # the property treats ReplaceError and other ValueErrors alike only for C01; here replace must raise
    # *the replace error*; a cut inside a surrogate pair is outside the guard
    return st


def run(ctx):
    core.lean_phase(ctx)
    rng = ctx.rng
    reqs, metas = [], []

    def flush():
        outs = ctx.driver.run(reqs) if reqs else []
        for req, meta, out in zip(reqs, metas, outs):
            if meta[0] == "fo":
                # the Fragment-object tie (c02_frag.py)
                ctx.count("model_requests")
                c02_frag.compare(ctx, meta, out)
                continue
            op, info, d, args, (st, val) = meta
            ctx.count("model_requests")
            if "bad" in out:
                ctx.mismatch(op, {"args": str(args)[:300], "doc": str(d)}, st, out)
                continue
            if st == "ok":
                if out.get("ok") != val:
                    ctx.mismatch(op, {"schema": info.name, "doc": d.to_json(), "args": [str(a) for a in args]},
                                 "ok", out if "err" in out else "different value")
            else:
                want = {"failed": "failed", "valueError": "valueError"}.get(st, "internal")
                if out.get("err") != want:
                    ctx.mismatch(op, {"schema": info.name, "doc": d.to_json(), "args": [str(a) for a in args]}, st, out)
        del reqs[:], metas[:]

    fam = schemas.family()
    n_schemas = ctx.budget(12, 60)
    pools = []
    for i in range(n_schemas):
        if len(reqs) >= 15000:
            flush()     # keep memory bounded in long runs
        info = fam[i % len(fam)] if i < len(fam) or rng.random() < 0.5 else schemas.random_schema(rng)
        if i == len(fam):
            info = schemas.inline_content_schema()     # an inline node with content, atoms with content
        ctx.driver.add_schema(info)
        docs = [gen.gen_doc(rng, info.schema, budget=rng.choice([8, 15, 30])) for _ in range(ctx.budget(6, 12))]
        pools.append((info, docs))
        ctx.count("schema:" + info.name)
    # ---- the Fragment constructors and copy-on-write operations on generated node arrays (c02_frag.py)
    c02_frag.run(ctx, pools, reqs, metas, flush)
    per_doc = ctx.budget(14, 60)
    tokcache = {}

    def tokens_of(d, aligned=False):
        v = tokcache.get(id(d))
        if v is None or v[0] is not d:
            toks = doc_tokens(d)
            v = tokcache[id(d)] = [d, toks, depth_table(toks), None]
        if aligned:
            if v[3] is None:
                v[3] = gen.aligned_positions(d)
            return v[3]
        return v[1], v[2]

    def paste(info, d, other, ent, spool, light=False):
        """d.replace(range, other) with every oracle and the model tie; `ent`: the pool entry of `other` when the Slice
        object has been used before (then also: same answer as for a new equal object; re-insertion at home).
        `light`: one more use of a used object, only compared with the answer for a new equal object"""
        schema = info.schema
        toks, depths = tokens_of(d)
        size = d.content.size
        f2, t2 = gen.random_range(rng, d)
        if (ent is not None and rng.random() < 0.9) or rng.random() < 0.1:
            # a place the slice's open depths fit (a pasted slice goes where it can go, not anywhere)
            fit = gen.fitting_range(rng, tokens_of(d, aligned=True), depths, other) if len(depths) == size + 1 else None
            if fit is not None:
                f2, t2 = fit
                ctx.count("replace_at_a_depth_fitting_range")
        st4, res = outcome(lambda: d.replace(f2, t2, other))
        if ent is not None:
            ctx.count("replace_with_a_slice_object_used_before")
            ctx.count("slice_object_uses:%s" % (ent.uses if ent.uses < 4 else "4+"))
            # the statement is about slices as values: what `replace` answers for (document, range, slice) — the
            # spliced document, or the replace error when that is no valid tree — cannot be both of two different
            # answers, so an equal Slice object that has not been used before must get the same one
            stf, resf = outcome(lambda: d.replace(f2, t2, Slice(other.content, other.open_start, other.open_end)))
            if stf != st4 or (st4 == "ok" and not res.eq(resf)):
                ctx.violation("replace-object-history", "replace answers differently for a Slice object that was used in earlier "
                              f"replaces ({st4}) than for an equal, new Slice object ({stf})",
                              {"schema": info.name, "doc": d.to_json(), "from": f2, "to": t2, "slice": other.to_json(),
                               "outcome": st4, "outcome_with_new_object": stf, "earlier_uses_of_the_slice_object": uses_json(ent)})
            home = ent.meta.get("home")
            if home is not None and not light:
                # ... and re-inserting it where it was cut still gives back an equal document
                hd, hf, ht = home
                sth, hback = outcome(lambda: hd.replace(hf, ht, other))
                ctx.count("reinsert_after_use_elsewhere")
                if sth != "ok" or not hback.eq(hd):
                    ctx.violation("reinsert", "re-inserting a slice where it was cut does not give back an equal document "
                                  "(after the Slice object was used in other replaces)",
                                  {"schema": info.name, "doc": hd.to_json(), "from": hf, "to": ht, "outcome": sth,
                                   "detail": str(hback)[:200], "earlier_uses_of_the_slice_object": uses_json(ent) +
                                   [{"doc": d.to_json(), "from": f2, "to": t2, "outcome": st4}]})
            ent.used((d, f2, t2, st4))
            if light:
                ctx.count("light_pastes")
                return f2, t2
        elif rng.random() < 0.25:
            spool.add(other, log=[(d, f2, t2, st4)])
        ctx.case(["replace", info.name, d.to_json(), f2, t2, other.to_json()],
                 sample={"op": "replace", "schema": info.name, "doc": str(d), "from": f2, "to": t2,
                         "slice": str(other), "outcome": st4})
        ctx.count("replace:" + st4)
        ctx.count("replace_open:%d,%d" % (min(other.open_start, 3), min(other.open_end, 3)))
        if st4 == "ok":
            rtoks = doc_tokens(res)
            exp = toks[:f2] + slice_tokens(schema, other) + toks[t2:]
            bad = None
            if rtoks != exp:
                bad = "result tokens are not old[:from] + slice + old[to:]"
            elif res.content.size != size + other.size - (t2 - f2):
                bad = "size did not change by slice size minus range size"
            elif not is_norm(res.to_json()):
                bad = "adjacent same-markup text was not merged"
            else:
                stc, err = outcome(res.check)
                if stc != "ok":
                    bad = f"replace returned a document that fails check(): {err}"
            if bad:
                ctx.violation("replace-splice", bad,
                              {"schema": info.name, "doc": d.to_json(), "from": f2, "to": t2,
                               "slice": other.to_json(), "result": res.to_json()})
        elif st4 not in ("failed",):
            # in-range, pair-aligned, well-formed slice: only the replace error is acceptable
            ctx.violation("replace-raises", f"Node.replace raised a non-ReplaceError: {res}",
                          {"schema": info.name, "doc": d.to_json(), "from": f2, "to": t2, "slice": other.to_json()})
        reqs.append({"op": "replace", "s": info.lean_id, "doc": info.node(d), "from": f2, "to": t2,
                     "slice": info.slice(other)})
        metas.append(("replace", info, d, (f2, t2, other), (st4, info.node(res) if st4 == "ok" else None)))
        return f2, t2

    def uses_json(ent):
        return [{"doc": x.to_json(), "from": a, "to": b, "outcome": o} for (x, a, b, o) in ent.log]

    for info, docs in pools:
        schema = info.schema
        # Slice objects that have been through a replace already (cut from a document and re-inserted there; pasted into
        # another document): a slice is a value — a clipboard slice is pasted several times, a step's slice is applied to
        # several documents — so the same object is handed to further replaces at other places, under other ancestors
        spool = Pool(rng, cap=8)
        for d in docs:
            toks, _depths = tokens_of(d)
            size = d.content.size
            ctx.count("doc_size_le_%d" % (10 if size <= 10 else 30 if size <= 30 else 100))
            if len(toks) != size:
                ctx.violation("size", "document size differs from its token count",
                              {"schema": info.name, "doc": d.to_json(), "size": size, "tokens": len(toks)})
            for _ in range(per_doc):
                if ctx.time_left() < 0:
                    break
                f, t = gen.random_range(rng, d)
                # ---- slice
                st, sl = outcome(lambda: d.slice(f, t))
                ctx.case(["slice", info.name, d.to_json(), f, t], nontrivial=f < t,
                         sample={"op": "slice", "schema": info.name, "doc": str(d), "from": f, "to": t})
                if st != "ok":
                    ctx.violation("slice-raises", f"Node.slice raised {sl} on an in-range, pair-aligned range",
                                  {"schema": info.name, "doc": d.to_json(), "from": f, "to": t})
                    continue
                stoks = slice_tokens(schema, sl)
                if f < t:
                    sd = shared_depth_ref(toks, f, t)
                    exp_open = (open_depth_ref(toks, f) - sd, open_depth_ref(toks, t) - sd)
                else:
                    exp_open = (0, 0)
                if stoks != toks[f:t] or (sl.open_start, sl.open_end) != exp_open or sl.size != t - f:
                    ctx.violation("slice-tokens", "slice is not the token range with the right open depths",
                                  {"schema": info.name, "doc": d.to_json(), "from": f, "to": t,
                                   "got_open": [sl.open_start, sl.open_end], "expected_open": list(exp_open),
                                   "got_size": sl.size})
                reqs.append({"op": "slice", "doc": info.node(d), "from": f, "to": t})
                metas.append(("slice", info, d, (f, t), ("ok", info.slice(sl))))
                # ---- default arguments: slice(from) runs to the end of the content; cut(from) likewise; a cut over everything
                # is the node itself
                std_, sld = outcome(lambda: (d.slice(f), d.slice(f, d.content.size), d.cut(f), d.cut(f, d.content.size), d.cut(0)))
                if std_ == "hang":
                    ctx.count("slice-defaults:timeout")
                elif std_ != "ok" or not sld[0].eq(sld[1]) or not sld[2].eq(sld[3]) or not sld[4].eq(d):
                    ctx.violation("slice-defaults", "slice(from) / cut(from) do not default `to` to the end of the content, or cut(0) is not the node",
                                  {"schema": info.name, "doc": d.to_json(), "from": f, "detail": str(sld)[:200]})
                # ---- re-insertion
                st2, back = outcome(lambda: d.replace(f, t, sl))
                if st2 != "ok" or not back.eq(d):
                    ctx.violation("reinsert", "re-inserting a slice where it was cut does not give back an equal document",
                                  {"schema": info.name, "doc": d.to_json(), "from": f, "to": t, "outcome": st2,
                                   "detail": str(back)[:200]})
                if f < t and st2 == "ok" and rng.random() < 0.15:
                    spool.add(sl, log=[(d, f, t, st2)], home=(d, f, t))
                # ---- cut
                st3, cut = outcome(lambda: d.cut(f, t))
                if st3 == "ok":
                    reqs.append({"op": "cut", "doc": info.node(d), "from": f, "to": t})
                    metas.append(("cut", info, d, (f, t), ("ok", info.frag(cut.content))))
                else:
                    ctx.violation("cut-raises", f"Node.cut raised {cut}", {"schema": info.name, "doc": d.to_json(), "from": f, "to": t})
                # ---- replace with a foreign slice: a new one, or a Slice object that has been through other replaces
                ent = spool.draw() if len(spool) and rng.random() < 0.3 else None
                other = ent.obj if ent is not None else gen.random_slice(rng, docs)
                f2, t2 = paste(info, d, other, ent, spool)
                if ent is not None:
                    # ... which is pasted at further places right away, in other documents too
                    if rng.random() < 0.5:
                        paste(info, rng.choice(docs), other, ent, spool)
                    for _p in range(3):
                        paste(info, rng.choice(docs), other, ent, spool, light=True)
                if f2 < t2 and rng.random() < 0.15:
                    # a range that ends before it starts, both ends inside the document: refused with the replace error
                    # (never a document, never an internal error), by the code and by the model alike
                    st5, res5 = outcome(lambda: d.replace(t2, f2, other))
                    ctx.count("replace-swapped:" + st5)
                    if st5 != "failed":
                        ctx.violation("replace-swapped", f"replacing a range that ends before it starts is not refused with the replace error: {st5} {str(res5)[:120]}",
                                      {"schema": info.name, "doc": d.to_json(), "from": t2, "to": f2, "slice": other.to_json()})
                    reqs.append({"op": "replace", "s": info.lean_id, "doc": info.node(d), "from": t2, "to": f2, "slice": info.slice(other)})
                    metas.append(("replace", info, d, (t2, f2, other), (st5, None)))
    flush()
    return ctx.finish(
        rule="a case is (schema, document, range[, slice]) for slice / cut / re-insertion / replace with a slice cut "
             "from another document of the same schema; schemas: the bundled family and random well-founded schemas; "
             "distinct by content; non-trivial = non-empty range or non-empty slice")


if __name__ == "__main__":
    core.main("C02", run)
