"""C09 — positions resolve, index and traverse consistently, counting UTF-16 units.

Tie: exact correspondence of Node.resolve and every ResolvedPos accessor, node_at, child_after,
child_before, nodes_between, text_between, range_has_mark with lean/PM/Resolve.lean at every position
(pair) of generated documents.
Search: the same quantities recomputed from the flat token sequence of to_json().
"""
from prosemirror.model import Fragment

from .. import core, gen, schemas
from ..codec import doc_tokens, from_units, units
from ..core import outcome
from . import c02_frag


def ancestors_from_tokens(toks, pos):
    """stack of (open index) of the nodes containing position pos"""
    stack = []
    for i, t in enumerate(toks[:pos]):
        if t[0] == "op":
            stack.append(i)
        elif t[0] == "cl":
            stack.pop()
    return stack


def match_close(toks, open_idx):
    d = 0
    for i in range(open_idx, len(toks)):
        if toks[i][0] == "op":
            d += 1
        elif toks[i][0] == "cl":
            d -= 1
            if d == 0:
                return i
    raise AssertionError


def impl_resolve(info, d, pos, other):
    r = d.resolve(pos)
    depth = r.depth

    def opt(f):
        try:
            return f()
        except ValueError:
            return None
    na, nb = r.node_after, r.node_before
    return {
        "path": [[r.index(k), r.path[3 * k + 2]] for k in range(depth + 1)],
        "depth": depth,
        "parentOffset": r.parent_offset,
        "textOffset": r.text_offset,
        "nodeAfter": info.node(na) if na is not None else None,
        "nodeBefore": info.node(nb) if nb is not None else None,
        "marks": info.marks(r.marks()),
        "sharedDepth": r.shared_depth(other),
        "indexAfter": [r.index_after(k) for k in range(depth + 1)],
        "starts": [r.start(k) for k in range(depth + 1)],
        "ends": [r.end(k) for k in range(depth + 1)],
        "befores": [opt(lambda k=k: r.before(k)) for k in range(depth + 2)],
        "afters": [opt(lambda k=k: r.after(k)) for k in range(depth + 2)],
    }


class Root:
    """a node whose positions are queried (`node.resolve(pos)` …): the document of a case — or a node related to it — with
    its flat token picture and its encoding for the model"""

    def __init__(self, info, d, label="doc"):
        self.d, self.label = d, label
        self.toks = doc_tokens(d)
        self.size = d.content.size
        self.dj = info.node(d)
        self.json = d.to_json()
        self.aligned = sorted(gen.aligned_positions(d))
        self.sizes = {}      # own_size memo (the nodes stay alive with d)


def own_size(n, memo):
    """size of a node counted from its own text / children (not the library's node_size)"""
    k = id(n)
    if k not in memo:
        memo[k] = len(units(n.text)) if n.is_text else 1 if n.is_leaf else 2 + sum(own_size(c, memo) for c in n.content.content)
    return memo[k]


def expected_ancestors(d, pos, memo):
    """the nodes containing position pos, outermost first, found by walking the tree (a child contains the position when
    the position lies strictly inside it)"""
    chain, node, start = [d], d, 0
    while True:
        cur, nxt = start, None
        for c in node.content.content:
            sz = own_size(c, memo)
            if not c.is_text and not c.is_leaf and cur < pos < cur + sz:
                nxt = (c, cur + 1)
                break
            cur += sz
            if cur >= pos:
                break
        if nxt is None:
            return chain
        node, start = nxt
        chain.append(node)


SAME_FRAGMENT = ("copy", "retyped", "other-attrs", "marked", "doc-attr-step")


def related_roots(rng, info, d):
    """nodes related to d the way the library's own operations relate nodes: the same content Fragment *object* under
    another root (copy, another type / other attributes as the markup and doc-attribute steps build it, node marks), results
    of steps and cuts (children shared by identity), the same for a node inside d, and empty nodes (all of them hold
    `Fragment.empty`).  Every returned node passes check()."""
    schema = info.schema
    out = []

    def add(label, fn):
        try:
            n = fn()
            if n is None:
                return
            n.check()
            info.node(n)
        except Exception:  # noqa: BLE001  (not a valid relative of this schema: skipped)
            return
        out.append((label, n))

    def same_fragment(prefix, n, root):
        add(prefix + "copy", lambda: n.copy(n.content))
        fits = [t for t in schema.nodes.values() if not t.is_leaf and not t.is_text and t.valid_content(n.content)
                and (root or (t.is_inline == n.type.is_inline))]
        for t in rng.sample(fits, min(2, len(fits))):
            add(prefix + ("retyped" if t is not n.type else "other-attrs"), lambda t=t: t.create(gen.gen_attrs(rng, t), n.content, n.marks))
        if n.type.attrs:
            add(prefix + "other-attrs", lambda: n.type.create(gen.gen_attrs(rng, n.type), n.content, n.marks))
        m = gen.gen_mark(rng, schema)
        if m is not None:
            add(prefix + "marked", lambda: n.mark(m.add_to_set(n.marks)))
    same_fragment("", d, True)
    names = list(d.type.attrs.keys())
    if names:
        from prosemirror.transform.doc_attr_step import DocAttrStep
        name = rng.choice(names)
        add("doc-attr-step", lambda: DocAttrStep(name, gen.gen_attr_value(rng, name)).apply(d).doc)
    for _ in range(2):
        add("step-result", lambda: gen.gen_step(rng, info, d, [d]).apply(d).doc)
    al = gen.aligned_positions(d)
    a, b = sorted((rng.choice(al), rng.choice(al)))
    add("cut", lambda: d.cut(a, b))
    add("slice-content", lambda: d.type.create(d.attrs, d.slice(a, b).content, d.marks))
    inner = []
    d.descendants(lambda n, p, par, i: inner.append(n) if not n.is_text and not n.is_leaf else None)
    if inner:
        n = rng.choice(inner)
        add("inner:self", lambda: n)
        same_fragment("inner:", n, False)
    empt = [t for t in schema.nodes.values() if not t.is_leaf and not t.is_text and t.valid_content(Fragment.empty)]
    for t in rng.sample(empt, min(3, len(empt))):
        add("empty", lambda t=t: t.create(gen.gen_attrs(rng, t)))
    return out


def run(ctx):
    core.lean_phase(ctx)
    rng = ctx.rng
    reqs, metas = [], []

    def flush():
        outs = ctx.driver.run(reqs) if reqs else []
        for req, meta, out in zip(reqs, metas, outs):
            if meta[0] == "fo":
                # the Fragment-object accessors (c02_frag.py: child / maybe_child / first_child / last_child / find_index)
                ctx.count("model_requests")
                c02_frag.compare(ctx, meta, out)
                continue
            op, replay, exp = meta
            ctx.count("model_requests")
            ctx.count("op:" + op)
            if out.get("ok", out) != exp:
                ctx.mismatch(op, replay, exp, out)
        del reqs[:], metas[:]

    fam = schemas.family()
    for si in range(ctx.budget(10, 40)):
        if len(reqs) >= 15000:
            flush()     # keep memory bounded in long runs
        info = fam[si % len(fam)] if si < len(fam) or rng.random() < 0.5 else schemas.random_schema(rng)
        if si == len(fam):
            info = schemas.inline_content_schema()     # an inline node with content, atoms with content
        schema = info.schema
        ctx.driver.add_schema(info)

        # ------------------------------------------------------------------------------------------------------------
        def check_pos(R, pos, other, related=None):
            """resolve + every accessor at one position of root R: token oracle and model tie"""
            d, toks, size, dj = R.d, R.toks, R.size, R.dj
            replay = {"schema": info.name, "doc": R.json, "pos": pos, "other": other}
            if related is not None:
                replay["root"] = R.label
                replay["queried_before"] = related
                ctx.case(["resolve-related", info.name, R.json, pos, other], sample=None)
            else:
                ctx.case(["resolve", info.name, R.json, pos, other], sample={"op": "resolve+accessors", "schema": info.name, "doc": str(d)[:160], "pos": pos})
            st, val = outcome(lambda: impl_resolve(info, d, pos, other))
            if st != "ok":
                ctx.violation("resolve-raises", f"resolve/accessor raised {val} at an in-range position", replay)
                return
            # ---- oracle from tokens
            anc = ancestors_from_tokens(toks, pos)
            exp_starts = [0] + [a + 1 for a in anc]
            exp_ends = [size] + [match_close(toks, a) for a in anc]
            bad = None
            if val["depth"] != len(anc):
                bad = f"depth {val['depth']} != unmatched opens {len(anc)}"
            elif val["starts"] != exp_starts or val["ends"] != exp_ends:
                bad = f"start/end of ancestors {val['starts']}/{val['ends']} != {exp_starts}/{exp_ends}"
            elif val["parentOffset"] != pos - exp_starts[-1]:
                bad = "parent_offset wrong"
            elif val["befores"][1:len(anc) + 1] != anc or val["afters"][1:len(anc) + 1] != [e + 1 for e in exp_ends[1:]]:
                bad = "before/after of ancestors wrong"
            else:
                # text offset: distance back to the start of the run of units with identical marks
                k = pos
                if 0 < pos < len(toks) and toks[pos][0] == "u" and toks[pos - 1][0] == "u" and toks[pos - 1][2] == toks[pos][2]:
                    while k > 0 and toks[k - 1][0] == "u" and toks[k - 1][2] == toks[pos][2]:
                        k -= 1
                    if val["textOffset"] != pos - k:
                        bad = f"text_offset {val['textOffset']} != {pos - k}"
                elif val["textOffset"] != 0:
                    bad = f"text_offset {val['textOffset']} != 0"
            if bad is None:
                # marks(): documented rule from the neighbouring tokens at this level
                exp_marks = expected_marks(schema, toks, pos, anc, exp_ends[-1])
                got_marks = [(schema_mark_name(info, m), ) for m in val["marks"]]
                if exp_marks is not None and [m[0] for m in got_marks] != exp_marks:
                    bad = f"marks() {[m[0] for m in got_marks]} != documented {exp_marks}"
            if bad:
                ctx.violation("resolve-accessor", "accessor disagrees with the flat token picture: " + bad, replay)
            # ---- the ancestors themselves: node(k), doc, parent are the nodes of *this* root that contain the position
            # (compared by value; the tree walk gives the expected chain)
            def ancestors():
                r, r2 = d.resolve(pos), d.resolve_no_cache(pos)
                return [r.node(k) for k in range(r.depth + 1)], r.doc, r.parent, (r.pos, r.path, r.parent_offset), (r2.pos, r2.path, r2.parent_offset)
            sta, got_anc = outcome(ancestors)
            ctx.count("ancestor_checks")
            enc_anc = None
            if sta != "ok":
                ctx.violation("resolve-raises", f"node(depth)/doc/parent raised {got_anc}", replay)
            else:
                nodes, rdoc, rparent, with_cache, without_cache = got_anc
                exp_chain = expected_ancestors(d, pos, R.sizes)
                def same(a, b):
                    if a is b:
                        return True
                    try:
                        return info.node(a) == info.node(b)
                    except Exception:  # noqa: BLE001  (a node of another schema cannot even be encoded: not the same)
                        return False
                badn = None
                if len(nodes) != len(exp_chain):
                    badn = f"{len(nodes)} ancestors, the tree has {len(exp_chain)} around the position"
                else:
                    for k, (g, e) in enumerate(zip(nodes, exp_chain)):
                        if not same(g, e):
                            badn = f"node({k}) is {str(g)[:80]} (attrs {dict(g.attrs)}, marks {[m.type.name for m in g.marks]}), the ancestor at depth {k} " \
                                   f"in the queried root is {str(e)[:80]} (attrs {dict(e.attrs)}, marks {[m.type.name for m in e.marks]})"
                            break
                    if badn is None and not same(rdoc, d):
                        badn = "doc is not the queried root"
                    if badn is None and not same(rparent, exp_chain[-1]):
                        badn = "parent is not the innermost ancestor"
                    if badn is None and not (with_cache[0] == without_cache[0] and with_cache[2] == without_cache[2] and len(with_cache[1]) == len(without_cache[1])
                                             and all(a == b if isinstance(a, int) or isinstance(b, int) else same(a, b) for a, b in zip(with_cache[1], without_cache[1]))):
                        badn = "resolve() and resolve_no_cache() give different positions"
                if badn:
                    ctx.violation("resolve-ancestors", "the ancestors a resolved position reports are not the nodes of the queried document around it: " + badn, replay)
                try:
                    enc_anc = [dj if n is d else info.node(n) for n in nodes]
                except Exception:  # noqa: BLE001  (nodes of another schema: reported above, nothing to send)
                    enc_anc = None
            reqs.append({"op": "resolve", "s": info.lean_id, "doc": dj, "pos": pos, "other": other})
            metas.append(("resolve", replay, val))
            if enc_anc is not None and (related is not None or rng.random() < 0.25):
                reqs.append({"op": "resolveNodes", "doc": dj, "pos": pos})
                metas.append(("resolveNodes", replay, enc_anc))
            # ---- node_at / child_after / child_before
            st2, na = outcome(lambda: d.node_at(pos))
            if st2 == "ok":
                reqs.append({"op": "nodeAt", "doc": dj, "pos": pos})
                metas.append(("nodeAt", replay, info.node(na) if na is not None else None))
                exp_has = pos < size and toks[pos][0] != "cl"
                if (na is not None) != exp_has:
                    ctx.violation("node_at", "node_at does not report the node starting at / covering the position", replay)
            else:
                ctx.violation("node_at-raises", f"node_at raised {na}", replay)

            def cab():
                a, b = d.child_after(pos), d.child_before(pos)
                enc = lambda x: [info.node(x["node"]) if x["node"] is not None else None, x["index"], x["offset"]]
                return [enc(a), enc(b)]
            st3, ab = outcome(cab)
            if st3 == "ok":
                reqs.append({"op": "childAB", "doc": dj, "pos": pos})
                metas.append(("childAB", replay, ab))
            elif pos <= size:
                ctx.violation("child_after-raises", f"child_after/before raised {ab}", replay)

        # ------------------------------------------------------------------------------------------------------------
        def check_whole(R):
            """whole-node conveniences: text_content and descendants are text_between / nodes_between over everything"""
            d, toks, size = R.d, R.toks, R.size
            stt, tc = outcome(lambda: d.text_content)
            if stt != "ok" or tc != from_units([x[1] for x in toks if x[0] == "u"]):
                ctx.violation("text_content", "text_content is not the text units of the document in order",
                              {"schema": info.name, "doc": R.json, "got": str(tc)})

            def desc():
                a1, a2 = [], []
                d.descendants(lambda n, p, par, i: a1.append([n.node_size, p, i]) or True)
                d.nodes_between(0, size, lambda n, p, par, i: a2.append([n.node_size, p, i]) or True)
                return a1, a2
            std, dd_ = outcome(desc)
            n_open = sum(1 for x in toks if x[0] in ("op", "leaf")) + sum(
                1 for k, x in enumerate(toks) if x[0] == "u" and (k == 0 or toks[k - 1][0] != "u" or toks[k - 1][2] != x[2]))
            if std != "ok" or dd_[0] != dd_[1] or len(dd_[0]) != n_open:
                ctx.violation("descendants", "descendants does not visit every node of the document once, like nodes_between(0, size)",
                              {"schema": info.name, "doc": R.json, "got": str(dd_)[:300], "nodes": n_open})
            ctx.count("whole_node_calls")

        # ------------------------------------------------------------------------------------------------------------
        def check_range(R, f, t):
            """nodes_between / text_between / range_has_mark / block_range / marks_across over one range of root R"""
            d, toks, size, dj = R.d, R.toks, R.size, R.dj
            replay = {"schema": info.name, "doc": R.json, "from": f, "to": t}
            if R.label != "doc":
                replay["root"] = R.label
            ctx.case(["between", info.name, R.json, f, t], nontrivial=f < t)

            def nb():
                acc = []
                d.nodes_between(f, t, lambda n, p, par, i: acc.append([n.node_size, p, i]) or True)
                return acc
            st, vis = outcome(nb)
            st2, txt = outcome(lambda: d.text_between(f, t))
            if st != "ok" or st2 != "ok":
                ctx.violation("between-raises", f"nodes_between/text_between raised {vis if st != 'ok' else txt}", replay)
                return
            exp_txt = from_units([x[1] for x in toks[f:t] if x[0] == "u"])
            if txt != exp_txt:
                ctx.violation("text_between", "text_between does not return the text units inside the range",
                              dict(replay, got=txt, expected=exp_txt))
            # block range of the two positions, from the token picture: the deepest depth, starting at the depth of
            # `from` (one less when its parent holds inline content or the two positions coincide), at which `to` still
            # lies inside from's ancestor; the range runs from before from's child at that depth to after to's
            anc_f, anc_t = ancestors_from_tokens(toks, f), ancestors_from_tokens(toks, t)

            def parent_inline(anc_):
                ty = schema.nodes[toks[anc_[-1]][1]] if anc_ else d.type
                return ty.inline_content
            d0 = len(anc_f) - (1 if parent_inline(anc_f) or f == t else 0)
            exp_br = None
            for dd in range(d0, -1, -1):
                end_d = size if dd == 0 else match_close(toks, anc_f[dd - 1])
                if t <= end_d:
                    exp_br = [dd, f if dd == len(anc_f) else anc_f[dd], t if dd == len(anc_t) else match_close(toks, anc_t[dd]) + 1]
                    break

            def br():
                x = d.resolve(f).block_range(d.resolve(t))
                return None if x is None else [x.depth, x.start, x.end]
            st5, got_br = outcome(br)
            ctx.count("block_range_calls")
            if st5 != "ok" or got_br != exp_br:
                ctx.violation("block_range", "block_range disagrees with the token picture of the two positions",
                              dict(replay, got=got_br if st5 == "ok" else str(got_br), expected=exp_br))
            if st5 == "ok":
                reqs.append({"op": "blockRange", "s": info.lean_id, "doc": dj, "from": f, "to": t})
                metas.append(("blockRange", replay, got_br))
            if st5 == "ok" and got_br is not None:
                # the NodeRange's own accessors: start / end / start_index / end_index / parent, against the model
                # (PM/ResolveExtra.lean nodeRangeInfo) and against the token picture (start_index = number of whole
                # children of the ancestor before `start`, end_index likewise for `end`)
                def nr():
                    x = d.resolve(f).block_range(d.resolve(t))
                    return [x.start, x.end, x.start_index, x.end_index, x.parent.child_count]
                st6, got_nr = outcome(nr)
                ctx.count("node_range_calls")
                if st6 != "ok":
                    ctx.violation("node_range-raises", f"a NodeRange accessor raised {got_nr}", replay)
                else:
                    reqs.append({"op": "nodeRange", "doc": dj, "from": f, "to": t, "depth": got_br[0]})
                    metas.append(("nodeRange", replay, got_nr))
                    dd = got_br[0]
                    if dd > len(anc_f):
                        return   # a depth the token picture does not have: reported as block_range above
                    lo = 0 if dd == 0 else anc_f[dd - 1] + 1
                    def whole_children_before(p):
                        n, q = 0, lo
                        while q < p:
                            q = (match_close(toks, q) + 1) if toks[q][0] == "op" else q + 1
                            if toks[q - 1][0] == "u":
                                # a run of text units with equal marks is one child
                                while q < p and toks[q][0] == "u" and toks[q][2] == toks[q - 1][2]:
                                    q += 1
                            n += 1
                        return n if q == p else None
                    e_si, e_ei = whole_children_before(got_br[1]), whole_children_before(got_br[2])
                    if got_nr[:2] != got_br[1:] or (e_si is not None and got_nr[2] != e_si) or (e_ei is not None and got_nr[3] != e_ei):
                        ctx.violation("node_range", "NodeRange start/end/start_index/end_index disagree with the token picture",
                                      dict(replay, got=got_nr, expected=[got_br[1], got_br[2], e_si, e_ei]))
            # marks_across: the marks of the node after `from` that continue across to `to` (non-inclusive marks only
            # when the node after `to` carries them too)
            def mac():
                x = d.resolve(f).marks_across(d.resolve(t))
                return None if x is None else [[m.type.name, m.attrs] for m in x]
            st7, got_ma = outcome(mac)
            ctx.count("marks_across_calls")
            if st7 != "ok":
                ctx.violation("marks_across-raises", f"marks_across raised {got_ma}", replay)
            else:
                reqs.append({"op": "marksAcross", "s": info.lean_id, "doc": dj, "from": f, "to": t})
                metas.append(("marksAcross", replay, None if got_ma is None else info.marks(d.resolve(f).marks_across(d.resolve(t)))))
                exp_ma = expected_marks_across(schema, d, toks, f, t, anc_f, anc_t, size)
                if exp_ma != "skip" and (None if got_ma is None else [m[0] for m in got_ma]) != exp_ma:
                    ctx.count("marks_across:checked")
                    ctx.violation("marks_across", "marks_across disagrees with the documented rule read off the token picture",
                                  dict(replay, got=got_ma, expected=exp_ma))
                elif exp_ma != "skip":
                    ctx.count("marks_across:checked")
            # separators and leaf text (string and callable forms)
            for sep, lt_impl, lt_ref in (("\n", "", ""), ("|", "*", "*"), ("\n\n", lambda n: "" if n.type.name.startswith("h") else "[" + n.type.name + "]",
                                                                          lambda ty: "" if ty.startswith("h") else "[" + ty + "]"), ("", "#", "#")):
                st4, txt2 = outcome(lambda: d.text_between(f, t, sep, lt_impl))
                exp2 = ref_text_between(schema, R.json.get("content"), f, t, sep, lt_ref)
                ctx.count("text_between_sep_calls")
                if st4 == "ok" and isinstance(lt_impl, str):
                    reqs.append({"op": "textBetweenSep", "s": info.lean_id, "doc": dj, "from": f, "to": t,
                                 "sep": units(sep), "leaf": units(lt_impl)})
                    metas.append(("textBetweenSep", dict(replay, separator=sep, leaf_text=lt_impl), units(txt2)))
                if st4 != "ok" or txt2 != exp2:
                    ctx.violation("text_between-separators", "text_between with a block separator / leaf text does not give the documented text",
                                  dict(replay, separator=sep, leaf_text=lt_ref if isinstance(lt_ref, str) else "[type name], empty for h*",
                                       got=txt2 if st4 == "ok" else str(txt2), expected=exp2))
                    break
            # visited nodes: exactly those whose token interval meets (from, to) [start < to and end > from], in document order
            exp_vis = expected_visits(toks, f, t)
            if [v[1] for v in vis] != exp_vis:
                ctx.violation("nodes_between", "nodes_between visits other nodes/positions than the token picture says",
                              dict(replay, got=[v[1] for v in vis], expected=exp_vis))
            reqs.append({"op": "nodesBetween", "doc": dj, "from": f, "to": t})
            metas.append(("nodesBetween", replay, [vis, units(txt)]))
            m = gen.gen_mark(rng, schema)
            if m is not None:
                st3, has = outcome(lambda: d.range_has_mark(f, t, m))
                if st3 == "ok":
                    exp_has = f < t and any(mark_in(m, info, toks[p]) for p in exp_vis)
                    if bool(has) != exp_has:
                        ctx.violation("range_has_mark", "range_has_mark disagrees with the marks of the nodes in the range", replay)
                    reqs.append({"op": "rangeHasMark", "doc": dj, "from": f, "to": t, "mark": info.mark(m)})
                    metas.append(("rangeHasMark", replay, bool(has)))

        # ------------------------------------------------------------------------------------------------------------
        def related_queries(R0):
            """a family of nodes related to the document (same content Fragment object, shared children, empty nodes)
            queried alternately at the same positions — each answer must be about the node that was asked — then a third
            of the queries once more in another order, and a range each"""
            rel = related_roots(rng, info, R0.d)
            same_frag = [x for x in rel if x[0] in SAME_FRAGMENT]
            others = [x for x in rel if x[0] not in SAME_FRAGMENT and not x[0].startswith("inner") and x[0] != "empty"]
            inner = [x for x in rel if x[0].startswith("inner:") and x[0] != "inner:self"]
            empties = [x for x in rel if x[0] == "empty"]
            thorough = ctx.tier != "quick"
            pick = lambda xs, k: rng.sample(xs, min(k, len(xs)))
            groups = [(["doc"], pick(same_frag, 2) + pick(others, 1), 5 if thorough else 3)]
            if inner and (thorough or rng.random() < 0.5):
                groups.append(([x for x in rel if x[0] == "inner:self"], pick(inner, 2), 3 if thorough else 2))
            if len(empties) >= 2:
                groups.append(([], empties, 1))
            ctx.count("related_families")
            for head, chosen, npos in groups:
                group = [R0 if x == "doc" else Root(info, x[1], x[0]) for x in head] + [Root(info, n, label) for label, n in chosen]
                if len(group) < 2:
                    continue
                for r in group[1:] if head else group:
                    ctx.count("related_root:" + r.label)
                base = group[0].aligned
                first = []
                for p in rng.sample(base, min(len(base), npos)):
                    order = group[:]
                    rng.shuffle(order)
                    first += [(r, p) for r in order if p <= r.size and p in r.aligned]
                again = rng.sample(first, len(first) // 3)
                before = None
                for r, p in first + again:
                    check_pos(r, p, rng.choice(r.aligned), related=before or "-")
                    before = r.label
                    ctx.count("related_queries")
                for r in group[1:]:
                    if r.size == 0:
                        continue
                    check_whole(r)
                    f, t = sorted((rng.choice(r.aligned), rng.choice(r.aligned)))
                    check_range(r, f, t)
                    ctx.count("related_range_queries")

        for _ in range(ctx.budget(3, 8)):
            if ctx.time_left() < 0:
                break
            d = gen.gen_doc(rng, schema, budget=rng.choice([6, 12, 20]))
            if rng.random() < 0.4:
                d = gen.gen_marky_doc(rng, schema) or d
            R = Root(info, d)
            toks, size = R.toks, R.size
            # the Fragment-object accessors on the content of this document's nodes (negative indices, both roundings of
            # find_index, positions outside, a wrong stored size)
            c02_frag.run_accessors(ctx, info, [d], reqs, metas)
            for pos in R.aligned:
                check_pos(R, pos, rng.choice(R.aligned))
            check_whole(R)
            # text_content of a text node is its text; positions just outside the document do not resolve (ValueError, never
            # anything else); block_range() with no argument is block_range(self), and its two arguments may come in either order
            tn = next((n for n in [d.first_child.first_child if d.child_count and not d.first_child.is_leaf else None] if n is not None and n.is_text), None)
            if tn is not None and tn.text_content != tn.text:
                ctx.violation("text_content", "text_content of a text node is not its text", {"schema": info.name, "doc": d.to_json()})
            for bad_pos in (size + 1, -1):
                stb, rb = outcome(lambda: d.resolve(bad_pos))
                ctx.count("resolve-outside:" + stb)
                if stb != "valueError":
                    ctx.violation("resolve-outside", f"resolving position {bad_pos} of a document of size {size} did not raise a ValueError: {stb} {str(rb)[:80]}",
                                  {"schema": info.name, "doc": d.to_json(), "pos": bad_pos})
            al = R.aligned
            if al:
                pa, pb = rng.choice(al), rng.choice(al)
                def brs():
                    ra, rb_ = d.resolve(pa), d.resolve(pb)
                    enc = lambda x: None if x is None else [x.depth, x.start, x.end]
                    return [enc(ra.block_range()), enc(ra.block_range(ra)), enc(ra.block_range(rb_)), enc(rb_.block_range(ra))]
                stq, q = outcome(brs)
                ctx.count("block_range-defaults")
                if stq != "ok" or q[0] != q[1] or q[2] != q[3]:
                    ctx.violation("block_range", "block_range() is not block_range(self), or block_range depends on the order of its two positions",
                                  {"schema": info.name, "doc": d.to_json(), "from": pa, "to": pb, "got": str(q)[:300]})
            # ---- ranges: nodes_between / text_between / range_has_mark
            for _ in range(ctx.budget(22, 72)):
                f, t = sorted((rng.choice(al), rng.choice(al)))
                if rng.random() < 0.15:
                    t = f
                check_range(R, f, t)
            # ---- related nodes queried alternately
            related_queries(R)
    flush()
    return ctx.finish(
        rule="a case is (schema, document, position[, second position]) over every pair-aligned position of each "
             "generated document, or a random range for the traversal interfaces, or a position of a node related to the "
             "document (same content object, shared children, empty nodes) queried in alternation with it; distinct by content")


def schema_mark_name(info, m):
    return info.mark_names[m[0]]


def mark_in(m, info, tok):
    key = (m.type.name, __import__("harness.codec", fromlist=["jval"]).jval(dict(m.attrs)))
    marks = tok[-1] if tok[0] != "cl" else ()
    return key in marks


def expected_visits(toks, f, t):
    """start positions of the nodes nodes_between(f, t) visits: a node [s, e) is visited when s < t and
    e > f (for from == to: the nodes containing or starting right at … following the code's documented
    half-open test) and all its ancestors are visited; text runs count as one node"""
    out = []
    i = 0
    n = len(toks)
    while i < n:
        tk = toks[i]
        if tk[0] == "op":
            e = match_close(toks, i) + 1
            if i < t and e > f:
                out.append(i)
                i += 1
                continue
            i = e
            continue
        if tk[0] == "leaf":
            if i < t and i + 1 > f:
                out.append(i)
            i += 1
            continue
        if tk[0] == "u":
            j = i
            while j < n and toks[j][0] == "u" and toks[j][2] == tk[2]:
                j += 1
            if i < t and j > f:
                out.append(i)
            i = j
            continue
        i += 1
    return out


def ref_text_between(schema, content, f, t, sep, leaf_text):
    """the documented text_between over the JSON tree: text inside the range; `leaf_text` (string or function of the
    node's type name) for every non-text leaf met; `sep` once before each block node met after some text or leaf —
    a leaf counts whether or not it contributed text"""
    from ..codec import units
    out, state = [], {"separated": True}

    def walk(kids, pos, f, t):
        for c in kids or []:
            if pos >= t:
                break
            ty = c["type"]
            if ty == "text":
                us = units(c["text"])
                size = len(us)
            else:
                nt = schema.nodes[ty]
                size = 1 if nt.is_leaf else 2 + content_size(schema, c.get("content"))
            end = pos + size
            if end > f:
                if ty == "text":
                    out.append(from_units(us[max(f, pos) - pos:max(0, t - pos)]))
                    state["separated"] = not sep
                elif schema.nodes[ty].is_leaf:
                    if leaf_text:
                        out.append(leaf_text(ty) if callable(leaf_text) else leaf_text)
                    state["separated"] = not sep
                else:
                    if not state["separated"] and schema.nodes[ty].is_block:
                        out.append(sep)
                        state["separated"] = True
                    walk(c.get("content"), pos + 1, f, t)
            pos = end
    walk(content, 0, f, t)
    return "".join(out)


def content_size(schema, kids):
    from ..codec import units
    n = 0
    for c in kids or []:
        if c["type"] == "text":
            n += len(units(c["text"]))
        else:
            n += 1 if schema.nodes[c["type"]].is_leaf else 2 + content_size(schema, c.get("content"))
    return n


def expected_marks(schema, toks, pos, anc, parent_end):
    """documented marks() result as a list of mark type names, or None when not decidable from tokens alone"""
    start = (anc[-1] + 1) if anc else 0
    if start == parent_end:
        return []

    def node_marks_before():
        if pos == start:
            return None
        tk = toks[pos - 1]
        if tk[0] == "cl":
            # the node before is the element closed here: find its open token
            d = 0
            for i in range(pos - 1, -1, -1):
                if toks[i][0] == "cl":
                    d += 1
                elif toks[i][0] == "op":
                    d -= 1
                    if d == 0:
                        return toks[i][3]
            return None
        return tk[-1]

    def node_marks_after():
        if pos == parent_end:
            return None
        return toks[pos][-1]
    # inside a text node: the text node's marks
    if start < pos < parent_end and toks[pos][0] == "u" and toks[pos - 1][0] == "u" and toks[pos][2] == toks[pos - 1][2]:
        return [m[0] for m in toks[pos][2]]
    before, after = node_marks_before(), node_marks_after()
    main, other = (before, after) if before is not None else (after, None)
    if main is None:
        return []
    out = []
    for m in main:
        incl = schema.marks[m[0]].spec.get("inclusive") is not False
        if not incl and (other is None or m not in other):
            continue
        out.append(m[0])
    return out



def expected_marks_across(schema, d, toks, f, t, anc_f, anc_t, size):
    """documented marks_across result (list of mark type names, or None) read off the token picture:
    the node after a position is the node whose first token is there — or the text node containing it"""
    def node_after(pos, anc):
        end = size if not anc else match_close(toks, anc[-1])
        if pos >= end:
            return None
        return toks[pos]
    a = node_after(f, anc_f)
    if a is None:
        return None
    if a[0] != "u" and not schema.nodes[a[1]].is_inline:
        return None
    nxt = node_after(t, anc_t)
    other = None if nxt is None else nxt[-1]
    out = []
    for m in a[-1]:
        incl = schema.marks[m[0]].spec.get("inclusive") is not False
        if not incl and (other is None or m not in other):
            continue
        out.append(m[0])
    return out


if __name__ == "__main__":
    core.main("C09", run)
