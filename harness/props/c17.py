"""C17 — concurrent edits to separate parts of a document commute after rebasing.

Tie (relational): Step.map over the other step's map is evaluated by the real code and by the model
(lean/PM/Step.lean `Step.map`); for separated ranges neither may drop the step and the model's
rebased step, applied by the real code, must have the same effect as the real rebased step.
Search: the full convergence check on pairs of steps produced by high-level operations on a common
base document whose touched ranges are separated by at least one untouched token.

Guard of `commute_succeeds_replace` (lean/Props/C17.lean): `commuteGuard = insideLeft or insideRight`
(lean/PM/CommuteGuard.lean) — one of the two replace steps happens inside an element node the other one does not
touch.  Tie: both halves computed from the real `ResolvedPos` data (`inside_left`, `inside_right` below) are compared
with the model's values (driver op `commuteGuard`) on every separated pair of replace steps that both apply.  Relational oracle: guard true  =>  both rebased steps apply in the
real code and give equal documents (a failure there is *not* excused by the open finding C17-parent-retyped).
"""
from prosemirror.transform import (
    AddMarkStep,
    AddNodeMarkStep,
    AttrStep,
    RemoveMarkStep,
    RemoveNodeMarkStep,
    ReplaceAroundStep,
    ReplaceStep,
    Transform,
)
from prosemirror.transform.doc_attr_step import DocAttrStep

from .. import core, gen, ops, schemas
from ..codec import step_map
from ..core import outcome


def span(step):
    if isinstance(step, (ReplaceStep, ReplaceAroundStep, AddMarkStep, RemoveMarkStep)):
        return step.from_, step.to
    if isinstance(step, (AddNodeMarkStep, RemoveNodeMarkStep, AttrStep)):
        return step.pos, step.pos + 1
    return None


EXACT = object()   # marker: compare the rebased step itself, not its effect


def separated(a, b):
    sa, sb = span(a), span(b)
    if sa is None or sb is None:
        return False
    return sa[1] < sb[0] or sb[1] < sa[0]


def inside_left(doc, l, r):
    """`insideLeft` of lean/PM/CommuteGuard.lean on the real data: replace_outer of the left step `l` descends into an
    element node (level by level: `depth < from.depth - open_start` and `from`, `to` inside the same child) that
    the range of the right step `r` begins behind, in a node replace_outer of `r` reaches as well"""
    rf1, rt1 = doc.resolve(l.from_), doc.resolve(l.to)
    rf2 = doc.resolve(r.from_)
    e1 = rf1.depth - l.slice.open_start
    e2 = rf2.depth - r.slice.open_start
    d = 0
    while True:
        if rf1.depth <= d:
            return False
        if not (e1 - d > 0 and rt1.depth > d and rt1.index(d) == rf1.index(d)):
            return False
        end_n = rf1.after(d + 1)
        if r.from_ >= end_n:
            return True
        if not (e2 - d > 0 and r.to < end_n):
            return False
        d += 1


def inside_right(doc, l, r):
    """`insideRight` of lean/PM/CommuteGuard.lean on the real data: replace_outer of the right step `r` descends into an
    element node that the range of the left step `l` ends in front of, in a node replace_outer of `l` reaches as well"""
    rf2, rt2 = doc.resolve(r.from_), doc.resolve(r.to)
    rf1 = doc.resolve(l.from_)
    e1 = rf1.depth - l.slice.open_start
    e2 = rf2.depth - r.slice.open_start
    d = 0
    while True:
        if rf2.depth <= d:
            return False
        if not (e2 - d > 0 and rt2.depth > d and rt2.index(d) == rf2.index(d)):
            return False
        start_m = rf2.before(d + 1)
        if l.to <= start_m:
            return True
        if not (e1 - d > 0 and l.from_ > start_m):
            return False
        d += 1


def first_step(rng, info, d, docs):
    tr = Transform(d)
    name, args, thunk = ops.plan_op(rng, info, d, docs)
    st, val, added = ops.run_op(tr, thunk)
    if added >= 1:
        return name, tr.steps[0]
    return name, None


def apply_doc(step, doc):
    st, res = outcome(lambda: step.apply(doc))
    if st == "ok" and res.doc is not None:
        return res.doc
    return None


def run(ctx):
    core.lean_phase(ctx)
    rng = ctx.rng
    reqs, metas = [], []
    greqs, gmetas = [], []

    def flush():
        gouts = ctx.driver.run(greqs) if greqs else []
        for (replay, impl_guard, converged), out in zip(gmetas, gouts):
            ctx.count("guard:model_requests")
            mo = out.get("ok")
            if not isinstance(mo, list) or mo[:2] != list(impl_guard) or mo[2] is not (impl_guard[0] or impl_guard[1]):
                ctx.mismatch("commuteGuard", replay, impl_guard, out)
                continue
            ctx.count("guard:left=%s,right=%s" % (mo[0], mo[1]))
            if mo[2] and not converged:
                # the theorem's conclusion fails on the real code although its guard holds
                ctx.mismatch("commuteGuard=>converge", replay, "a rebased step fails or the orders differ", out)
        del greqs[:], gmetas[:]
        outs = ctx.driver.run(reqs) if reqs else []
        for req, (replay, info, impl_rebased, base), out in zip(reqs, metas, outs):
            ctx.count("model_requests")
            if base is EXACT:
                # any pair (overlapping ranges included): the model's Step.map and the real one must agree exactly —
                # both drop the step, or both return the same step
                mo = out.get("ok") if "ok" in out else "ERR"
                if impl_rebased is None or mo is None or mo == "ERR":
                    same = (impl_rebased is None) and (mo is None)
                else:
                    stm, ms = outcome(lambda: info.un_step(mo))
                    same = stm == "ok" and ms.to_json() == impl_rebased.to_json()
                ctx.count("exact-map:" + ("dropped" if impl_rebased is None else "kept"))
                if not same:
                    ctx.mismatch("stepMap-exact", replay, None if impl_rebased is None else impl_rebased.to_json(), mo)
                continue
            if "ok" not in out or out["ok"] is None:
                ctx.mismatch("stepMap", replay, "a rebased step", out)
                continue
            stm, ms = outcome(lambda: info.un_step(out["ok"]))
            d1 = apply_doc(ms, base) if stm == "ok" else None
            d2 = apply_doc(impl_rebased, base)
            if (d1 is None) != (d2 is None) or (d1 is not None and not d1.eq(d2)):
                ctx.mismatch("stepMap", replay, "same effect of the rebased step", {"model": out["ok"], "impl": impl_rebased.to_json()})
        del reqs[:], metas[:]

    fam = schemas.family()
    for si in range(ctx.budget(14, 60)):
        info = fam[si % len(fam)]
        schema = info.schema
        ctx.driver.add_schema(info)
        docs = [gen.gen_doc(rng, schema, budget=rng.choice([10, 20, 30])) for _ in range(ctx.budget(5, 10))]
        for d in docs:
            if ctx.time_left() < 0:
                break
            cands = []
            for _ in range(ctx.budget(14, 30)):
                name, st = first_step(rng, info, d, docs)
                if st is not None and not isinstance(st, DocAttrStep):
                    cands.append((name, st))
            for i in range(len(cands)):
                for j in range(i + 1, len(cands)):
                    (na, a), (nb, b) = cands[i], cands[j]
                    if not separated(a, b):
                        # overlapping or touching ranges: the property promises nothing, but the model of Step.map is
                        # exact, so it is tied here too (this is where steps get dropped)
                        for (x, y) in ((a, b), (b, a)):
                            stx, x2 = outcome(lambda: x.map(y.get_map()))
                            if stx == "ok":
                                reqs.append({"op": "stepMap", "step": info.step(x), "m": step_map(y.get_map())})
                                metas.append(({"schema": info.name, "step": x.to_json(), "over": y.to_json()}, info, x2, EXACT))
                        continue
                    replay = {"schema": info.name, "doc": d.to_json(), "a": a.to_json(), "b": b.to_json(), "ops": [na, nb]}
                    ctx.case(["pair", info.name, d.to_json(), a.to_json(), b.to_json()],
                             sample={"op": "rebase+commute", "schema": info.name, "ops": [na, nb], "a": a.to_json(), "b": b.to_json()})
                    ctx.count("pair:" + "/".join(sorted([type(a).__name__, type(b).__name__])))
                    da, db = apply_doc(a, d), apply_doc(b, d)
                    if da is None or db is None:
                        continue
                    sta, a2 = outcome(lambda: a.map(b.get_map()))
                    stb, b2 = outcome(lambda: b.map(a.get_map()))
                    if sta != "ok" or stb != "ok":
                        ctx.violation("map-raises", f"Step.map raised {a2 if sta != 'ok' else b2}", replay)
                        continue
                    if a2 is None or b2 is None:
                        ctx.violation("dropped", "a step touching a separate part was dropped by rebasing", replay)
                        continue
                    dab, dba = apply_doc(b2, da), apply_doc(a2, db)
                    replay["a_rebased"], replay["b_rebased"] = a2.to_json(), b2.to_json()
                    if type(a) is ReplaceStep and type(b) is ReplaceStep:
                        l, r = (a, b) if a.to < b.from_ else (b, a)
                        stg, g = outcome(lambda: (inside_left(d, l, r), inside_right(d, l, r)))
                        if stg == "ok":
                            greqs.append({"op": "commuteGuard", "doc": info.node(d), "a": info.step(l), "b": info.step(r)})
                            gmetas.append((replay, g, dab is not None and dba is not None and dab.eq(dba)))
                    if dab is None or dba is None:
                        ctx.violation("order-fails", "one order of application fails after rebasing", dict(replay, ab_ok=dab is not None, ba_ok=dba is not None))
                    elif not dab.eq(dba):
                        ctx.violation("diverge", "the two orders of application give different documents", dict(replay, ab=dab.to_json(), ba=dba.to_json()))
                    for (x, y, x2, dy) in ((a, b, a2, db), (b, a, b2, da)):
                        reqs.append({"op": "stepMap", "step": info.step(x), "m": step_map(y.get_map())})
                        metas.append((replay, info, x2, dy))
                    if len(reqs) >= 20000:
                        flush()     # keep memory bounded in long (thorough) runs
    flush()
    return ctx.finish(
        rule="a case is (base document, step A, step B) where A and B are the first steps emitted by two random high-level "
             "operations on the same base document and their touched ranges are separated by at least one untouched token; "
             "bundled-family schemas; distinct by content")


if __name__ == "__main__":
    core.main("C17", run)
