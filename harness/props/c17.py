"""C17 — concurrent edits to separate parts of a document commute after rebasing.

Tie (relational): Step.map over the other step's map is evaluated by the real code and by the model
(lean/PM/Step.lean `Step.map`); for separated ranges neither may drop the step and the model's
rebased step, applied by the real code, must have the same effect as the real rebased step.
Search: the full convergence check on pairs of steps produced by high-level operations on a common
base document whose touched ranges are separated by at least one untouched token.

Guard of `commute_succeeds_replace` (lean/Props/C17.lean): `commuteGuard = insideLeft or insideRight`
(lean/PM/CommuteGuard.lean) — one of the two replace steps happens inside an element node the other one does not
touch.  Tie: both halves computed from the real `ResolvedPos` data (`inside_left`, `inside_right` below) are compared
with the model's values (driver op `commuteGuard`) on every separated pair of replace steps that both apply.  Relational oracle: guard true  =>  both rebased steps apply in the
real code and give equal documents (a failure there is *not* excused by the open finding C17-parent-retyped).
The same guard with `(from, to, slice)` of a replace-around step in place of one of the two replace steps
(`commute_succeeds_around`): same tie, same oracle.

Replace-around steps (last section of lean/Props/C17.lean):
* `aroundShape` (lean/PM/CommuteGuard.lean, hypothesis `AroundShape` of the theorems): computed on the real step
  object (`around_shape` below) and by the model (driver op `aroundShape`), compared, and required to be true for
  every replace-around step a high-level operation emits.
* the whole square of the model (driver op `commuteSquare`: both steps applied, each rebased over the other's map,
  the rebased steps applied) is compared with the real square — rebased steps and both final documents, exactly —
  for every pair with a replace-around step whose partner lies before its range, after it, or strictly inside its
  kept gap.  For partners inside the gap (not part of the search population, whose notion of "separated" uses
  `from`/`to`) the conclusions of `rebase_around_separated` / `commute_replace_around` / `commute_around_nodeStep`
  are checked on the real code: neither step dropped; if all four applications succeed the documents are equal.
* `gapGuard` (lean/PM/CommuteGuard.lean; guard of `commute_succeeds_around_gap`, proved for slices closed on both sides): for a
  replace / replace-around step strictly inside the gap, "replace_outer descends into an element node lying inside the
  gap" is computed from the real `ResolvedPos` data (`inside_gap` below) and by the model (driver op `gapGuard`),
  compared, and the relational oracle "guard true => the real code's four applications succeed and give equal
  documents" is checked on every such pair (counters `gapGuard:<guard>,<converged|an-order-fails>`).
* the further hypotheses of `commute_succeeds_around_gap` are counted on the pairs with a true guard
  (`gapGuard-true:slice-closed=…,ends-aligned=…`; slice closedness compared with the real step, alignment model-only).
* mark step outside `[from, to]` of a replace-around step (`commute_succeeds_around_mark_partial`): `commuteGuard` with
  the mark step's range and the open depths of `doc.slice(from, to)`, same tie and oracle (`guard-around-mark:*`).
* attr / remove-node-mark step outside `[from, to]` of a replace-around step with a closed slice
  (`commute_succeeds_around_nodeStep_closed_partial`, no guard): relational oracle on the real code
  (`nodeStep-closed=>converge`), counter `nodeStep-outside:slice-closed=…`.
* two replace-around steps one after the other (`commute_succeeds_around_around`): `commuteGuard` on `(from, to, slice)`
  of both, same tie and oracle as for replace steps (counters `guard-around-around:*`).
"""
from prosemirror.transform import (
    AddMarkStep,
    AddNodeMarkStep,
    AttrStep,
    RemoveMarkStep,
    RemoveNodeMarkStep,
    ReplaceAroundStep,
    ReplaceStep,
    Transform,
)
from prosemirror.transform.doc_attr_step import DocAttrStep
from prosemirror.model import Slice

from .. import core, gen, ops, schemas
from ..codec import step_map
from ..core import outcome


def span(step):
    if isinstance(step, (ReplaceStep, ReplaceAroundStep, AddMarkStep, RemoveMarkStep)):
        return step.from_, step.to
    if isinstance(step, (AddNodeMarkStep, RemoveNodeMarkStep, AttrStep)):
        return step.pos, step.pos + 1
    return None


EXACT = object()   # marker: compare the rebased step itself, not its effect


def separated(a, b):
    sa, sb = span(a), span(b)
    if sa is None or sb is None:
        return False
    return sa[1] < sb[0] or sb[1] < sa[0]


def spine(frag, left):
    """`spineL` / `spineR` of lean/PM/Replace.lean on a real fragment: how deep the first (last) children are nodes with content"""
    n = 0
    while frag.child_count:
        c = frag.first_child if left else frag.last_child
        if c.is_text or c.type.is_leaf:
            break
        n += 1
        frag = c.content
    return n


def around_shape(st):
    """`aroundShape` of lean/PM/CommuteGuard.lean on a real ReplaceAroundStep"""
    sl = st.slice
    return bool(sl.open_start <= spine(sl.content, True) and sl.open_end <= spine(sl.content, False)
                and st.insert <= sl.size and st.from_ <= st.gap_from <= st.gap_to <= st.to)


def in_gap(a, b):
    """`b` lies strictly inside the kept gap of the replace-around step `a`"""
    sb = span(b)
    return isinstance(a, ReplaceAroundStep) and sb is not None and a.gap_from < sb[0] and sb[1] < a.gap_to


def inside_left(doc, l, r):
    """`insideLeft` of lean/PM/CommuteGuard.lean on the real data: replace_outer of the left step `l` descends into an
    element node (level by level: `depth < from.depth - open_start` and `from`, `to` inside the same child) that
    the range of the right step `r` begins behind, in a node replace_outer of `r` reaches as well"""
    rf1, rt1 = doc.resolve(l.from_), doc.resolve(l.to)
    rf2 = doc.resolve(r.from_)
    e1 = rf1.depth - l.slice.open_start
    e2 = rf2.depth - r.slice.open_start
    d = 0
    while True:
        if rf1.depth <= d:
            return False
        if not (e1 - d > 0 and rt1.depth > d and rt1.index(d) == rf1.index(d)):
            return False
        end_n = rf1.after(d + 1)
        if r.from_ >= end_n:
            return True
        if not (e2 - d > 0 and r.to < end_n):
            return False
        d += 1


def inside_right(doc, l, r):
    """`insideRight` of lean/PM/CommuteGuard.lean on the real data: replace_outer of the right step `r` descends into an
    element node that the range of the left step `l` ends in front of, in a node replace_outer of `l` reaches as well"""
    rf2, rt2 = doc.resolve(r.from_), doc.resolve(r.to)
    rf1 = doc.resolve(l.from_)
    e1 = rf1.depth - l.slice.open_start
    e2 = rf2.depth - r.slice.open_start
    d = 0
    while True:
        if rf2.depth <= d:
            return False
        if not (e2 - d > 0 and rt2.depth > d and rt2.index(d) == rf2.index(d)):
            return False
        start_m = rf2.before(d + 1)
        if l.to <= start_m:
            return True
        if not (e1 - d > 0 and l.from_ > start_m):
            return False
        d += 1


def inside_gap(doc, a, r):
    """`gapGuard` of lean/PM/CommuteGuard.lean on the real data: replace_outer of the step `r` (a replace step, or
    `(from, to, slice)` of a replace-around step) descends into an element node that lies entirely inside the kept
    gap of the replace-around step `a`"""
    rf1, rt1 = doc.resolve(r.from_), doc.resolve(r.to)
    e1 = rf1.depth - r.slice.open_start
    d = 0
    while True:
        if rf1.depth <= d:
            return False
        if not (e1 - d > 0 and rt1.depth > d and rt1.index(d) == rf1.index(d)):
            return False
        if a.gap_from <= rf1.before(d + 1) and rf1.after(d + 1) <= a.gap_to:
            return True
        d += 1


class AsReplace:
    """a mark step seen as the replace of its range by the re-marked slice (`markStep_as_replace`, lean/Proofs/
    CommuteAroundAgain.lean): range and open depths of `doc.slice(from, to)`"""
    def __init__(self, st, doc):
        if hasattr(st, "pos"):   # node-mark / attr step: the one-token range, closed slice (`nodeStep_full`)
            self.from_, self.to, self.slice = st.pos, st.pos + 1, Slice.empty
        else:
            self.from_, self.to, self.slice = st.from_, st.to, doc.slice(st.from_, st.to)


def first_step(rng, info, d, docs):
    tr = Transform(d)
    name, args, thunk = ops.plan_op(rng, info, d, docs)
    if rng.random() < 0.06:
        # typing several strings at once: Transform.insert with a list of adjacent text nodes of equal marks
        case = gen.multi_text_insert(rng, info.schema, d)
        if case is not None:
            name, thunk = "insert", (lambda p0, ns: lambda tr_: tr_.insert(p0, ns))(*case)
    st, val, added = ops.run_op(tr, thunk)
    if added >= 1:
        return name, tr.steps[0]
    return name, None


def apply_doc(step, doc):
    st, res = outcome(lambda: step.apply(doc))
    if st == "ok" and res.doc is not None:
        return res.doc
    return None


def run(ctx):
    core.lean_phase(ctx)
    rng = ctx.rng
    reqs, metas = [], []
    greqs, gmetas = [], []

    sreqs, smetas = [], []     # commuteSquare / aroundShape
    shapes_seen = set()

    def flush():
        souts = ctx.driver.run(sreqs) if sreqs else []
        for req, meta, out in zip(sreqs, smetas, souts):
            if req["op"] == "aroundShape":
                replay, impl_shape = meta
                ctx.count("aroundShape:model_requests")
                if out.get("ok") is not impl_shape:
                    ctx.mismatch("aroundShape", replay, impl_shape, out)
                ctx.count("aroundShape:%s" % impl_shape)
                if not impl_shape:
                    # the hypothesis of the replace-around theorems fails for a step the library built
                    ctx.mismatch("aroundShape-holds", replay, True, impl_shape)
                continue
            if req["op"] == "gapGuard":
                replay, impl_guard, converged = meta
                ctx.count("gapGuard:model_requests")
                mo = out.get("ok")
                if not isinstance(mo, list) or len(mo) != 3 or mo[0] is not impl_guard[0] or mo[1] is not impl_guard[1]:
                    ctx.mismatch("gapGuard", replay, impl_guard, out)
                    continue
                impl_guard = impl_guard[0]
                kind = "" if req["b"][0] in ("replace", "replaceAround") else "-mark" if req["b"][0] in ("addMark", "removeMark") else "-node"
                ctx.count("gapGuard%s:%s,%s" % (kind, impl_guard, "converged" if converged else "an-order-fails"))
                if impl_guard and not kind:
                    # the further hypotheses of `commute_succeeds_around_gap`: closed slice (`hcl`), aligned ends (`hdbal`)
                    ctx.count("gapGuard-true:slice-closed=%s,ends-aligned=%s" % (mo[1], mo[2]))
                if impl_guard and not converged:
                    # the conclusion of `commute_succeeds_around_gap` fails on the real code although its guard holds
                    ctx.mismatch("gapGuard=>converge", replay, "a rebased step fails or the orders differ", out)
                continue
            replay, info, impl_sq, kind = meta
            ctx.count("square:model_requests")
            mo = out.get("ok")
            if not isinstance(mo, list) or len(mo) != 4 or mo != impl_sq:
                ctx.mismatch("commuteSquare", replay, impl_sq, out)
                continue
            ctx.count("square:%s:%s" % (kind, "all-four-apply" if mo[2] is not None and mo[3] is not None else "an-order-fails"))
        del sreqs[:], smetas[:]
        gouts = ctx.driver.run(greqs) if greqs else []
        for (replay, impl_guard, converged), out in zip(gmetas, gouts):
            ctx.count("guard:model_requests")
            mo = out.get("ok")
            if not isinstance(mo, list) or mo[:2] != list(impl_guard) or mo[2] is not (impl_guard[0] or impl_guard[1]):
                ctx.mismatch("commuteGuard", replay, impl_guard, out)
                continue
            ctx.count("guard:left=%s,right=%s" % (mo[0], mo[1]))
            if mo[2] and not converged:
                # the theorem's conclusion fails on the real code although its guard holds
                ctx.mismatch("commuteGuard=>converge", replay, "a rebased step fails or the orders differ", out)
        del greqs[:], gmetas[:]
        outs = ctx.driver.run(reqs) if reqs else []
        for req, (replay, info, impl_rebased, base), out in zip(reqs, metas, outs):
            ctx.count("model_requests")
            if base is EXACT:
                # any pair (overlapping ranges included): the model's Step.map and the real one must agree exactly —
                # both drop the step, or both return the same step
                mo = out.get("ok") if "ok" in out else "ERR"
                if impl_rebased is None or mo is None or mo == "ERR":
                    same = (impl_rebased is None) and (mo is None)
                else:
                    stm, ms = outcome(lambda: info.un_step(mo))
                    same = stm == "ok" and ms.to_json() == impl_rebased.to_json()
                ctx.count("exact-map:" + ("dropped" if impl_rebased is None else "kept"))
                if not same:
                    ctx.mismatch("stepMap-exact", replay, None if impl_rebased is None else impl_rebased.to_json(), mo)
                continue
            if "ok" not in out or out["ok"] is None:
                ctx.mismatch("stepMap", replay, "a rebased step", out)
                continue
            stm, ms = outcome(lambda: info.un_step(out["ok"]))
            d1 = apply_doc(ms, base) if stm == "ok" else None
            d2 = apply_doc(impl_rebased, base)
            if (d1 is None) != (d2 is None) or (d1 is not None and not d1.eq(d2)):
                ctx.mismatch("stepMap", replay, "same effect of the rebased step", {"model": out["ok"], "impl": impl_rebased.to_json()})
        del reqs[:], metas[:]

    fam = schemas.family()
    for si in range(ctx.budget(14, 60)):
        info = fam[si % len(fam)]
        schema = info.schema
        ctx.driver.add_schema(info)
        docs = [gen.gen_doc(rng, schema, budget=rng.choice([10, 20, 30])) for _ in range(ctx.budget(5, 10))]
        def check_doc(d, cands, generation=1):
            for (nm, st_) in cands:
                if isinstance(st_, ReplaceAroundStep):
                    key = (info.name, repr(st_.to_json()))
                    if key not in shapes_seen:
                        shapes_seen.add(key)
                        sreqs.append({"op": "aroundShape", "step": info.step(st_)})
                        smetas.append(({"schema": info.name, "doc": d.to_json(), "op": nm, "step": st_.to_json()}, around_shape(st_)))

            def square(a, b, kind, replay):
                """the real square of (a, b) on d, encoded like the model's answer to `commuteSquare`"""
                da, db = apply_doc(a, d), apply_doc(b, d)
                sta, a2 = outcome(lambda: a.map(b.get_map()))
                stb, b2 = outcome(lambda: b.map(a.get_map()))
                if sta != "ok" or stb != "ok":
                    return None
                dab = apply_doc(b2, da) if da is not None and b2 is not None else None
                dba = apply_doc(a2, db) if db is not None and a2 is not None else None
                enc = [None if a2 is None else info.step(a2), None if b2 is None else info.step(b2),
                       None if dab is None else info.node(dab), None if dba is None else info.node(dba)]
                sreqs.append({"op": "commuteSquare", "s": info.lean_id, "doc": info.node(d), "a": info.step(a), "b": info.step(b)})
                smetas.append((replay, info, enc, kind))
                return da, db, a2, b2, dab, dba

            for i in range(len(cands)):
                for j in range(i + 1, len(cands)):
                    (na, a), (nb, b) = cands[i], cands[j]
                    for (x, y, nx, ny) in ((a, b, na, nb), (b, a, nb, na)):
                        if in_gap(x, y):
                            # a step strictly inside the kept gap of a replace-around step: the theorems' conclusions
                            # on the real code, and the model's square against the real one
                            greplay = {"schema": info.name, "doc": d.to_json(), "a": x.to_json(), "b": y.to_json(), "ops": [nx, ny], "position": "gap"}
                            ctx.count("gap-pair:" + type(y).__name__)
                            sq = square(x, y, "gap", greplay)
                            if sq is None:
                                ctx.mismatch("around-gap:map-raises", greplay, "Step.map returns", "raised")
                                break
                            da_, db_, x2, y2, dxy, dyx = sq
                            if da_ is None or db_ is None:
                                break
                            if isinstance(y, (ReplaceStep, ReplaceAroundStep, AddMarkStep, RemoveMarkStep, AddNodeMarkStep, RemoveNodeMarkStep, AttrStep)):
                                # mark steps: `commute_succeeds_around_mark_gap_partial` (the guard on the slice they re-mark); node-mark / attr
                                # steps: `commute_succeeds_around_nodeStep_gap_partial` (one-token range, closed slice)
                                stg, g = outcome(lambda: (inside_gap(d, x, y if hasattr(y, "slice") else AsReplace(y, d)),
                                                          x.slice.open_start == 0 and x.slice.open_end == 0))
                                if stg == "ok":
                                    sreqs.append({"op": "gapGuard", "s": info.lean_id, "doc": info.node(d), "a": info.step(x), "b": info.step(y)})
                                    smetas.append((greplay, g, x2 is not None and y2 is not None and dxy is not None
                                                   and dyx is not None and dxy.eq(dyx)))
                            if x2 is None or y2 is None:
                                ctx.mismatch("around-gap=>kept", greplay, "both rebased steps kept", {"a_rebased": x2 and x2.to_json(), "b_rebased": y2 and y2.to_json()})
                            elif dxy is not None and dyx is not None and not dxy.eq(dyx):
                                ctx.mismatch("around-gap=>converge", greplay, "equal documents", {"ab": dxy.to_json(), "ba": dyx.to_json()})
                            else:
                                ctx.count("gap-pair:" + ("converged" if dxy is not None and dyx is not None else "an-order-fails"))
                                if dxy is None or dyx is None:
                                    # not promised by the proved theorems (they assume all four applications succeed): the
                                    # replace-around step re-wraps / re-types the node the other step works in
                                    ctx.count("gap-pair:an-order-fails:%s/%s" % (nx, ny))
                            break
                    if not separated(a, b):
                        # overlapping or touching ranges: the property promises nothing, but the model of Step.map is
                        # exact, so it is tied here too (this is where steps get dropped)
                        for (x, y) in ((a, b), (b, a)):
                            stx, x2 = outcome(lambda: x.map(y.get_map()))
                            if stx == "ok":
                                reqs.append({"op": "stepMap", "step": info.step(x), "m": step_map(y.get_map())})
                                metas.append(({"schema": info.name, "step": x.to_json(), "over": y.to_json()}, info, x2, EXACT))
                        continue
                    replay = {"schema": info.name, "doc": d.to_json(), "a": a.to_json(), "b": b.to_json(), "ops": [na, nb]}
                    ctx.case(["pair", info.name, d.to_json(), a.to_json(), b.to_json()],
                             sample={"op": "rebase+commute", "schema": info.name, "ops": [na, nb], "a": a.to_json(), "b": b.to_json()})
                    ctx.count("pair:" + "/".join(sorted([type(a).__name__, type(b).__name__])))
                    da, db = apply_doc(a, d), apply_doc(b, d)
                    if da is None or db is None:
                        continue
                    sta, a2 = outcome(lambda: a.map(b.get_map()))
                    stb, b2 = outcome(lambda: b.map(a.get_map()))
                    if sta != "ok" or stb != "ok":
                        ctx.violation("map-raises", f"Step.map raised {a2 if sta != 'ok' else b2}", replay)
                        continue
                    if a2 is None or b2 is None:
                        ctx.violation("dropped", "a step touching a separate part was dropped by rebasing", replay)
                        continue
                    dab, dba = apply_doc(b2, da), apply_doc(a2, db)
                    replay["a_rebased"], replay["b_rebased"] = a2.to_json(), b2.to_json()
                    if isinstance(a, ReplaceAroundStep) or isinstance(b, ReplaceAroundStep):
                        square(a, b, "outside", replay)
                    n_around = isinstance(a, ReplaceAroundStep) + isinstance(b, ReplaceAroundStep)
                    if isinstance(a, (ReplaceStep, ReplaceAroundStep)) and isinstance(b, (ReplaceStep, ReplaceAroundStep)) and n_around >= 1:
                        # the guard with (from, to, slice) of the replace-around step(s) in place of a replace step
                        # (n_around == 2: `commute_succeeds_around_around`)
                        l, r = (a, b) if a.to < b.from_ else (b, a)
                        stg, g = outcome(lambda: (inside_left(d, l, r), inside_right(d, l, r)))
                        if stg == "ok":
                            ctx.count("guard-around%s:" % ("" if n_around == 1 else "-around") + ("holds" if (g[0] or g[1]) else "fails"))
                            greqs.append({"op": "commuteGuard", "doc": info.node(d), "a": info.step(l), "b": info.step(r)})
                            gmetas.append((replay, g, dab is not None and dba is not None and dab.eq(dba)))
                    MARKUP = (AddMarkStep, RemoveMarkStep, AddNodeMarkStep, RemoveNodeMarkStep, AttrStep)
                    if n_around == 1 and (isinstance(a, MARKUP) or isinstance(b, MARKUP)):
                        # `commute_succeeds_around_mark_partial` / `commute_succeeds_around_nodeStep_partial`: the guard with the
                        # mark step's range and the open depths of the slice it re-marks, resp. the one-token range of a
                        # node-mark / attr step with a closed slice
                        l, r = (a, b) if span(a)[1] <= span(b)[0] else (b, a)
                        stg, g = outcome(lambda: (lambda l2, r2: (inside_left(d, l2, r2), inside_right(d, l2, r2)))(
                            *(x if isinstance(x, ReplaceAroundStep) else AsReplace(x, d) for x in (l, r))))
                        if stg == "ok":
                            other = b if isinstance(a, ReplaceAroundStep) else a
                            ctx.count("guard-around-%s:" % ("mark" if isinstance(other, (AddMarkStep, RemoveMarkStep)) else "node")
                                      + ("holds" if (g[0] or g[1]) else "fails"))
                            greqs.append({"op": "commuteGuard", "doc": info.node(d), "a": info.step(l), "b": info.step(r)})
                            gmetas.append((replay, g, dab is not None and dba is not None and dab.eq(dba)))
                    if n_around == 1 and (isinstance(a, (AttrStep, RemoveNodeMarkStep)) or isinstance(b, (AttrStep, RemoveNodeMarkStep))):
                        # `commute_succeeds_around_nodeStep_closed_partial`: no guard when the replace-around step's slice is
                        # closed — the real code must apply both rebased steps and converge
                        ar = a if isinstance(a, ReplaceAroundStep) else b
                        closed = ar.slice.open_start == 0 and ar.slice.open_end == 0
                        ctx.count("nodeStep-outside:slice-closed=%s" % closed)
                        if closed and not (dab is not None and dba is not None and dab.eq(dba)):
                            ctx.mismatch("nodeStep-closed=>converge", replay, "both rebased steps apply, equal documents",
                                         {"ab_ok": dab is not None, "ba_ok": dba is not None})
                    if type(a) is ReplaceStep and type(b) is ReplaceStep:
                        l, r = (a, b) if a.to < b.from_ else (b, a)
                        stg, g = outcome(lambda: (inside_left(d, l, r), inside_right(d, l, r)))
                        if stg == "ok":
                            greqs.append({"op": "commuteGuard", "doc": info.node(d), "a": info.step(l), "b": info.step(r)})
                            gmetas.append((replay, g, dab is not None and dba is not None and dab.eq(dba)))
                    if dab is None or dba is None:
                        ctx.violation("order-fails", "one order of application fails after rebasing", dict(replay, ab_ok=dab is not None, ba_ok=dba is not None))
                    elif not dab.eq(dba):
                        ctx.violation("diverge", "the two orders of application give different documents", dict(replay, ab=dab.to_json(), ba=dba.to_json()))
                    for (x, y, x2, dy) in ((a, b, a2, db), (b, a, b2, da)):
                        reqs.append({"op": "stepMap", "step": info.step(x), "m": step_map(y.get_map())})
                        metas.append((replay, info, x2, dy))
                    if len(reqs) >= 20000:
                        flush()     # keep memory bounded in long (thorough) runs
            if generation == 1 and len(cands) >= 3 and rng.random() < 0.25:
                # second generation: the steps that were rebased over one of the candidates are again steps made against one
                # common document (the one that candidate produced).  A step that went through `Step.map` is a step like any
                # other — it is applied, asked for its map and rebased once more — and pairs of them whose ranges are still
                # separated have to commute like any pair
                na, a = rng.choice(cands)
                da = apply_doc(a, d)
                nxt = []
                if da is not None:
                    for (nx, x) in cands:
                        if x is a or not separated(a, x):
                            continue
                        stx, x2 = outcome(lambda: x.map(a.get_map()))
                        if stx == "ok" and x2 is not None and apply_doc(x2, da) is not None:
                            nxt.append((nx, x2))
                if len(nxt) >= 2:
                    rng.shuffle(nxt)
                    ctx.count("second_generation_documents")
                    ctx.count("second_generation_steps", len(nxt[:5]))
                    check_doc(da, nxt[:5], generation=2)

        for d in docs:
            if ctx.time_left() < 0:
                break
            cands = []
            for _ in range(ctx.budget(14, 30)):
                name, st = first_step(rng, info, d, docs)
                if st is not None and not isinstance(st, DocAttrStep):
                    cands.append((name, st))
            check_doc(d, cands)
    flush()
    return ctx.finish(
        rule="a case is (base document, step A, step B) where A and B are the first steps emitted by two random high-level "
             "operations on the same base document and their touched ranges are separated by at least one untouched token; "
             "bundled-family schemas; distinct by content")


if __name__ == "__main__":
    core.main("C17", run)
