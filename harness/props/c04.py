"""C04 — every recorded change can be undone exactly and replayed exactly.

Tie: exact correspondence of the *effect* of Step.invert (the inverse as computed by the model is
applied by the real code and must restore the document; the inverse's shape is not pinned), of
whole histories (docs / steps / maps alignment) and of inverted maps with lean/PM/Step.lean.
Search: replay of recorded steps from `before`; alignment after rejected operations; inverted steps
in reverse order restore `before`; exact undo of single replace / attr / doc-attr / node-mark steps.
"""
from prosemirror.model import Fragment, Slice
from prosemirror.transform import (
    AddNodeMarkStep,
    AttrStep,
    RemoveNodeMarkStep,
    ReplaceAroundStep,
    ReplaceStep,
    Step,
    Transform,
)
from prosemirror.transform.doc_attr_step import DocAttrStep

from .. import core, gen, ops, schemas
from ..core import outcome
from . import c04_guard, c04_marks, c04_ops

SINGLE_UNDO = (ReplaceStep, ReplaceAroundStep, AttrStep, DocAttrStep, AddNodeMarkStep, RemoveNodeMarkStep)


def declared(step, doc):
    if isinstance(step, AttrStep):
        n = gen.safe_node_at(doc, step.pos)
        return n is not None and step.attr in n.type.attrs
    if isinstance(step, DocAttrStep):
        return step.attr in doc.type.attrs
    return True


def undo_single(ctx, info, doc, step, res_doc, reqs, metas, origin, expect_known=False, oracle=True):
    """`oracle=False`: an attribute step naming an attribute the node does not declare — outside the property's
    quantifier, so no violation is raised, but the model's `invert` is tied to the real one all the same"""
    replay = {"schema": info.name, "doc": doc.to_json(), "step": step.to_json(), "origin": origin}
    ctx.case(["undo", info.name, doc.to_json(), step.to_json()],
             sample={"op": "invert+apply", "schema": info.name, "step": step.to_json(), "origin": origin})
    ctx.count("undo:" + type(step).__name__)
    sti, inv = outcome(lambda: step.invert(doc))
    if sti != "ok":
        if oracle:
            ctx.violation("invert-raises", f"Step.invert raised {inv} on a step that applied", replay)
        else:
            # the model must not build an inverse either
            ctx.count("undeclared-attr:invert-raises")
            reqs.append({"op": "invert", "s": info.lean_id, "doc": info.node(doc), "step": info.step(step)})
            metas.append(("invert-raises", replay, None))
        return
    stb, back = outcome(lambda: inv.apply(res_doc))
    ok = stb == "ok" and back.doc is not None and back.doc.eq(doc)
    detail = None
    if not oracle:
        ctx.count("undeclared-attr:" + ("restored" if ok else "not-restored"))
        reqs.append({"op": "invert", "s": info.lean_id, "doc": info.node(doc), "step": info.step(step)})
        metas.append(("invert", replay, (info, doc, res_doc, ok)))
        return
    if not ok:
        detail = back.failed if stb == "ok" else str(back)
        r = dict(replay, inverse=inv.to_json(), outcome=stb, detail=str(detail)[:200], after=res_doc.to_json(),
                 undone=back.doc.to_json() if stb == "ok" and back.doc is not None else None,
                 displaced_marks=displaced(step, doc), node_mark=node_mark_info(step, doc))
        # aimed cases of c04_guard (a private non-transitive schema): the failure is the subject of the guard tie there
        if not expect_known:
            ctx.violation("undo-" + type(step).__name__, "applying the inverted step does not restore the original document", r)
    if origin != "history" and isinstance(step, c04_ops.NODE_STEPS):
        # the executable guard of the node-level steps (nodeStepGuardB_family) against the real undo
        c04_ops.request_node_step(ctx, info, doc, step, ok, reqs, metas, replay)
    # inverse map
    m, mi = step.get_map(), inv.get_map()
    size_new = res_doc.content.size
    for p in range(size_new + 1):
        for a in (-1, 1):
            if m.invert().map(p, a) != mi.map(p, a):
                ctx.violation("invert-map", "the inverted step's map is not the inverse of the step's map",
                              dict(replay, pos=p, assoc=a, got=mi.map(p, a), expected=m.invert().map(p, a)))
                return
    # model: its inverse, applied by the real code, must restore the document as well
    reqs.append({"op": "invert", "s": info.lean_id, "doc": info.node(doc), "step": info.step(step)})
    metas.append(("invert", replay, (info, doc, res_doc, ok)))
    # the guard of theorem replace_undo (model predicate tied to the real code's notions; see c04_guard.py)
    c04_guard.request(ctx, info, doc, step, res_doc, ok, detail, reqs, metas, replay)


def node_mark_info(step, doc):
    """data for classifying node-mark undo failures (pure function of the replay)"""
    if not isinstance(step, (AddNodeMarkStep, RemoveNodeMarkStep)):
        return None
    n = gen.safe_node_at(doc, step.pos)
    if n is None:
        return None
    schema = doc.type.schema
    return {"present": [[m.type.name, dict(m.attrs)] for m in n.marks], "mark": [step.mark.type.name, dict(step.mark.attrs)],
            "add": isinstance(step, AddNodeMarkStep),
            "excludes": {k: [e.name for e in t.excluded] for k, t in schema.marks.items()}}


def displaced(step, doc):
    """for AddNodeMarkStep: how many marks of the node the new mark displaces"""
    if not isinstance(step, AddNodeMarkStep):
        return None
    n = gen.safe_node_at(doc, step.pos)
    if n is None:
        return None
    new = step.mark.add_to_set(n.marks)
    return len([m for m in n.marks if not m.is_in_set(new)])


def run(ctx):
    core.lean_phase(ctx)
    rng = ctx.rng
    reqs, metas = [], []

    def flush():
        outs = ctx.driver.run(reqs) if reqs else []
        for req, (op, replay, payload), out in zip(reqs, metas, outs):
            ctx.count("model_requests")
            if op == "sidesCompatible":
                c04_guard.compare(ctx, replay, payload, out)
                continue
            if op == "aroundGuards":
                c04_guard.compare_around(ctx, replay, payload, out)
                continue
            if op == "markUndoGuards":
                c04_marks.compare(ctx, replay, payload, out)
                continue
            if op == "familyGuard":
                c04_ops.compare(ctx, replay, payload, out)
                continue
            if op == "nodeStepGuard":
                c04_ops.compare_node(ctx, replay, payload, out)
                continue
            if op == "plainType":
                c04_ops.compare_plain(ctx, replay, payload, out)
                continue
            if op == "invert-raises":
                if "ok" in out:
                    ctx.mismatch("invert", replay, "impl invert raises", out)
                continue
            info, doc, res_doc, impl_ok = payload
            if "ok" not in out:
                if impl_ok:
                    ctx.mismatch("invert", replay, "impl inverse restores", out)
                continue
            stm, inv = outcome(lambda: info.un_step(out["ok"]))
            if stm != "ok":
                ctx.mismatch("invert", replay, "decodable inverse", str(inv))
                continue
            stb, back = outcome(lambda: inv.apply(res_doc))
            model_ok = stb == "ok" and back.doc is not None and back.doc.eq(doc)
            if model_ok != impl_ok:
                ctx.mismatch("invert", replay, f"impl inverse restores={impl_ok}", f"model inverse restores={model_ok}")
        del reqs[:], metas[:]

    fam = schemas.family()
    n_s = ctx.budget(30, 80)

    def history(info, d, docs, kinds, nops, forced=None):
        tr = Transform(d)
        log = []
        raw = []
        for i in range(len(forced) if forced is not None else nops):
            again = rng.choice(tr.steps) if forced is None and tr.steps and rng.random() < 0.08 else None
            if again is not None and gen.step_aligned(tr.doc, again):
                # a step object that is already part of this history is recorded once more (steps are values: setting
                # something back to what an earlier step set it to, redoing an edit) — refused like any step if it
                # no longer applies
                name, args, thunk = "step_again", [again], (lambda s_: lambda tr_: tr_.step(s_))(again)
            else:
                name, args, thunk = forced[i] if forced is not None else ops.plan_op(rng, info, tr.doc, docs, kinds)
            snap = (len(tr.steps), len(tr.docs), len(tr.mapping.maps), tr.doc)
            st, val, added = ops.run_op(tr, thunk)
            log.append(ops.describe(name, args) | {"outcome": st, "steps_added": added})
            raw.extend([(name, args, st)] * added)
            if name == "set_block_type" and added:
                c04_ops.request_plain(ctx, info, args[2], reqs, metas, {"schema": info.name})
            ctx.count("op:" + name + ":" + ("ok" if st == "ok" else "rejected"))
            if not (len(tr.steps) == len(tr.docs) == len(tr.mapping.maps)):
                ctx.violation("alignment", "steps/docs/maps are not aligned one-to-one",
                              {"schema": info.name, "doc": d.to_json(), "ops": log})
                break
            if st != "ok" and added == 0 and (len(tr.steps), len(tr.docs), len(tr.mapping.maps)) != snap[:3]:
                ctx.violation("rejected-op-changed-history", "a rejected operation changed the recorded history",
                              {"schema": info.name, "doc": d.to_json(), "ops": log})
        ctx.case(["history", info.name, d.to_json(), log], nontrivial=len(tr.steps) > 0,
                 sample={"op": "history", "schema": info.name, "doc": str(d)[:120], "ops": [l["op"] for l in log], "steps": len(tr.steps)})
        ctx.count("history_len_%d" % min(len(tr.steps), 8))
        replay = {"schema": info.name, "doc": d.to_json(), "ops": log, "steps": [s.to_json() for s in tr.steps]}
        if len({id(s) for s in tr.steps}) < len(tr.steps):
            ctx.count("history_with_a_step_object_recorded_twice")
        used_elsewhere(tr, docs, replay)
        # replay
        cur = tr.before
        good = tr.before.eq(d)
        for k, s in enumerate(tr.steps):
            if not cur.eq(tr.docs[k]):
                good = False
                break
            st, res = outcome(lambda: s.apply(cur))
            if st != "ok" or res.doc is None:
                good = False
                break
            if list(s.get_map().ranges) != list(tr.mapping.maps[k].ranges):
                good = False
                break
            cur = res.doc
        if not good or not cur.eq(tr.doc):
            ctx.violation("replay", "re-applying the recorded steps to the starting document does not reproduce the recorded documents", replay)
            return
        # undo in reverse
        used_elsewhere(tr, docs, replay)
        cur = tr.doc
        okundo = True
        failed_at = None
        for k in range(len(tr.steps) - 1, -1, -1):
            sti, inv = outcome(lambda: tr.steps[k].invert(tr.docs[k]))
            if sti != "ok":
                okundo, failed_at = False, k
                break
            stb, back = outcome(lambda: inv.apply(cur))
            if stb != "ok" or back.doc is None:
                okundo, failed_at = False, k
                break
            cur = back.doc
        if not okundo or not cur.eq(d):
            # the culprit: the last recorded step whose own inverse does not take its output document back to its input
            # document (the chain of inverses is the composition of these single undos)
            k = failed_at
            if k is None:
                for i in range(len(tr.steps) - 1, -1, -1):
                    nxt = tr.docs[i + 1] if i + 1 < len(tr.docs) else tr.doc
                    sti, inv = outcome(lambda: tr.steps[i].invert(tr.docs[i]))
                    stb, back = outcome(lambda: inv.apply(nxt)) if sti == "ok" else ("internal", None)
                    if stb != "ok" or back.doc is None or not back.doc.eq(tr.docs[i]):
                        k = i
                        break
            k = k if k is not None else 0
            detail = None
            if tr.steps:
                nxt = tr.docs[k + 1] if k + 1 < len(tr.docs) else tr.doc
                sti, inv = outcome(lambda: tr.steps[k].invert(tr.docs[k]))
                stb, back = outcome(lambda: inv.apply(nxt)) if sti == "ok" else ("internal", None)
                detail = str(back.failed)[:200] if stb == "ok" and back is not None else str(back)[:200]
            ctx.violation("history-undo", "applying the inverted steps in reverse order does not restore the starting document",
                          dict(replay, failed_at=failed_at, culprit=k, detail=detail,
                               step=tr.steps[k].to_json() if tr.steps else None,
                               culprit_doc=tr.docs[k].to_json() if tr.steps else None,
                               displaced_marks=displaced(tr.steps[k], tr.docs[k]) if tr.steps else None,
                               node_mark=node_mark_info(tr.steps[k], tr.docs[k]) if tr.steps else None))
        # every single recorded step also undoes exactly (it is a step emitted by a high-level operation)
        owner = [l["op"] for l in log for _ in range(l["steps_added"])]
        # set_block_type to a plain target type that went through (setBlockType_residual is about completed operations)
        plain = [nm == "set_block_type" and st_ == "ok" and c04_ops.py_plain(a[2]) for nm, a, st_ in raw]
        for k, s in enumerate(tr.steps):
            nxt = tr.docs[k + 1] if k + 1 < len(tr.docs) else tr.doc
            if k < len(owner) and owner[k] in c04_ops.NODE_OPS and isinstance(s, c04_ops.NODE_STEPS):
                # node-level operations: the guard of nodeOps_residual on the operation's recorded step (c04_ops.py)
                sti, inv = outcome(lambda: s.invert(tr.docs[k]))
                stb, back = outcome(lambda: inv.apply(nxt)) if sti == "ok" else ("internal", None)
                c04_ops.request_node(ctx, info, tr.docs[k], s, nxt, owner[k], raw[k][1],
                                     stb == "ok" and back.doc is not None and back.doc.eq(tr.docs[k]),
                                     declared(s, tr.docs[k]), reqs, metas, {"schema": info.name})
            if k < len(owner) and owner[k] in c04_ops.STRUCT and isinstance(s, (ReplaceStep, ReplaceAroundStep)):
                # the guard of the undo theorem on the steps the structural operations record (c04_ops.py)
                sti, inv = outcome(lambda: s.invert(tr.docs[k]))
                stb, back = outcome(lambda: inv.apply(nxt)) if sti == "ok" else ("internal", None)
                c04_ops.request(ctx, info, tr.docs[k], s, nxt, owner[k],
                                stb == "ok" and back.doc is not None and back.doc.eq(tr.docs[k]), reqs, metas,
                                {"schema": info.name}, plain=k < len(plain) and plain[k])
            if isinstance(s, SINGLE_UNDO):
                undo_single(ctx, info, tr.docs[k], s, nxt, reqs, metas, "history", oracle=declared(s, tr.docs[k]))
            elif isinstance(s, c04_marks.MARK_STEPS):
                # range mark steps: the guard of their naive inverse (exact tie) and the planner theorems
                c04_marks.single(ctx, info, tr.docs[k], s, nxt, reqs, metas, "history",
                                 planned=k < len(owner) and (owner[k] in ("add_mark", "remove_mark") or
                                                             (k < len(plain) and plain[k])))
                if k < len(plain) and plain[k]:
                    ctx.count("sbt-plain:remove-mark-step")

    def used_elsewhere(tr, docs, replay):
        """the recorded step objects are used somewhere else before the history is looked at again: applied to their own
        output, to another document of the history, to an unrelated document (a second replica; a probe whether the step
        still applies) — outcomes ignored.  `steps[i].invert(docs[i])` has to describe the undo of steps[i] on docs[i]
        whatever happened to the step object in between."""
        if not tr.steps or rng.random() < 0.5:
            return
        for s in rng.sample(tr.steps, min(len(tr.steps), 3)):
            k = tr.steps.index(s)
            target = rng.choice([tr.docs[k + 1] if k + 1 < len(tr.docs) else tr.doc, tr.doc, rng.choice(tr.docs), rng.choice(docs)])
            st, res = outcome(lambda: s.apply(target))
            ctx.count("history_step_applied_elsewhere:" + ("applies" if st == "ok" and res.doc is not None else "refused"))
            replay.setdefault("steps_applied_elsewhere", []).append({"step": k, "to": target})    # (written out as text if it comes to a replay)

    def reuse_single(info, d, docs, step, res_doc):
        """before the undo of a single applied step is checked, the same step object is applied again: to its own result, to
        other documents — and where it applies there its undo is checked too, after the object has moved on"""
        if rng.random() >= 0.12:
            return
        others = []
        for target in rng.sample([res_doc, rng.choice(docs), rng.choice(docs)], rng.randint(1, 2)):
            if not gen.step_aligned(target, step):
                continue
            st, res = outcome(lambda: step.apply(target))
            ok = st == "ok" and res.doc is not None
            ctx.count("single_step_applied_again:" + ("applies" if ok else "refused"))
            if ok and target is not res_doc and not target.eq(d):
                others.append((target, res.doc))
        for target, rd in others[:1]:
            if isinstance(step, SINGLE_UNDO):
                undo_single(ctx, info, target, step, rd, reqs, metas, "reused", oracle=declared(step, target))
            elif isinstance(step, c04_marks.MARK_STEPS):
                c04_marks.single(ctx, info, target, step, rd, reqs, metas, "reused")

    def derived_single(info, d, step, res_doc):
        """a step that came out of another step is a step like any other: the inverse of an applied step (its undo is the
        redo), a step decoded from its own JSON"""
        r = rng.random()
        if r < 0.03:
            sti, inv = outcome(lambda: step.invert(d))
            if sti == "ok" and isinstance(inv, SINGLE_UNDO):
                stb, back = outcome(lambda: inv.apply(res_doc))
                if stb == "ok" and back.doc is not None:
                    ctx.count("derived:invert")
                    undo_single(ctx, info, res_doc, inv, back.doc, reqs, metas, "derived:invert", oracle=declared(inv, res_doc))
        elif r < 0.06:
            stj, s2 = outcome(lambda: Step.from_json(info.schema, step.to_json()))
            if stj == "ok":
                st2, res2 = outcome(lambda: s2.apply(d))
                if st2 == "ok" and res2.doc is not None:
                    ctx.count("derived:from_json")
                    undo_single(ctx, info, d, s2, res2.doc, reqs, metas, "derived:from_json", oracle=declared(s2, d))

    def bridge_steps(d):
        """aimed: merge two differently typed siblings through an open node of a third type that joins onto both"""
        out = []
        kids = [(d.child(i), i) for i in range(d.child_count)]
        pos = 0
        starts = []
        for n, i in kids:
            starts.append(pos)
            pos += n.node_size
        for (x, i), (y, j) in zip(kids, kids[1:]):
            for ty in d.type.schema.nodes.values():
                if ty.is_leaf or ty.is_text or ty.inline_content:
                    continue
                if not (ty.compatible_content(x.type) and ty.compatible_content(y.type)):
                    continue
                f = starts[i] + x.node_size - 1                         # end of x's content
                inner = [0]
                for k in range(y.child_count):
                    inner.append(inner[-1] + y.child(k).node_size)
                t = starts[j] + 1 + rng.choice(inner)                    # a child boundary inside y
                out.append(ReplaceStep(f, t, Slice(Fragment.from_(ty.create()), 1, 1)))
        return out

    all_s = fam + schemas.extra()
    for si in range(n_s):
        if len(reqs) >= 15000:
            flush()     # keep memory bounded in long runs
        bundled = si < len(all_s) or rng.random() < 0.6
        info = all_s[si % len(all_s)] if bundled else schemas.random_schema(rng)
        schema = info.schema
        ctx.driver.add_schema(info)
        docs = [gen.gen_doc(rng, schema, budget=rng.choice([6, 12, 25])) for _ in range(ctx.budget(5, 10))]
        for d in docs:
            if ctx.time_left() < 0:
                break
            # ---- single steps under every schema
            for _ in range(ctx.budget(20, 40)):
                step = gen.gen_step(rng, info, d, docs)
                if isinstance(step, c04_marks.MARK_STEPS):
                    st, res = outcome(lambda: step.apply(d))
                    if st == "ok" and res.doc is not None:
                        reuse_single(info, d, docs, step, res.doc)
                        c04_marks.single(ctx, info, d, step, res.doc, reqs, metas, "primitive")
                    continue
                if not isinstance(step, SINGLE_UNDO):
                    continue
                st, res = outcome(lambda: step.apply(d))
                if st == "ok" and res.doc is not None:
                    reuse_single(info, d, docs, step, res.doc)
                    undo_single(ctx, info, d, step, res.doc, reqs, metas, "primitive", oracle=declared(step, d))
                    derived_single(info, d, step, res.doc)
            if info.name == "bridge":
                for step in bridge_steps(d):
                    st, res = outcome(lambda: step.apply(d))
                    ctx.count("bridge-step:" + ("applies" if st == "ok" and res.doc is not None else "refused"))
                    if st == "ok" and res.doc is not None:
                        undo_single(ctx, info, d, step, res.doc, reqs, metas, "bridge")
            if not bundled or info.name == "bridge":
                continue
            # ---- histories over the bundled-family schemas
            history(info, d, docs, None, rng.randint(1, 12))
            # aimed: two marks of one non-self-excluding type on one text, one of them removed / re-added
            multi = [t for t in schema.marks.values() if t.spec.get("excludes") == "" and t.attrs]
            if multi and rng.random() < 0.5:
                mt = rng.choice(multi)
                tbs = [t for t in schema.nodes.values() if t.is_textblock and t.allows_mark_type(mt)
                       and schema.top_node_type.content_match.match_type(t) is not None]
                if tbs:
                    an = list(mt.attrs)[0]
                    m1, m2 = mt.create({an: 1}), mt.create({an: 2})
                    tb = rng.choice(tbs)
                    dd = outcome(lambda: schema.top_node_type.create_and_fill(None, [tb.create(None, [schema.text("ab", [m1, m2]), schema.text("c")])]))
                    if dd[0] == "ok" and dd[1] is not None and outcome(dd[1].check)[0] == "ok":
                        trm = Transform(dd[1])
                        r0 = dd[1].resolve(1)
                        s0 = r0.start(r0.depth) if r0.depth else 1
                        outcome(lambda: trm.remove_mark(s0, s0 + 2, rng.choice([m1, m2])) if rng.random() < 0.5 else trm.add_mark(s0, s0 + 3, m1))
                        ctx.count("aimed-same-type-marks")
                        for k, s_ in enumerate(trm.steps):
                            nxt = trm.docs[k + 1] if k + 1 < len(trm.docs) else trm.doc
                            if isinstance(s_, c04_marks.MARK_STEPS):
                                c04_marks.single(ctx, info, trm.docs[k], s_, nxt, reqs, metas, "aimed-same-type", planned=True)
                            sti, inv_ = outcome(lambda: s_.invert(trm.docs[k]))
                            stb, back = outcome(lambda: inv_.apply(nxt)) if sti == "ok" else ("internal", None)
                            if stb != "ok" or back.doc is None or not back.doc.eq(trm.docs[k]):
                                ctx.violation("history-undo", "applying the inverted steps in reverse order does not restore the starting document",
                                              {"schema": info.name, "doc": dd[1].to_json(), "ops": ["aimed same-type marks"], "steps": [x.to_json() for x in trm.steps],
                                               "culprit": k, "step": s_.to_json(), "culprit_doc": trm.docs[k].to_json(), "detail": "order of same-type marks"})
            # aimed: adjacent text nodes carrying marks of one type with different attributes (link a next to link b); one more
            # mark of that type added over the run, or the type / one of the marks / every mark removed from it
            if rng.random() < 0.5:
                case = gen.gen_same_type_run_case(rng, schema)
                if case is not None:
                    d0, f0, t0, m0, present0 = case
                    forced = []
                    if rng.random() < 0.25:
                        # something typed in front first: the mark operation then works on shifted positions
                        forced.append(("insert", [1, "x"], lambda tr: tr.insert(1, schema.text("x"))))
                        f0, t0 = f0 + 1, t0 + 1
                    if rng.random() < 0.6:
                        forced.append(("add_mark", [f0, t0, m0], (lambda f0, t0, m0: lambda tr: tr.add_mark(f0, t0, m0))(f0, t0, m0)))
                    else:
                        w0 = rng.choice([m0.type, None, rng.choice(present0)])
                        forced.append(("remove_mark", [f0, t0, w0], (lambda f0, t0, w0: lambda tr: tr.remove_mark(f0, t0, w0))(f0, t0, w0)))
                    ctx.count("aimed-same-type-run-histories")
                    history(info, d0, docs, None, len(forced), forced=forced)
            # aimed: `wrap` called directly with a *leaf* wrapper type (find_wrapping never proposes one).  Where the parent
            # takes the leaf before the range the operation goes through — it inserts the leaf, structure flag set — and
            # its inverse refuses to delete the leaf again: an instance of finding C04-structure-inverse emitted by a
            # library operation (theorem `wrapGuard_family` carries the hypothesis "no wrapper of a leaf type")
            leafs = [t for t in schema.nodes.values() if t.is_leaf and not t.is_text and not t.is_inline]
            if leafs and rng.random() < 0.5:
                brs = ops.block_ranges(d)
                if brs:
                    br, lt = rng.choice(brs), rng.choice(leafs)
                    wr = [ops.NodeTypeWithAttrs(lt, gen.gen_attrs(rng, lt))]
                    ctx.count("aimed-leaf-wrap")
                    history(info, d, docs, None, 1, forced=[("wrap", [br.start, br.end, br.depth, wr], lambda tr: tr.wrap(br, wr))])
            # structural-only histories (split / join / lift / wrap / retyping): the steps `opHistory_undo` discharges
            history(info, d, docs, ops.STRUCT_OPS + ["set_node_markup", "set_block_type"], rng.randint(1, 4))
            # mark-only histories (wide ranges over mixed marked / unmarked inline content)
            if schema.marks:
                history(info, d, docs, ops.MARK_OPS, rng.randint(1, 3))
                # ... and over a document made of short runs with varied mark sets (neighbouring runs that differ in one mark,
                # in the attributes of a mark of one type): where the planners have to start a new step and where not
                md = ctx.guard(lambda: gen.gen_marky_doc(rng, schema), "gen_marky_doc") if rng.random() < 0.6 else None
                if md is not None:
                    ctx.count("mark_histories_over_short_marked_runs")
                history(info, md if md is not None else d, docs, ops.MARK_OPS, rng.randint(1, 3))
    c04_guard.aimed(ctx, rng, gen, undo_single, reqs, metas)
    c04_marks.aimed(ctx, rng, gen, reqs, metas)
    flush()
    return ctx.finish(
        rule="a case is a single applied replace/replace-around/attr/doc-attr/node-mark step (every schema) or a history of "
             "1..12 random Transform operations (bundled-family schemas); distinct by content; non-trivial = at least one step")


if __name__ == "__main__":
    core.main("C04", run)
