"""C12 — structure helpers approve only edits that then succeed and keep content intact.

Tie (relational — a helper that soundly approves *less* is not a violation, so helper answers are not
compared for equality): approval by the real helper ⇒ the real edit succeeds; every step split / join /
lift / wrap emit satisfies the Lean monitor `isStructuralAt` (lean/PM/Monitor.lean; Props/C12.lean proves
such a step keeps the text and leaf nodes exactly) and is applied by the model too (same document).
Exact ties: the step each of split / join / lift / wrap records equals the step the builder model constructs
(lean/PM/StructEdit.lean; failure class of build+apply when the real edit raises); every helper answer (can_split,
can_join, join_point, lift_target, find_wrapping, insert_point, drop_point, can_change_type) equals the model's
(lean/PM/Structure.lean, Structure2.lean), `None` and "raises" included, also at off-guard positions.
Guard ties (relational, all schemas incl. random and aimed ones): the guards of the theorems "an approved edit applies"
(Props/C12.lean `canSplit_split_applies`, `canJoin_join_applies`, `findWrapping_wrap_succeeds`, `liftTarget_lift_applies`;
model functions `splitGuard`, `joinGuard`, `wrapGuard` ∧ `wrapBuilds`, `liftGuard` / `liftFlatGuard` of lean/PM/Structure.lean,
Structure2.lean, StructEdit.lean) are evaluated by the
driver at every approved edit: approved ∧ guard ⇒ the real edit succeeded (a mismatch otherwise).  Aimed schemas
(`AIMED`, outside the family: approval without the guard is known not to be enough there) make the guards bite.
Insertion ties (lean/Driver/ExtIns.lean, op `insGuard`; Props/C12.lean `insertPoint_insert_applies`,
`dropPoint_drop_applies_closed`, `joinPoint_canJoin`): at every answer of the real `insert_point` / `drop_point` /
`join_point` the real edit is performed (`tr.insert(p, node)`, `tr.replace(p, p, slice)`, `tr.join(p)`) and the theorem's
guards are evaluated by the model: guards true ⇒ the real edit succeeded, `check()` passed and (insert, drop) the one
recorded step is `ReplaceStep(p, p, slice)` (relational); the guard parts with a Python counterpart are compared exactly
(`boundary` = `resolve(p).text_offset == 0`, `inside` = `insideTextGuard` re-run on the real `can_replace`, `marks` = the parent of `p` allows the node's marks, `trivial` = the real
`fits_trivially`, `pass1` = the first pass of `drop_point` re-run on the real `can_replace`, `canJoin` = the real
`can_join` at the join point, which must be `True`; `valid` = `type.valid_content(node.content)` of `changeTypeGuard`,
evaluated wherever the real `can_change_type` approves a non-leaf node: guard ⇒ `set_node_markup` succeeds with the
expected `ReplaceAroundStep`).  At a top-level insert point whose parent does not allow the node's marks
(`insertPoint_insert_marked_top`, `top` = `topBoundary` compared exactly) the real plan must be the insertion of the node
with those marks dropped, and it must succeed.  A marked copy of the inserted node and an aimed schema
(`insert-inside-text`, content `image? text* image`) make the guards bite.
Search: approve ⇒ perform ⇒ `check()` ∧ leaf/text sequence equal; helpers never die with an internal
error and return in-range results; for random schemas only "a performed edit that returns is valid
and keeps the leaf sequence".
"""
from prosemirror.model import Fragment, Slice
from prosemirror.transform import ReplaceAroundStep, ReplaceStep, Transform
from prosemirror.transform.replace import fits_trivially
from prosemirror.transform.structure import (
    can_change_type,
    can_join,
    can_split,
    drop_point,
    find_wrapping,
    insert_point,
    join_point,
    lift_target,
)

from .. import core, gen, ops, schemas
from ..codec import doc_tokens
from ..core import outcome


_AIMED = None


def aimed():
    """schemas outside the family in which a helper approves an edit that then fails unless the theorem's guard holds"""
    global _AIMED
    if _AIMED is None:
        from prosemirror.model import Schema
        _AIMED = [
            # a cut inside the text of `p("ab", image)` leaves `p("a")`: `can_split` does not look at the text's first part
            schemas.SchemaInfo(Schema({"nodes": {
                "doc": {"content": "block+"}, "p": {"content": "(text image)*", "group": "block"},
                "quote": {"content": "block+", "group": "block"},
                "image": {"inline": True}, "text": {"inline": True}}, "marks": {"em": {}}}), "alternating-inline"),
            # `joinable` asks can_append (B's content continues A's), the join asks compatible_content (the start states share an edge)
            schemas.SchemaInfo(Schema({"nodes": {
                "doc": {"content": "A (A | B)*"}, "A": {"content": "x y*"}, "B": {"content": "y+"},
                "x": {}, "y": {}, "text": {}}}), "join-incompatible"),
            # not TextStable: can_append accepts `text text text image`, the join merges two of the texts
            schemas.SchemaInfo(Schema({"nodes": {
                "doc": {"content": "(A | B)+"}, "A": {"content": "(text|image) (text|image) (text image)?"},
                "B": {"content": "(text|image) image"},
                "image": {"inline": True}, "text": {"inline": True}}, "marks": {"em": {}}}), "join-unstable"),
            # block nodes may carry marks (`doc` allows all, `section` only `em`, `quote` none): `find_wrapping` compares types only,
            # the wrap asks the innermost wrapper `can_replace`, marks included
            schemas.SchemaInfo(Schema({"nodes": {
                "doc": {"content": "block+", "marks": "_"}, "p": {"content": "text*", "group": "block"},
                "quote": {"content": "block+", "group": "block"},
                "section": {"content": "block+", "group": "block", "marks": "em"},
                "text": {"inline": True}}, "marks": {"em": {}, "strong": {}}}), "marked-blocks"),
            # `compute_wrapping` stops when the last wrapper found accepts the target as *first* child (`pair` for `cell`),
            # `Transform.wrap` wants every wrapper to accept the next one as its only child (`box` for `item` does)
            schemas.SchemaInfo(Schema({"nodes": {
                "doc": {"content": "block+"}, "p": {"content": "text*", "group": "block"},
                "box": {"content": "item+", "group": "block"}, "item": {"content": "(p | sec)+"}, "sec": {"content": "p p+"},
                "pair": {"content": "cell cell", "group": "block"}, "cell": {"content": "p+"},
                "text": {"inline": True}}, "marks": {"em": {}}}), "wrap-first-child"),
            # `lift_target` asks whether the target accepts the content *instead of* the range's ancestor; when the lift splits,
            # the copies left behind stay: doc(blockquote(p, p)) lifting one paragraph is approved and would give doc(blockquote(p), p)
            schemas.SchemaInfo(Schema({"nodes": {
                "doc": {"content": "blockquote | paragraph+"}, "blockquote": {"content": "paragraph+"},
                "paragraph": {"content": "text*"}, "text": {}}, "marks": {"em": {}}}), "lift-copy"),
            # not TextStable, nested inline nodes: lifting `span2("b"), "c"` out of p("x", span1(span2("b"), "c"), "y") splits nothing,
            # `can_replace` accepts `text span2 text text`, the replace merges "c" and "y"
            schemas.SchemaInfo(Schema({"nodes": {
                "doc": {"content": "p+"},
                "p": {"content": "(text|image) span1 (text|image) | (text|image) span2 (text|image) (text|image)"},
                "span1": {"inline": True, "content": "(span2|image) text*"}, "span2": {"inline": True, "content": "text*"},
                "image": {"inline": True}, "text": {"inline": True}}}), "lift-unstable"),
            # `insert_point` / `drop_point` inside a text child test "in front of the text", the insertion goes between its halves
            schemas.SchemaInfo(Schema({"nodes": {
                "doc": {"content": "p+"}, "p": {"content": "image? text* image"},
                "image": {"inline": True}, "text": {"inline": True}}, "marks": {"em": {}}}), "insert-inside-text"),
        ]
    return _AIMED


def content(toks):
    return [t for t in toks if t[0] in ("leaf", "u")]


def perform(ctx, info, d, name, thunk, replay, reqs, metas, approved, keep_content=True, build=None):
    tr = Transform(d)
    st, val, added = ops.run_op(tr, thunk)
    ctx.count(f"{name}:{'approved' if approved else 'unapproved'}:{st}")
    if build is not None and st not in ("hang",):
        # exact tie of the builder models (lean/PM/StructEdit.lean): the step the real Transform recorded is the step the
        # model builds; when the real edit raises, building + applying the model's step fails with the same class
        breq = dict(build, op="structStep", s=info.lean_id, doc=info.node(d))
        if st == "ok" and len(tr.steps) == 1:
            reqs.append(breq)
            metas.append(("builder " + name, replay, info.step(tr.steps[0])))
            ctx.count(f"builder tie {name}: step compared")
        elif st != "ok":
            reqs.append(dict(breq, apply=True))
            metas.append(("builder-fails " + name, dict(replay, raised=val), {"err": st}))
            ctx.count(f"builder tie {name}: failure class compared")
    if st != "ok":
        if approved or st in ("internal", "hang"):
            ctx.violation(name + ("-approved-fails" if approved else "-internal"),
                          f"{name} {'was approved by its helper but ' if approved else ''}raised {val}", replay)
        return None
    stc, err = outcome(tr.doc.check)
    if stc != "ok":
        ctx.violation(name + "-invalid", f"{name} returned a schema-invalid document: {err}", dict(replay, result=tr.doc.to_json()))
    elif keep_content and content(doc_tokens(tr.doc)) != content(doc_tokens(d)):
        ctx.violation(name + "-content", f"{name} changed the sequence of text and leaf nodes", dict(replay, result=tr.doc.to_json()))
    for k, s in enumerate(tr.steps):
        nxt = tr.docs[k + 1] if k + 1 < len(tr.docs) else tr.doc
        reqs.append({"op": "apply", "s": info.lean_id, "doc": info.node(tr.docs[k]), "step": info.step(s)})
        metas.append(("apply", replay, info.node(nxt)))
        if keep_content:
            reqs.append({"op": "monitor", "k": "structural", "doc": info.node(tr.docs[k]), "steps": [info.step(s)]})
            metas.append(("isStructuralAt", dict(replay, step=s.to_json()), [True]))
    return tr


def run(ctx):
    core.lean_phase(ctx)
    rng = ctx.rng
    reqs, metas = [], []

    def flush():
        outs = ctx.driver.run(reqs) if reqs else []
        for req, (op, replay, exp), out in zip(reqs, metas, outs):
            ctx.count("model_requests")
            if op.startswith("helper "):
                if out != exp:
                    ctx.mismatch(op, replay, exp, out)
                continue
            if op.startswith("guard "):
                # relational: approved ∧ guard ⇒ the real edit succeeded
                g = out.get("ok")
                ctx.count(f"{op}: guard={g} edit {'succeeded' if exp else 'failed'}")
                if op == "guard lift" and g is True:
                    ctx.count("guard lift: holds, " + ("nothing is split" if out.get("flat") else "ancestors are split"))
                if g is True and not exp:
                    ctx.mismatch(op, replay, "the approved edit succeeds whenever the theorem's guard holds", "guard holds, the real edit failed")
                elif g not in (True, False):
                    ctx.mismatch(op, replay, "a boolean guard", out)
                continue
            if op.startswith("insguard "):
                g = out.get("ok")
                ctx.count(f"{op}: guards={g} edit {'succeeded' if exp['good'] else 'failed'}")
                if g not in (True, False):
                    ctx.mismatch(op, replay, "a boolean guard", out)
                elif g and not (exp["good"] and exp.get("exact", True)):
                    ctx.mismatch(op, replay, "guards hold ⇒ the real edit succeeds, check() passes, the step is ReplaceStep(p, p, slice)",
                                 f"guards hold; real edit: {exp}")
                if g is False and op in ("insguard insert", "insguard drop"):
                    why = ("not a TextStable schema" if out.get("ts") is False else
                           "the parent does not allow the node's marks" if out.get("marks") is False else
                           "an open slice" if out.get("closed") is False else
                           "answered by the second pass" if op == "insguard drop" and out.get("pass1") != {"ok": replay.get("point")} else
                           "insideTextGuard fails" if out.get("inside") is False else "other")
                    ctx.count(f"{op}: guards=False because {why}, edit {'succeeded' if exp['good'] else 'failed'}")
                if op == "insguard insert" and out.get("top") is True and out.get("marks") is False and out.get("ts") is True:
                    # `insertPoint_insert_marked_top`: the Fitter's plan is the insertion of the stripped node, and it succeeds
                    ctx.count(f"insguard insert: top-level point, marks not allowed: stripped insertion {'planned' if exp['fit'] else 'NOT planned'}")
                    if not (exp["good"] and exp["fit"]):
                        ctx.mismatch(op + " marked_top", replay, "the Fitter plans ReplaceStep(p, p, [stripped node]) and it succeeds", f"real edit: {exp}")
                if "boundary" in exp:
                    ctx.count(f"{op}: guards={g}, " + ("at a child boundary" if exp["boundary"] else "inside a text child")
                              + f", edit {'succeeded' if exp['good'] else 'failed'}")
                for key in ("boundary", "inside", "marks", "trivial", "pass1", "canJoin", "valid", "stripped", "fit", "top"):
                    if key in exp and exp[key] is not None and out.get(key) != exp[key]:
                        ctx.mismatch(op + " " + key, replay, exp[key], out.get(key))
                if op == "insguard join" and exp.get("canJoin") != {"ok": True}:
                    ctx.mismatch(op + " joinPoint_canJoin", replay, "can_join is True at a join point", exp.get("canJoin"))
                continue
            if op.startswith("builder-fails"):
                if out != exp:
                    ctx.mismatch(op, replay, exp, out if "err" in out else "model: the built step applies")
                continue
            if out.get("ok") != exp:
                ctx.mismatch(op, replay, exp if op != "apply" else "recorded document", out if ("err" in out or op != "apply") else "different document")
        del reqs[:], metas[:]

    def tie(info, d, name, fields, replay, st, val, enc=lambda v: v):
        """exact tie of a helper model (lean/PM/Structure.lean, Structure2.lean): same answer (incl. None), or both raise"""
        if st == "hang":
            return
        reqs.append(dict(fields, op=name, s=info.lean_id, doc=info.node(d)))
        metas.append(("helper " + name, replay, {"ok": enc(val)} if st == "ok" else {"err": "raises"}))
        ctx.count(f"helper tie {name}: " + ("raises" if st != "ok" else "None" if val is None else "answer"))

    def guard(info, d, kind, fields, replay, succeeded):
        """the guard of the "approved edit applies" theorem of this kind, evaluated by the model at an approved edit"""
        reqs.append(dict(fields, op="structGuard", k=kind, s=info.lean_id, doc=info.node(d)))
        metas.append(("guard " + kind, replay, bool(succeeded)))

    import random as _random
    rng2 = _random.Random(ctx.seed * 7919 + 12)     # own stream: the case stream of the older checks stays as it was

    _al = {}

    def inside_guard(d, p, nodes):
        """Python counterpart of `insideTextGuard` (lean/PM/InsertGuard.lean): a child boundary, or inside a text child
        (at a pair-aligned offset) whose parent accepts `text nodes text` there"""
        rp = d.resolve(p)
        if rp.text_offset == 0:
            return True
        child = rp.parent.child(rp.index())
        if not child.is_text:
            return False
        if id(d) not in _al:
            _al.clear()
            _al[id(d)] = (d, set(gen.aligned_positions(d)))
        if p not in _al[id(d)][1]:
            return False
        st_, v = outcome(lambda: rp.parent.can_replace(rp.index() + 1, rp.index() + 1, Fragment(list(nodes) + [child])))
        return st_ == "ok" and bool(v)

    def ins_tie(info, d, ip, node, replay):
        """`insertPoint_insert_applies` at an answer `ip` of the real insert_point: tr.insert(ip, node) vs the guards"""
        sl = Slice(Fragment.from_(node), 0, 0)
        tr = Transform(d)
        sta, val, added = ops.run_op(tr, lambda t: t.insert(ip, node))
        if sta == "hang":
            return
        good = sta == "ok" and outcome(tr.doc.check)[0] == "ok"
        exact = good and len(tr.steps) == 1 and tr.steps[0].to_json() == ReplaceStep(ip, ip, sl).to_json()
        rp = d.resolve(ip)
        stf, ft = outcome(lambda: fits_trivially(rp, rp, sl))
        stripped = node.mark(rp.parent.type.allowed_marks(node.marks))
        fit = None
        if sta == "ok":
            # the model's `replace_step` (Fitter included) plans the insertion of the stripped node iff the real one does
            fit = len(tr.steps) == 1 and tr.steps[0].to_json() == ReplaceStep(ip, ip, Slice(Fragment.from_(stripped), 0, 0)).to_json()
        if good and not rp.parent.type.allows_marks(node.marks):
            # `insertPoint_insert_succeeds_marked_partial`: how often the Fitter's answer is the insertion of the stripped node
            as_thm = len(tr.steps) == 1 and tr.steps[0].to_json() == ReplaceStep(ip, ip, Slice(Fragment.from_(stripped), 0, 0)).to_json()
            ctx.count("insert of a node with marks the parent does not allow succeeded: "
                      + ("the step is ReplaceStep(p, p, [stripped node])" if as_thm else "another plan"))
        reqs.append({"op": "insGuard", "k": "insert", "s": info.lean_id, "doc": info.node(d), "p": ip, "node": info.node(node)})
        metas.append(("insguard insert", dict(replay, point=ip, node=node.to_json(), real=str(val)[:120] if sta != "ok" else "ok"),
                      {"good": good, "exact": exact, "boundary": rp.text_offset == 0, "inside": inside_guard(d, ip, [node]),
                       "marks": bool(rp.parent.type.allows_marks(node.marks)), "trivial": bool(ft) if stf == "ok" else None,
                       "stripped": info.node(stripped), "fit": fit,
                       "top": rp.depth == 0 and rp.text_offset == 0 and not d.is_textblock}))

    def drop_pass1(d, pos, sl):
        """the first pass of drop_point, re-run on the real can_replace"""
        r = d.resolve(pos)
        content = sl.content
        for _ in range(sl.open_start):
            content = content.first_child.content
        for dd in range(r.depth, -1, -1):
            bias = 0 if dd == r.depth else (-1 if 2 * r.pos <= r.start(dd + 1) + r.end(dd + 1) else 1)
            ipos = r.index(dd) + (1 if bias > 0 else 0)
            if r.node(dd).can_replace(ipos, ipos, content):
                return r.pos if bias == 0 else r.before(dd + 1) if bias < 0 else r.after(dd + 1)
        return None

    def drop_tie(info, d, pos, dp, sl, replay, sta, tr):
        """`dropPoint_drop_applies_closed` at an answer `dp` of the real drop_point: tr.replace(dp, dp, sl) vs the guards"""
        if sta == "hang":
            return
        good = sta == "ok" and outcome(tr.doc.check)[0] == "ok"
        exact = good and len(tr.steps) == 1 and tr.steps[0].to_json() == ReplaceStep(dp, dp, sl).to_json()
        rp = d.resolve(dp)
        stf, ft = outcome(lambda: fits_trivially(rp, rp, sl))
        st1, p1 = outcome(lambda: drop_pass1(d, pos, sl))
        reqs.append({"op": "insGuard", "k": "drop", "s": info.lean_id, "doc": info.node(d), "p": dp, "pos": pos, "slice": info.slice(sl)})
        metas.append(("insguard drop", dict(replay, point=dp),
                      {"good": good, "exact": exact, "boundary": rp.text_offset == 0,
                       "inside": inside_guard(d, dp, [sl.content.child(i) for i in range(sl.content.child_count)]),
                       "trivial": bool(ft) if stf == "ok" else None, "pass1": {"ok": p1} if st1 == "ok" else {"err": "raises"}}))
        ctx.count("drop_point answers: " + ("closed slice" if not sl.open_start and not sl.open_end else "open slice")
                  + (", first pass" if st1 == "ok" and p1 == dp else ", second pass"))

    def retype_tie(info, d, pos, ct, replay):
        """`canChangeType_setNodeMarkup_applies` / `…_leaf_applies` where the real can_change_type approves:
        tr.set_node_markup(pos, type, attrs) vs `changeTypeGuard`"""
        stn, node = outcome(lambda: d.node_at(pos))
        if stn != "ok" or node is None:
            return
        attrs = gen.gen_attrs(rng2, ct)
        tr = Transform(d)
        sta, val, added = ops.run_op(tr, lambda t: t.set_node_markup(pos, ct, attrs))
        if sta == "hang":
            return
        good = sta == "ok" and outcome(tr.doc.check)[0] == "ok"
        exact = False
        if good and len(tr.steps) == 1:
            e = pos + node.node_size
            new = ct.create(attrs, None, node.marks)
            if node.is_leaf:
                want = ReplaceStep(pos, e, Slice(Fragment.from_(new), 0, 0))
            else:
                want = ReplaceAroundStep(pos, e, pos + 1, e - 1, Slice(Fragment.from_(new), 0, 0), 1, True)
            exact = tr.steps[0].to_json() == want.to_json()
        stv, valid = outcome(lambda: ct.valid_content(node.content))
        reqs.append({"op": "insGuard", "k": "retype", "s": info.lean_id, "doc": info.node(d), "p": pos, "ty": info.nid[ct.name]})
        metas.append(("insguard retype " + ("leaf" if node.is_leaf else "non-leaf"),
                      dict(replay, attrs=attrs, real=str(val)[:120] if sta != "ok" else "ok"),
                      {"good": good, "exact": exact, "valid": bool(valid) if stv == "ok" and d.resolve(pos).text_offset == 0 else None}))

    def marked(node, schema):
        """a copy of `node` carrying one mark (own random stream), or None"""
        if not schema.marks or rng2.random() > 0.3:
            return None
        mt = rng2.choice(list(schema.marks.values()))
        st_, mk = outcome(lambda: mt.create(gen.gen_attrs(rng2, mt)))
        if st_ != "ok":
            return None
        return node.mark(mk.add_to_set(node.marks))

    fam = schemas.family()
    aim = aimed()
    for si in range(ctx.budget(14, 60)):
        if len(reqs) >= 15000:
            flush()     # keep memory bounded in long runs
        bundled = si < len(fam) or rng.random() < 0.7
        info = fam[si % len(fam)] if bundled else schemas.random_schema(rng)
        if si >= len(fam) and (si - len(fam)) % 4 == 0:
            # an aimed schema: approvals are not claims here (`bundled = False`), the guard ties are
            bundled, info = False, aim[((si - len(fam)) // 4) % len(aim)]
        schema = info.schema
        ctx.driver.add_schema(info)
        docs = [gen.gen_doc(rng, schema, budget=rng.choice([8, 16, 30])) for _ in range(ctx.budget(4, 8))]
        # aimed: a mark-restricting textblock next to a textblock of compatible type whose text carries a mark the first one
        # forbids (every position of the small document is probed, the boundary between the two among them)
        mb = [x for x in (gen.gen_mark_boundary_doc(rng, schema) for _ in range(2)) if x is not None]
        ctx.count("aimed_mark_boundary_docs", len(mb))
        docs = docs + mb
        block_types = [t for t in schema.nodes.values() if not t.is_leaf and not t.is_text and not t.is_inline]
        for d in docs:
            size = d.content.size
            aligned = gen.aligned_positions(d)
            # ---- off-guard input (inside a surrogate pair, one past the end): tie only — the models say where the code raises
            for pos in sorted(set(range(size + 2)) - set(aligned)):
                base = {"schema": info.name, "doc": d.to_json(), "pos": pos, "off_guard": True}
                st, v = outcome(lambda: can_join(d, pos))
                tie(info, d, "canJoin", {"pos": pos}, dict(base, helper="can_join"), st, v)
                for direction in (-1, 1):
                    st, v = outcome(lambda: join_point(d, pos, direction))
                    tie(info, d, "joinPoint", {"pos": pos, "dir": direction}, dict(base, helper="join_point", dir=direction), st, v)
                st, v = outcome(lambda: can_split(d, pos, 1))
                tie(info, d, "canSplit", {"pos": pos, "depth": 1}, dict(base, helper="can_split", depth=1), st, v, bool)
                nt0 = list(schema.nodes.values())[(pos * 5 + size) % len(schema.nodes)]
                st, v = outcome(lambda: insert_point(d, pos, nt0))
                tie(info, d, "insertPoint", {"pos": pos, "ty": info.nid[nt0.name]}, dict(base, helper="insert_point", type=nt0.name), st, v)
                st, v = outcome(lambda: can_change_type(d, pos, nt0))
                tie(info, d, "canChangeType", {"pos": pos, "ty": info.nid[nt0.name]}, dict(base, helper="can_change_type", type=nt0.name), st, v, bool)
                ctx.count("off-guard positions probed")
            for pos in aligned:
                if ctx.time_left() < 0:
                    break
                base = {"schema": info.name, "doc": d.to_json(), "pos": pos}
                ctx.case(["helpers", info.name, d.to_json(), pos], sample={"op": "structure helpers at a position", "schema": info.name, "doc": str(d)[:120], "pos": pos})
                r = d.resolve(pos)
                # ---- can_split / split
                for depth in (1, 2):
                    st, ok = outcome(lambda: can_split(d, pos, depth))
                    replay = dict(base, helper="can_split", depth=depth)
                    tie(info, d, "canSplit", {"pos": pos, "depth": depth}, replay, st, ok, bool)
                    if st != "ok":
                        ctx.violation("can_split-raises", f"can_split raised {ok}", replay)
                        continue
                    if ok or (not bundled and rng.random() < 0.15) or rng.random() < 0.03:
                        if bundled or ok or True:
                            done = perform(ctx, info, d, "split", lambda tr: tr.split(pos, depth), replay, reqs, metas, bool(ok) and bundled,
                                           build={"k": "split", "pos": pos, "depth": depth})
                            if ok:
                                guard(info, d, "split", {"pos": pos}, replay, done is not None)
                # ---- can_join / join / join_point
                st, ok = outcome(lambda: can_join(d, pos))
                replay = dict(base, helper="can_join")
                tie(info, d, "canJoin", {"pos": pos}, replay, st, ok)
                if st != "ok":
                    ctx.violation("can_join-raises", f"can_join raised {ok}", replay)
                elif ok or rng.random() < 0.03:
                    done = perform(ctx, info, d, "join", lambda tr: tr.join(pos), replay, reqs, metas, bool(ok) and bundled,
                                   build={"k": "join", "pos": pos, "depth": 1})
                    if ok:
                        guard(info, d, "join", {"pos": pos}, replay, done is not None)
                for direction in (-1, 1):
                    st, jp = outcome(lambda: join_point(d, pos, direction))
                    replay = dict(base, helper="join_point", dir=direction)
                    tie(info, d, "joinPoint", {"pos": pos, "dir": direction}, replay, st, jp)
                    if st != "ok":
                        ctx.violation("join_point-raises", f"join_point raised {jp}", replay)
                    elif jp is not None:
                        if not (0 <= jp <= size):
                            ctx.violation("join_point-range", "join_point returned an out-of-range position", dict(replay, got=jp))
                        else:
                            done = perform(ctx, info, d, "join", lambda tr: tr.join(jp), dict(replay, join_at=jp), reqs, metas, bundled,
                                           build={"k": "join", "pos": jp, "depth": 1})
                            # `joinPoint_canJoin`: can_join is True at the join point; then `canJoin_join_applies`' guards
                            stj, cj = outcome(lambda: can_join(d, jp))
                            reqs.append({"op": "insGuard", "k": "join", "s": info.lean_id, "doc": info.node(d), "p": jp})
                            metas.append(("insguard join", dict(replay, join_at=jp),
                                          {"good": done is not None, "canJoin": {"ok": cj} if stj == "ok" else {"err": "raises"}}))
                # ---- lift_target / lift, find_wrapping / wrap
                for q in (pos, min(size, pos + rng.randint(1, 6))):
                    if q not in aligned and q != pos:
                        continue
                    br = r.block_range(d.resolve(q))
                    if br is None:
                        continue
                    st, tgt = outcome(lambda: lift_target(br))
                    replay = dict(base, helper="lift_target", to=q, range=[br.start, br.end, br.depth])
                    tie(info, d, "liftTarget", {"from": br.from_.pos, "to": br.to.pos, "depth": br.depth}, replay, st, tgt)
                    if st != "ok":
                        ctx.violation("lift_target-raises", f"lift_target raised {tgt}", replay)
                    elif tgt is not None:
                        if not (0 <= tgt < br.depth):
                            ctx.violation("lift_target-range", "lift_target returned a depth outside [0, range depth)", dict(replay, target=tgt))
                        else:
                            done = perform(ctx, info, d, "lift", lambda tr: tr.lift(br, tgt), dict(replay, target=tgt), reqs, metas, bundled,
                                           build={"k": "lift", "from": br.from_.pos, "to": br.to.pos, "depth": br.depth, "target": tgt})
                            # `liftTarget_lift_applies(_flat)`: approved ∧ (nothing is split ∨ the pieces the split leaves are valid)
                            # ∧ TextStable ⇒ the lift succeeded
                            guard(info, d, "lift", {"from": br.from_.pos, "to": br.to.pos, "depth": br.depth, "target": tgt},
                                  dict(replay, target=tgt), done is not None)
                    if block_types:
                        wt = rng.choice(block_types)
                        attrs = gen.gen_attrs(rng, wt)
                        st, wr = outcome(lambda: find_wrapping(br, wt, attrs))
                        replay = dict(base, helper="find_wrapping", to=q, range=[br.start, br.end, br.depth], wrapper=wt.name, wrapper_attrs=attrs)
                        tie(info, d, "findWrappingRange", {"from": br.from_.pos, "to": br.to.pos, "depth": br.depth, "ty": info.nid[wt.name]},
                            replay, st, wr, lambda v: None if v is None else [info.nid[w.type.name] for w in v])
                        if st != "ok":
                            ctx.violation("find_wrapping-raises", f"find_wrapping raised {wr}", replay)
                        elif wr is not None:
                            wfields = {"from": br.from_.pos, "to": br.to.pos, "depth": br.depth,
                                       "wrappers": [[info.nid[w.type.name], info.attrs(w.type, w.attrs)] for w in wr]}
                            done = perform(ctx, info, d, "wrap", lambda tr: tr.wrap(br, wr), dict(replay, chain=[w.type.name for w in wr]),
                                           reqs, metas, bundled, build=dict(wfields, k="wrap"))
                            guard(info, d, "wrap", wfields, replay, done is not None)
                # ---- insert_point
                nt = rng.choice(list(schema.nodes.values()))
                st, ip = outcome(lambda: insert_point(d, pos, nt))
                replay = dict(base, helper="insert_point", type=nt.name)
                tie(info, d, "insertPoint", {"pos": pos, "ty": info.nid[nt.name]}, replay, st, ip)
                # ---- can_change_type (exact tie only: it approves nothing by itself)
                ct = list(schema.nodes.values())[(pos * 7 + size) % len(schema.nodes)]   # no draw from rng: the case stream stays as it was
                stc_, okc = outcome(lambda: can_change_type(d, pos, ct))
                tie(info, d, "canChangeType", {"pos": pos, "ty": info.nid[ct.name]}, dict(base, helper="can_change_type", type=ct.name), stc_, okc, bool)
                if stc_ == "ok" and okc:
                    retype_tie(info, d, pos, ct, dict(base, helper="can_change_type", type=ct.name))
                if st != "ok":
                    ctx.violation("insert_point-raises", f"insert_point raised {ip}", replay)
                elif ip is not None:
                    node = nt.create_and_fill(gen.gen_attrs(rng, nt)) if not nt.is_text else schema.text("x")
                    if not (0 <= ip <= size):
                        ctx.violation("insert_point-range", "insert_point returned an out-of-range position", dict(replay, got=ip))
                    elif node is not None and bundled:
                        stp = ReplaceStep(ip, ip, Slice(Fragment.from_(node), 0, 0))
                        sta, res = outcome(lambda: stp.apply(d))
                        if sta != "ok" or res.doc is None:
                            ctx.violation("insert_point-fails", "inserting a node of the given type at the returned position fails",
                                          dict(replay, point=ip, detail=str(res.failed if sta == "ok" else res)[:200]))
                        else:
                            stc, err = outcome(res.doc.check)
                            if stc != "ok":
                                ctx.violation("insert_point-invalid", f"insertion at the returned point gives an invalid document: {err}", dict(replay, point=ip))
                    if node is not None and 0 <= ip <= size:
                        ins_tie(info, d, ip, node, replay)
                        mk = marked(node, schema)
                        if mk is not None:
                            ins_tie(info, d, ip, mk, dict(replay, marked=True))
                # ---- drop_point
                sl = gen.random_slice(rng, docs)
                st, dp = outcome(lambda: drop_point(d, pos, sl))
                replay = dict(base, helper="drop_point", slice=sl.to_json())
                tie(info, d, "dropPoint", {"pos": pos, "slice": info.slice(sl)}, replay, st, dp)
                if st != "ok":
                    ctx.violation("drop_point-raises", f"drop_point raised {dp}", replay)
                elif dp is not None:
                    if not (0 <= dp <= size):
                        ctx.violation("drop_point-range", "drop_point returned an out-of-range position", dict(replay, got=dp))
                    elif sl.size:
                        tr = Transform(d)
                        sta, val, added = ops.run_op(tr, lambda tr_: tr_.replace(dp, dp, sl))
                        if bundled:
                            if sta != "ok":
                                ctx.violation("drop_point-fails", f"inserting the slice at the returned position raised {val}", dict(replay, point=dp))
                            else:
                                stc, err = outcome(tr.doc.check)
                                if stc != "ok":
                                    ctx.violation("drop_point-invalid", f"inserting the slice at the returned point gives an invalid document: {err}", dict(replay, point=dp))
                        drop_tie(info, d, pos, dp, sl, replay, sta, tr)
    # ---- aimed probes of the insertion guards (own random stream): content `image? text* image`
    info = aim[-1]
    ctx.driver.add_schema(info)
    img = info.schema.nodes["image"]
    sch = info.schema
    hand = [sch.node("doc", None, [sch.node("p", None, [sch.text("ab"), sch.node("image")])]),
            sch.node("doc", None, [sch.node("p", None, [sch.node("image")]),
                                   sch.node("p", None, [sch.text("a", [sch.mark("em")]), sch.text("bc"), sch.node("image")])])]
    for d in hand + [gen.gen_doc(rng2, sch, budget=rng2.choice([8, 16])) for _ in range(ctx.budget(3, 10))]:
        for pos in gen.aligned_positions(d):
            base = {"schema": info.name, "doc": d.to_json(), "pos": pos, "aimed": True}
            st, ip = outcome(lambda: insert_point(d, pos, img))
            tie(info, d, "insertPoint", {"pos": pos, "ty": info.nid["image"]}, dict(base, helper="insert_point", type="image"), st, ip)
            if st == "ok" and ip is not None:
                ins_tie(info, d, ip, img.create(), dict(base, helper="insert_point", type="image"))
            sl = Slice(Fragment.from_(img.create()), 0, 0)
            st, dp = outcome(lambda: drop_point(d, pos, sl))
            tie(info, d, "dropPoint", {"pos": pos, "slice": info.slice(sl)}, dict(base, helper="drop_point", slice=sl.to_json()), st, dp)
            if st == "ok" and dp is not None:
                tr = Transform(d)
                sta, val, added = ops.run_op(tr, lambda tr_: tr_.replace(dp, dp, sl))
                drop_tie(info, d, pos, dp, sl, dict(base, helper="drop_point", slice=sl.to_json()), sta, tr)
            ctx.count("aimed insertion probes")
    flush()
    return ctx.finish(
        rule="a case is (schema, valid document, pair-aligned position) at which every structure helper is asked (can_split depth 1-2, "
             "can_join, join_point both directions, lift_target and find_wrapping on block ranges starting there, insert_point for a "
             "random type, drop_point for a random slice) and every approved edit is performed; bundled-family schemas for the "
             "approval claims, random schemas for validity/content of performed edits")


if __name__ == "__main__":
    core.main("C12", run)
