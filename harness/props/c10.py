"""C10 — documents and their parts are immutable values.

A pure model cannot prove the absence of in-place mutation (purity is its modelling assumption). What
Lean carries here is a checked *effect summary regenerated from the source on every run*:
harness/translate_effects.py lists every syntactic mutation site of prosemirror/model and
prosemirror/transform, classifies it by rule, and writes lean/Gen/Effects.lean, whose theorem
`no_external_mutation` (`decide +kernel`) fails as soon as a site is not provably harmless; the frame
theorems of Props/C10.lean say the two documented accumulators only append (over the model of
Transform / Mapping, tied by C03/C04/C08).
Search: the snapshot harness — before every operation of a random history every live document,
fragment, slice, mark list, step and map (shared sub-trees included) and the shared singletons are
serialised; after the operation every snapshot must be unchanged.
"""
import json
import os

from prosemirror.model import Fragment, Mark, Node, Schema, Slice
from prosemirror.transform import Mapping, Step, StepMap, Transform

from .. import core, gen, ops, schemas
from .. import translate_effects as te
from ..core import outcome


def snap(obj):
    if isinstance(obj, (Node, Fragment, Slice, Mark)):
        return json.dumps(obj.to_json(), sort_keys=True, default=str)
    if isinstance(obj, Step):
        return json.dumps(obj.to_json(), sort_keys=True, default=str)
    if isinstance(obj, StepMap):
        return json.dumps([list(obj.ranges), obj.inverted])
    if isinstance(obj, Mapping):
        return json.dumps([[list(m.ranges), m.inverted] for m in obj.maps] + [list(obj.mirror or []), obj.from_, obj.to])
    if isinstance(obj, list):
        return json.dumps([snap(x) for x in obj])
    if isinstance(obj, dict):
        return json.dumps(obj, sort_keys=True, default=str)
    return repr(obj)


def singletons():
    return {"Fragment.empty": (Fragment.empty.content, Fragment.empty.size), "Mark.none": list(Mark.none),
            "Slice.empty": (Slice.empty.content.content, Slice.empty.open_start, Slice.empty.open_end),
            "StepMap.empty": (list(StepMap.empty.ranges), StepMap.empty.inverted)}


SINGLETONS_EXPECTED = {"Fragment.empty": ([], 0), "Mark.none": [], "Slice.empty": ([], 0, 0), "StepMap.empty": ([], False)}


def sub_objects(doc, rng, limit=12):
    out = [doc, doc.content]
    nodes = []
    doc.descendants(lambda n, p, par, i: nodes.append(n) or True)
    rng.shuffle(nodes)
    for n in nodes[:limit]:
        out.append(n)
        out.append(n.marks)
        if not n.is_text:
            out.append(n.attrs)
            out.append(n.content.content)
    return out


_STYLE = None


def style_schema():
    """the basic schema with the style parse rules upstream's basic schema has for strong / em, including the mark-clearing ones"""
    global _STYLE
    if _STYLE is None:
        from prosemirror.schema.basic import schema as basic
        nodes = {k: dict(v) for k, v in basic.spec["nodes"].items()}
        marks = {k: dict(v) for k, v in basic.spec["marks"].items()}
        marks["strong"]["parseDOM"] = [{"tag": "strong"}, {"tag": "b"},
                                       {"style": "font-weight=400", "clear_mark": lambda m: m.type.name == "strong"},
                                       {"style": "font-weight=normal", "clear_mark": lambda m: m.type.name == "strong"},
                                       {"style": "font-weight=bold"}, {"style": "font-weight=700"}]
        marks["em"]["parseDOM"] = [{"tag": "i"}, {"tag": "em"}, {"style": "font-style=italic"},
                                   {"style": "font-style=normal", "clear_mark": lambda m: m.type.name == "em"}]
        _STYLE = Schema({"nodes": nodes, "marks": marks})
    return _STYLE


def lxml_fragment(html):
    import lxml.html
    return lxml.html.fromstring(html)


def run(ctx):
    rng = ctx.rng
    # ---- translator + Lean
    sites = te.scan(core.REPO)
    digest = te.write_lean(sites, os.path.join(core.LEAN, "Gen", "Effects.lean"))
    ext = [s for s in sites if s["cls"] == "external"]
    ok, log, dt = core.build(["PM", "pmdriver", "Props.C10", "Gen.Effects"])
    ctx.build_ok = ok
    ctx.build_log = log
    ctx.counters["lake_build_s"] = round(dt, 1)
    n, d, details = core.audit("C10")
    ctx.obligations, ctx.discharged = n + 1, d + (1 if ok and not ext else 0)
    from collections import Counter
    details["Gen.Effects.no_external_mutation"] = {"sites": len(sites), "classes": dict(Counter(s["cls"] for s in sites)),
                                                   "external": [list(map(str, s["key"])) + [s["line"]] for s in ext][:10], "digest": digest}
    ctx.audit_details = details
    ctx.counters["mutation_sites"] = len(sites)
    # ---- snapshot harness
    fam = schemas.family()
    for si in range(ctx.budget(14, 60)):
        info = fam[si % len(fam)] if si < len(fam) or rng.random() < 0.6 else schemas.random_schema(rng)
        schema = info.schema
        docs = [gen.gen_doc(rng, schema, budget=rng.choice([6, 12, 25])) for _ in range(ctx.budget(4, 8))]
        live = []          # (label, object)
        for d in docs:
            for o in sub_objects(d, rng):
                live.append(("initial", o))
        tr = Transform(rng.choice(docs))
        mapping_seen = Mapping()
        history = []
        for step_no in range(ctx.budget(25, 60)):
            if ctx.time_left() < 0:
                break
            before = [(lbl, o, snap(o)) for (lbl, o) in live[-400:]]
            acc_before = (list(tr.steps), list(tr.docs), list(tr.mapping.maps), list(tr.mapping.mirror or []))
            kind = rng.choice(["transform-op", "transform-op", "query", "step", "json", "slice-replace", "mapping", "dom", "aimed"])
            desc = {"kind": kind}
            new_objs = []
            try:
                if kind == "transform-op":
                    name, args, thunk = ops.plan_op(rng, info, tr.doc, docs)
                    desc.update(ops.describe(name, args))
                    # what the caller hands to the operation (slices, nodes, marks) stays the caller's: snapshotted before, compared after
                    for a in args:
                        if isinstance(a, (Slice, Node, Mark)):
                            live.append(("argument of " + name, a))
                            before.append(("argument of " + name, a, snap(a)))
                    ops.run_op(tr, thunk)
                    new_objs += [tr.doc] + tr.steps[-2:] + [m for m in tr.mapping.maps[-2:]]
                elif kind == "query":
                    d = rng.choice(docs + [tr.doc])
                    p, q = gen.random_range(rng, d)
                    desc.update({"op": "queries", "range": [p, q]})
                    r = d.resolve(p)
                    r.marks(), r.node_after, r.node_before, r.shared_depth(q), r.block_range(d.resolve(q))
                    d.text_between(p, q, "\n"), d.node_at(p), d.check(), d.cut(p, q), d.to_json()
                    d.nodes_between(p, q, lambda *a: True)
                    d.range_has_mark(p, q, gen.gen_mark(rng, schema)) if schema.marks else None
                    d.content.find_diff_start(rng.choice(docs).content), d.content.find_diff_end(rng.choice(docs).content)
                    n0 = rng.choice(docs)
                    n0.can_append(d), n0.can_replace(0, n0.child_count, d.content), d.content_match_at(d.child_count)
                    ms = gen.gen_marks_ref(rng, schema, schema.top_node_type, 1.0)
                    if ms:
                        live.append(("mark-list", ms))
                        m = gen.gen_mark(rng, schema)
                        rev = list(reversed(ms))          # a caller-owned, possibly unsorted mark list
                        live.append(("mark-list (unsorted)", rev))
                        before.append(("mark-list (unsorted)", rev, snap(rev)))
                        new_objs += [m.add_to_set(ms), m.remove_from_set(ms), Mark.set_from(rev),
                                     schema.top_node_type.allowed_marks(ms), d.type.schema.text("x", rev) if rev else None]
                elif kind == "step":
                    d = rng.choice(docs + [tr.doc])
                    st_ = gen.gen_step(rng, info, d, docs)
                    desc.update({"op": "step apply/invert/map/merge", "step": st_.to_json()})
                    live.append(("step", st_))
                    res = outcome(lambda: st_.apply(d))
                    if res[0] == "ok" and res[1].doc is not None:
                        new_objs.append(res[1].doc)
                        inv = outcome(lambda: st_.invert(d))
                        if inv[0] == "ok":
                            new_objs.append(inv[1])
                    other = gen.gen_step(rng, info, d, docs)
                    outcome(lambda: st_.map(other.get_map()))
                    outcome(lambda: st_.merge(other))
                    new_objs.append(st_.get_map())
                elif kind == "json":
                    d = rng.choice(docs + [tr.doc])
                    desc.update({"op": "json round trip"})
                    j = d.to_json()
                    j2 = json.loads(json.dumps(j))
                    new_objs.append(Node.from_json(schema, j2))
                    if tr.steps:
                        sj = tr.steps[-1].to_json()
                        new_objs.append(Step.from_json(schema, json.loads(json.dumps(sj))))
                elif kind == "slice-replace":
                    d = rng.choice(docs + [tr.doc])
                    f, t = gen.random_range(rng, d)
                    sl = gen.random_slice(rng, docs)
                    desc.update({"op": "slice + replace", "range": [f, t], "slice": sl.to_json()})
                    live.append(("slice", sl))
                    s2 = d.slice(f, t)
                    new_objs.append(s2)
                    r = outcome(lambda: d.replace(f, t, sl))
                    if r[0] == "ok":
                        new_objs.append(r[1])
                    outcome(lambda: sl.insert_at(0, s2.content))
                    outcome(lambda: Slice.max_open(d.content))
                elif kind == "mapping":
                    desc.update({"op": "mapping ops"})
                    mp = Mapping()
                    for m in tr.mapping.maps[-3:]:
                        mp.append_map(m)
                    # a mapping with mirror pairs that is *not* being appended to: copies / slices / inverses of it are
                    base = Mapping()
                    for m in tr.mapping.maps[-2:]:
                        base.append_map(m)
                    for i in range(len(base.maps) - 1, -1, -1):
                        base.append_map(base.maps[i].invert(), i)
                    live.append(("mapping with mirrors", base))
                    before.append(("mapping with mirrors", base, snap(base)))
                    if base.maps:
                        cp = base.copy()
                        cp.append_map(base.maps[0], len(cp.maps) - 1)
                        cp.append_mapping(base)
                        base.slice(0, len(base.maps)).map(rng.randint(0, 5))     # (a slice is a view sharing the lists: read only)
                        inv_ = base.invert()
                        inv_.append_mapping_inverted(base)
                        new_objs += [cp, inv_]
                    mp2 = mp.invert()
                    mp.append_mapping(mp2)
                    mp.append_mapping_inverted(tr.mapping)
                    mp.slice(0, 1).map(rng.randint(0, 5))
                    tr.mapping.map(rng.randint(0, 5)), tr.mapping.map_result(rng.randint(0, 5), -1)
                elif kind == "aimed":
                    rng_a = __import__("random").Random(ctx.seed * 7927 + si * 101 + step_no)     # private random stream
                    allnodes = []
                    for d_ in docs + [tr.doc]:
                        d_.descendants(lambda n, p, par, i, d_=d_: allnodes.append((d_, n, p)) or True)
                    if rng_a.random() < 0.5:
                        # marked inline content pasted, through the Fitter, into a parent that restricts marks
                        desc.update({"op": "paste marked content into a mark-restricted parent"})
                        targets = [(d_, n, p) for (d_, n, p) in allnodes if n.is_textblock and n.type.mark_set is not None]
                        sources = [(d_, n, p) for (d_, n, p) in allnodes if n.is_textblock and n.child_count and
                                   any(c.marks for c in n.content.content)]
                        if targets and sources:
                            (dt_, nt, pt), (ds, ns, ps) = rng_a.choice(targets), rng_a.choice(sources)
                            sl = ds.slice(ps + 1, ps + 1 + ns.content.size)
                            live.append(("pasted slice", sl))
                            before.append(("pasted slice", sl, snap(sl)))
                            before.append(("source of the pasted slice", ds, snap(ds)))
                            before.append(("target document", dt_, snap(dt_)))
                            tr2 = Transform(dt_)
                            where = pt + 1 + rng_a.choice([0, nt.content.size])
                            ops.run_op(tr2, lambda t_: t_.replace(where, where, sl))
                            ops.run_op(tr2, lambda t_: t_.clear_incompatible(pt, nt.type))
                            new_objs += [tr2.doc] + tr2.steps[-2:]
                            ctx.count("aimed:paste-into-mark-restricted")
                    else:
                        # a node / fragment built from an array that mixes new text nodes with nodes of a live document:
                        # an earlier join, a node that does not join, then a shared text node followed by same-markup text
                        desc.update({"op": "node built from an array mixing new and shared nodes"})
                        tbs = [(d_, n, p) for (d_, n, p) in allnodes if n.is_textblock and any(c.is_text for c in n.content.content)]
                        if tbs:
                            d_, n, p = rng_a.choice(tbs)
                            shared = rng_a.choice([c for c in n.content.content if c.is_text])
                            other_marks = [] if shared.marks else ([gen.gen_mark(rng_a, schema)] if schema.marks else None)
                            arr = [schema.text("n1", shared.marks), schema.text("n2", shared.marks)]
                            if other_marks is not None and all(n.type.allows_mark_type(m.type) for m in other_marks if m is not None):
                                arr.append(schema.text("sep", [m for m in other_marks if m is not None]) if other_marks != [] or shared.marks else schema.text("sep", []))
                            arr += [shared, schema.text("tail", shared.marks), schema.text("tail2", shared.marks)]
                            before.append(("document sharing a node with the array", d_, snap(d_)))
                            before.append(("shared text node", shared, snap(shared)))
                            new_objs.append(outcome(lambda: Fragment.from_array(list(arr)))[1])
                            r = outcome(lambda: n.type.create(n.attrs, list(arr), n.marks))
                            if r[0] == "ok":
                                new_objs.append(r[1])
                            ctx.count("aimed:array-with-shared-nodes")
                elif kind == "dom" and info.name not in ("basic", "list"):
                    # style rules, among them one that *clears* a mark (upstream's `font-weight=400` rule of `strong`): the
                    # parser collects marks to add and to remove starting from the shared empty mark set
                    from prosemirror.model import DOMParser
                    desc.update({"op": "DOM parse with style rules"})
                    ss = style_schema()
                    w = rng.choice(["400", "normal", "bold", "700"])
                    html = rng.choice([
                        '<p><b>bold <span style="font-weight:%s">x</span> y</b> z</p>' % w,
                        '<p><strong>a<em style="font-weight: %s; font-style: normal">b</em></strong></p>' % w,
                        '<p style="font-weight:%s">plain <b>b</b></p><p><i>i <span style="font-style:normal">n</span></i></p>' % w])
                    r = outcome(lambda: DOMParser.from_schema(ss).parse(lxml_fragment("<div>" + html + "</div>")), 10)
                    ctx.count("dom-style-parse:" + r[0])
                    if r[0] == "ok":
                        new_objs.append(r[1])
                elif kind == "dom" and info.name in ("basic", "list"):
                    from prosemirror.model import DOMParser, DOMSerializer
                    d = rng.choice(docs + [tr.doc])
                    desc.update({"op": "DOM round trip"})
                    html = str(DOMSerializer.from_schema(schema).serialize_fragment(d.content))
                    r = outcome(lambda: DOMParser.from_schema(schema).parse(lxml_fragment("<div>" + html + "</div>")), 10)
                    ctx.count("dom-roundtrip:" + r[0])
                    if r[0] == "ok":
                        new_objs.append(r[1])
            except Exception as e:  # noqa: BLE001  exceptions of the operation itself are other properties' business
                desc["exception"] = type(e).__name__
            history.append(desc)
            ctx.case(["op", si, step_no, desc.get("op"), desc.get("kind")], sample={"op": desc.get("op", kind), "schema": info.name})
            ctx.count("op:" + kind)
            # ---- check snapshots
            for lbl, o, s0 in before:
                s1 = snap(o)
                ctx.count("snapshots_checked")
                if s1 != s0:
                    ctx.violation("mutated", f"a previously obtained {type(o).__name__} ({lbl}) changed in place",
                                  {"schema": info.name, "history": history[-6:], "before": s0[:600], "after": s1[:600]})
                    break
            sg = singletons()
            for k, v in sg.items():
                if v != SINGLETONS_EXPECTED[k] and list(v) != list(SINGLETONS_EXPECTED[k]):
                    ctx.violation("singleton", f"shared singleton {k} was mutated", {"schema": info.name, "history": history[-6:], "value": str(v)})
            s_b, d_b, m_b, mi_b = acc_before
            if tr.steps[:len(s_b)] != s_b or tr.docs[:len(d_b)] != d_b or tr.mapping.maps[:len(m_b)] != m_b or \
                    not all(a is b for a, b in zip(tr.docs, d_b)):
                ctx.violation("accumulator", "Transform/Mapping accumulators changed other than by appending",
                              {"schema": info.name, "history": history[-6:]})
            for o in new_objs:
                if o is not None:
                    live.append((kind, o))
    return ctx.finish(
        rule="a case is one operation of a random history (transform operations, model queries, mark-set operations, step "
             "apply/invert/map/merge, JSON round trips, slice/replace, mapping operations, DOM round trips) after which the "
             "snapshots of all live objects (up to 400 most recent, shared sub-trees included) are compared",
        level_note="partial: the Lean part is a `decide` over the generated mutation-site table plus append-only frame theorems; "
                   "in-place mutation through aliases created in another function, setattr or C extensions is invisible to the "
                   "syntactic analysis and only the snapshot search looks for it")


if __name__ == "__main__":
    core.main("C10", run)
