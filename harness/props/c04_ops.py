"""C04 — the recorded steps of the structural operations satisfy the guard of the undo theorem.

Theorems (lean/Props/C04.lean): `family_step` — a recorded step that satisfies `FamilyGuard` on a valid
normal-form document is undone exactly by its inverse; `joinGuard_family`, `splitGuard_family`,
`wrapGuard_family`, `liftGuard_family`, `setNodeMarkupGuard_family`, `setBlockTypeGuard_family` — the steps
these operations emit satisfy it (up to pair-alignment); `opHistory_undo` composes.

Tie (relational), on every replace / replace-around step a real history records from
split / join / lift / wrap / set_node_markup / set_block_type: the model evaluates the executable guard
(`structGuardB`, PM/OpGuard.lean, proved to imply `FamilyGuard`: `structGuardB_family`) on the real
(document, step, next document) — shape, payload validity, the structure checks of the inverse, the exact fit guard
`gapFitsBack`, pair-alignment — and, separately, the structural sufficient condition `gapClean` the builders' theorems prove;
  * guard true on a valid normal-form document  =>  the real inverse restores the real document (`family_step`);
  * for the operation kinds whose theorem says so, the guard's parts are true.
Counts per operation kind and part.

Work package `wk-sbt` — whole operations:
  * `set_block_type` to a *plain* target type (`Schema.plainType`: closed content automaton, every state a valid end;
    computed here from `ContentMatch` and tied exactly to the model predicate by the request `plainType`): theorem
    `setBlockType_residual` assembles the guards of every recorded step over the walk — so the `ReplaceStep`s of
    `clear_incompatible` (deleting a child, a space for a newline) must have `shape` and `payload` true, the retype step
    all its parts, and the `RemoveMarkStep`s satisfy the planners' guard (`clearRm_planGuard`; c04_marks, `planned`);
  * node-level operations (`add_node_mark`, `remove_node_mark`, `set_node_attribute`): theorem `nodeOp_hist` — the one
    recorded step is the node-level step at the operation's position (with the operation's mark / attribute);
    `nodeOps_residual` — the guard `NodeOpGuard` evaluated on the operation's arguments is the `FamilyGuard` of that step
    (request `nodeStepGuard`: attributes exact, `add_to_set` does not shrink the set, one mark per type, exclusion
    symmetric); guard true on a valid normal-form document  =>  the real inverse restores the real document.
"""
from prosemirror.model import Mark
from prosemirror.transform import AddNodeMarkStep, AttrStep, RemoveNodeMarkStep, ReplaceAroundStep, ReplaceStep

# the structural operations (theorems say which parts of the guard hold) and the replace family (`Transform.replace` and
# friends go through `replace_step` / the Fitter: the guard of their recorded steps — normal-form slice, valid payload —
# is the remaining hypothesis of `opHistory_undo` for them, measured here)
REPLACE = ("replace", "replace_with", "insert", "delete", "replace_range", "replace_range_with", "delete_range")
STRUCT = ("split", "join", "lift", "wrap", "set_node_markup", "set_block_type") + REPLACE
PARTS = ("shape", "payload", "hst", "gapFits", "aligned")


NODE_OPS = ("add_node_mark", "remove_node_mark", "set_node_attribute")
NODE_STEPS = (AttrStep, AddNodeMarkStep, RemoveNodeMarkStep)
NODE_PARTS = ("attrsExact", "noShrink", "uniqueTypes", "exclSym")


def py_plain(ty):
    """`Schema.plainType` on the real content automaton: every reachable state is a valid end (the automaton of a
    `ContentMatch` is closed by construction; it has at least the start state)"""
    seen, todo = [], [ty.content_match]
    while todo:
        m = todo.pop()
        if any(m is x for x in seen):
            continue
        seen.append(m)
        if not m.valid_end:
            return False
        todo.extend(e.next for e in m.next)
    return True


def request_plain(ctx, info, ty, reqs, metas, replay):
    """tie of the plainness predicate (exact)"""
    reqs.append({"op": "plainType", "s": info.lean_id, "type": info.nid[ty.name]})
    metas.append(("plainType", dict(replay, type=ty.name), py_plain(ty)))


def compare_plain(ctx, replay, payload, out):
    if out.get("ok") is not payload:
        ctx.mismatch("plainType", replay, payload, out)
    else:
        ctx.count("sbt-target:" + ("plain" if payload else "needy"))


def request(ctx, info, doc, step, res_doc, op, impl_ok, reqs, metas, replay, plain=False):
    if op not in STRUCT or not isinstance(step, (ReplaceStep, ReplaceAroundStep)):
        return
    reqs.append({"op": "familyGuard", "s": info.lean_id, "doc": info.node(doc), "after": info.node(res_doc),
                 "step": info.step(step)})
    metas.append(("familyGuard", dict(replay, op=op, step=step.to_json(), doc=doc.to_json(), plain=plain),
                  (op, step, impl_ok, plain)))


def request_node(ctx, info, doc, step, res_doc, op, args, impl_ok, declared, reqs, metas, replay):
    """a node-level step recorded by a node-level operation"""
    if op not in NODE_OPS or not isinstance(step, NODE_STEPS):
        return
    reqs.append({"op": "nodeStepGuard", "s": info.lean_id, "doc": info.node(doc), "step": info.step(step)})
    # nodeOp_hist: the recorded step sits at the operation's position and carries the operation's mark / attribute
    at_op = step.pos == args[0]
    if op == "add_node_mark":
        at_op = at_op and isinstance(step, AddNodeMarkStep) and step.mark.eq(args[1])
    elif op == "remove_node_mark":
        at_op = at_op and isinstance(step, RemoveNodeMarkStep) and \
            (step.mark.eq(args[1]) if isinstance(args[1], Mark) else step.mark.type is args[1])
    else:
        at_op = at_op and isinstance(step, AttrStep) and step.attr == args[1] and step.value == args[2]
    metas.append(("nodeStepGuard", dict(replay, op=op, step=step.to_json(), doc=doc.to_json()),
                  (op, impl_ok, declared, at_op)))


def request_node_step(ctx, info, doc, step, impl_ok, reqs, metas, replay):
    """a node-level step applied on its own (generated / aimed single steps: here the guard is often false — finding
    C04-node-mark-inverse): the executable guard against the real undo"""
    reqs.append({"op": "nodeStepGuard", "s": info.lean_id, "doc": info.node(doc), "step": info.step(step)})
    metas.append(("nodeStepGuard", replay, ("step:" + type(step).__name__, impl_ok, True, True)))


def compare_node(ctx, replay, payload, out):
    op, impl_ok, declared, at_op = payload
    if not isinstance(out.get("ok"), list):
        ctx.mismatch("nodeStepGuard", replay, "guard parts", out)
        return
    *parts, inv = out["ok"]
    vals = dict(zip(NODE_PARTS, parts))
    guard = all(parts)
    ctx.count(f"nodeguard:{op}:" + ("true" if guard else "false"))
    for name in NODE_PARTS:
        if not vals[name]:
            ctx.count(f"nodeguard:{op}:not-{name}")
    if not at_op:
        ctx.mismatch("nodeOp_hist-theorem", replay, "the recorded step is the operation's step at its position", vals)
    if not declared:
        ctx.count("nodeguard:undeclared-attr")
        return
    if not inv:
        ctx.count("nodeguard:doc-not-valid-normal")
        return
    if guard and not impl_ok:
        ctx.mismatch("nodeOps_residual-theorem", replay, "NodeOpGuard holds => the real inverse restores", vals)
    if guard:
        ctx.count(f"nodeguard:{op}:guarded-restored")
    elif impl_ok:
        ctx.count(f"nodeguard:{op}:unguarded-restored")
    else:
        ctx.count(f"nodeguard:{op}:unguarded-not-restored")


def expected(op, step, plain=False):
    """the parts the theorems say are true for a step of this operation (pair-alignment is a hypothesis of all of them)"""
    around = isinstance(step, ReplaceAroundStep)
    if op == "set_block_type" and plain and not around:
        # setBlockType_residual: a plain target type never asks for fillers; the ReplaceSteps are those of
        # clear_incompatible (clearEditsGuard_family): closed, normal-form, valid payload
        return ("shape", "payload", "hst", "gapFits", "gapClean")
    if op in ("join", "split") and not around:
        return ("shape", "payload", "hst", "gapFits", "gapClean")
    if op == "wrap" and around:
        n = step.slice.content.first_child
        while n is not None and not n.is_leaf:
            n = n.content.first_child
        if n is not None:
            return ("shape",)                               # a leaf wrapper (aimed case): finding C04-structure-inverse
        return ("shape", "payload", "hst", "gapFits", "gapClean")
    if op == "lift" and around:
        return ("shape", "payload", "hst", "gapFits", "gapClean")      # ranges come from block_range: both ends at child boundaries
    if op in ("set_node_markup", "set_block_type") and around:
        sl = step.slice
        if not (step.structure and step.insert == 1 and sl.open_start == 0 and sl.open_end == 0 and sl.content.child_count == 1
                and step.gap_from == step.from_ + 1 and step.gap_to == step.to - 1):
            # not the retype step the theorems are about: `set_node_markup` on a *leaf* goes through `replace_with`, and the
            # Fitter may answer with a replace-around step of its own (open slice, inline content moved) — measured like
            # every step of the replace family
            return ()
        new = step.slice.content.first_child
        if new is not None and not new.is_leaf:
            return ("shape", "payload", "hst", "gapFits", "gapClean")
        return ("shape",)                                   # leaf target: finding C04-leaf-retype
    return ()                                               # replace steps of the Fitter / clear_incompatible: measured


def compare(ctx, replay, payload, out):
    op, step, impl_ok, plain = payload
    kind = "around" if isinstance(step, ReplaceAroundStep) else "replace"
    if "ok" not in out or out["ok"] is None:
        ctx.mismatch("familyGuard", replay, "guard parts", out)
        return
    *parts, inv, clean = out["ok"]
    vals = dict(zip(PARTS, parts), gapClean=clean)
    guard = all(parts)
    ctx.count(f"opguard:{op}:{kind}:" + ("true" if guard else "false"))
    if op == "set_block_type":
        ctx.count(f"opguard:set_block_type:{'plain' if plain else 'needy'}:{kind}:" + ("true" if guard else "false"))
    for name in PARTS + ("gapClean",):
        if not vals[name]:
            ctx.count(f"opguard:{op}:{kind}:not-{name}")
    if not inv:
        ctx.count("opguard:doc-not-valid-normal")
        return
    if guard and not impl_ok:
        ctx.mismatch("family_step-theorem", replay, "guard holds => the real inverse restores", vals)
    for name in expected(op, step, plain):
        if not vals[name]:
            ctx.mismatch("opGuard-theorem", replay, f"{op}: {name} holds", vals)
