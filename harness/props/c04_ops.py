"""C04 — the recorded steps of the structural operations satisfy the guard of the undo theorem.

Theorems (lean/Props/C04.lean): `family_step` — a recorded step that satisfies `FamilyGuard` on a valid
normal-form document is undone exactly by its inverse; `joinGuard_family`, `splitGuard_family`,
`wrapGuard_family`, `liftGuard_family`, `setNodeMarkupGuard_family`, `setBlockTypeGuard_family` — the steps
these operations emit satisfy it (up to pair-alignment); `opHistory_undo` composes.

Tie (relational), on every replace / replace-around step a real history records from
split / join / lift / wrap / set_node_markup / set_block_type: the model evaluates the executable guard
(`structGuardB`, PM/OpGuard.lean, proved to imply `FamilyGuard`: `structGuardB_family`) on the real
(document, step, next document) — shape, payload validity, the structure checks of the inverse, the exact fit guard
`gapFitsBack`, pair-alignment — and, separately, the structural sufficient condition `gapClean` the builders' theorems prove;
  * guard true on a valid normal-form document  =>  the real inverse restores the real document (`family_step`);
  * for the operation kinds whose theorem says so, the guard's parts are true.
Counts per operation kind and part.
"""
from prosemirror.transform import ReplaceAroundStep, ReplaceStep

# the structural operations (theorems say which parts of the guard hold) and the replace family (`Transform.replace` and
# friends go through `replace_step` / the Fitter: the guard of their recorded steps — normal-form slice, valid payload —
# is the remaining hypothesis of `opHistory_undo` for them, measured here)
REPLACE = ("replace", "replace_with", "insert", "delete", "replace_range", "replace_range_with", "delete_range")
STRUCT = ("split", "join", "lift", "wrap", "set_node_markup", "set_block_type") + REPLACE
PARTS = ("shape", "payload", "hst", "gapFits", "aligned")


def request(ctx, info, doc, step, res_doc, op, impl_ok, reqs, metas, replay):
    if op not in STRUCT or not isinstance(step, (ReplaceStep, ReplaceAroundStep)):
        return
    reqs.append({"op": "familyGuard", "s": info.lean_id, "doc": info.node(doc), "after": info.node(res_doc),
                 "step": info.step(step)})
    metas.append(("familyGuard", dict(replay, op=op, step=step.to_json(), doc=doc.to_json()), (op, step, impl_ok)))


def expected(op, step):
    """the parts the theorems say are true for a step of this operation (pair-alignment is a hypothesis of all of them)"""
    around = isinstance(step, ReplaceAroundStep)
    if op in ("join", "split") and not around:
        return ("shape", "payload", "hst", "gapFits", "gapClean")
    if op == "wrap" and around:
        n = step.slice.content.first_child
        while n is not None and not n.is_leaf:
            n = n.content.first_child
        if n is not None:
            return ("shape",)                               # a leaf wrapper (aimed case): finding C04-structure-inverse
        return ("shape", "payload", "hst", "gapFits", "gapClean")
    if op == "lift" and around:
        return ("shape", "payload", "hst", "gapFits", "gapClean")      # ranges come from block_range: both ends at child boundaries
    if op in ("set_node_markup", "set_block_type") and around:
        new = step.slice.content.first_child
        if new is not None and not new.is_leaf:
            return ("shape", "payload", "hst", "gapFits", "gapClean")
        return ("shape",)                                   # leaf target: finding C04-leaf-retype
    return ()                                               # replace steps of the Fitter / clear_incompatible: measured


def compare(ctx, replay, payload, out):
    op, step, impl_ok = payload
    kind = "around" if isinstance(step, ReplaceAroundStep) else "replace"
    if "ok" not in out or out["ok"] is None:
        ctx.mismatch("familyGuard", replay, "guard parts", out)
        return
    *parts, inv, clean = out["ok"]
    vals = dict(zip(PARTS, parts), gapClean=clean)
    guard = all(parts)
    ctx.count(f"opguard:{op}:{kind}:" + ("true" if guard else "false"))
    for name in PARTS + ("gapClean",):
        if not vals[name]:
            ctx.count(f"opguard:{op}:{kind}:not-{name}")
    if not inv:
        ctx.count("opguard:doc-not-valid-normal")
        return
    if guard and not impl_ok:
        ctx.mismatch("family_step-theorem", replay, "guard holds => the real inverse restores", vals)
    for name in expected(op, step):
        if not vals[name]:
            ctx.mismatch("opGuard-theorem", replay, f"{op}: {name} holds", vals)
