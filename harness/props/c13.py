"""C13 — adding and removing marks over a range has exactly the documented effect.

Tie: the four mark steps and the attribute step are tied exactly through Step.apply (C01's
correspondence runs them too).  The *planners* of Transform are modelled (lean/PM/MarkPlan.lean:
add_mark / remove_mark walk and range coalescing; lean/PM/TypePlan.lean: add/remove_node_mark,
set_node_attribute, set_node_markup, clear_incompatible, set_block_type) and tied exactly: for every
generated case the model's planned step list (in application order), the outcome class and the final
document are compared with tr.steps / the raised error / tr.doc of the real operation.  The Fitter
(replace_step beyond a trivial fit, property C11) is an oracle of the model: its recorded answers are
handed over in call order and all must be consumed.  In addition every emitted step is applied by the
model to the recorded document before it, and the final document satisfies the documented per-token
effect.  The specification side of clear_incompatible (lean/PM/KeptChildren.lean: `retypedChildren` = the left-to-right
filter `keptChildren` + fillers; theorems clearIncompatible_spec / setBlockType_spec) is tied through the
`retypedChildren` request: every completed call of the real clear_incompatible (inside set_block_type and called
directly on random nodes and types) is recorded, and the children it left must be exactly what the function says.
The same planners with the Fitter *model* plugged in (lean/PM/TypePlanFit.lean: `replaceStep` of lean/PM/Fitter.lean
instead of recorded answers; bridge theorems `…F_agrees` / `…F_eq_of_fits`) are tied exactly on the bundled-family
schemas through `planNodeOpF` (no recorded answers sent: step list, final document, number of consultations).  The
theorems about runs that do consult the Fitter are evaluated on every real clear_incompatible call on a node with
content: `fillRequest` (fill_fitsTrivially_iff: the Fitter is consulted iff the walk does not end at a valid end, there
are fillers, and the node as it is — old type, old children — cannot take them behind its last child) and `clearKeeps`
(clearIncompatibleF_keeps: the result begins with everything before the node, its open token and exactly keptChildren;
text and leaf content behind the node survive).
Search: per-token oracle computed from to_json(): qualifying inline tokens inside the range carry
the mark (documented add rule), matching marks are gone after removal, text/structure and marks
outside the range are unchanged, node-level edits change only the addressed node, retyping keeps
the children.
"""
import re

from prosemirror.model import MarkType
from prosemirror.transform import Transform

from prosemirror.transform import replace as _replace_mod

from .. import core, gen, ops, schemas
from ..codec import doc_tokens, jval
from ..core import outcome

# The Fitter (transform/replace.py, property C11) is an oracle of the planner model: its answers are recorded, in call
# order, while the real operation runs, and handed to the model, which consumes one whenever the code would call it.
_FIT_LOG = []
_orig_fit = _replace_mod.Fitter.fit


def _logged_fit(self):
    try:
        r = _orig_fit(self)
    except core.Timeout:
        raise
    except Exception as e:  # noqa: BLE001
        _FIT_LOG.append(("err", e))
        raise
    _FIT_LOG.append(("ok", r))
    return r


_replace_mod.Fitter.fit = _logged_fit

# Every completed call of the real clear_incompatible is recorded while this module runs a case: the node found at `pos`
# before the call, the parent type, the explicit match (None inside set_block_type), the node at `pos` afterwards and the
# number of Fitter calls made meanwhile.  The specification function `retypedChildren` of the model
# (lean/PM/KeptChildren.lean: the left-to-right filter `keptChildren` plus the fillers, theorem clearIncompatible_spec)
# must give exactly the children the real call left.
_CLEAR_LOG = []
_CLEAR_ON = [False]
_orig_clear = Transform.clear_incompatible


# A second log keeps, for every call (completed or not), what the theorems about runs that do consult the Fitter speak
# about: the documents before and after, the position, the number of Fitter calls and the steps recorded meanwhile
# (clearIncompatibleF_keeps / fill_fitsTrivially_iff of lean/Props/C13.lean; requests `clearKeeps`, `fillRequest`).
_CLEAR_LOG2 = []


def _logged_clear(self, pos, parent_type, match=None):
    if not _CLEAR_ON[0]:
        return _orig_clear(self, pos, parent_type, match)
    before = gen.safe_node_at(self.doc, pos)
    doc_before, nsteps = self.doc, len(self.steps)
    nfit = len(_FIT_LOG)
    try:
        r = _orig_clear(self, pos, parent_type, match)
    except core.Timeout:
        raise
    except Exception:  # noqa: BLE001
        _CLEAR_LOG2.append((before, parent_type, match, doc_before, pos, None, len(_FIT_LOG) - nfit, None))
        raise
    _CLEAR_LOG.append((before, parent_type, match, gen.safe_node_at(self.doc, pos), len(_FIT_LOG) - nfit))
    _CLEAR_LOG2.append((before, parent_type, match, doc_before, pos, self.doc, len(_FIT_LOG) - nfit,
                        list(self.steps[nsteps:])))
    return r


Transform.clear_incompatible = _logged_clear


def err_class(e):
    from prosemirror.model.replace import ReplaceError
    from prosemirror.transform.transform import TransformError
    if isinstance(e, (ReplaceError, TransformError)):
        return "failed"
    return "valueError" if isinstance(e, ValueError) else "internal"


def ref_add(schema, mark_key, marks):
    """documented add_to_set on (type name, attrs json) tuples"""
    name = mark_key[0]
    t = schema.marks[name]
    if mark_key in marks:
        return marks
    for o in marks:
        ot = schema.marks[o[0]]
        if (not t.excludes(ot)) and ot.excludes(t):
            return marks
    kept = [o for o in marks if not t.excludes(schema.marks[o[0]])]
    out, placed = [], False
    for o in kept:
        if not placed and schema.marks[o[0]].rank > t.rank:
            out.append(mark_key)
            placed = True
        out.append(o)
    if not placed:
        out.append(mark_key)
    return tuple(out)


def plain_inline(ty):
    """the type's content automaton is a single state that is a valid end (inline* / text* / (a | b)* …)"""
    m = ty.content_match
    return m.valid_end and all(e.next is m for e in m.next)


def retype_children_problem(old, new, ty):
    """set_block_type keeps the tree above the textblocks; a converted textblock keeps — in order — exactly the children
    the new type can hold (the documented left-to-right walk over its content automaton), and gets filler nodes only
    when those alone do not end at a valid end.  Returns a description of the first deviation, or None."""
    def shape(n):
        return ("text", n.text.replace("\n", " ")) if n.is_text else (n.type.name,)

    def walk(o, n, path):
        if o.is_textblock:
            if n.type is o.type and not (o.type is ty):
                same = o.child_count == n.child_count and all(shape(o.child(i)) == shape(n.child(i)) for i in range(o.child_count))
                return None if same else f"{path}: children of an unconverted textblock changed"
            if n.type is not ty and n.type is not o.type:
                return f"{path}: textblock became {n.type.name}"
            if n.type is o.type:
                keep = [shape(o.child(i)) for i in range(o.child_count)]
                got = [shape(n.child(i)) for i in range(n.child_count)]
                return None if keep == got else f"{path}: children changed although the type did not"
            match, keep = ty.content_match, []
            for i in range(o.child_count):
                c = o.child(i)
                m2 = match.match_type(c.type)
                if m2 is not None:
                    keep.append(shape(c))
                    match = m2
            got = [shape(n.child(i)) for i in range(n.child_count)]
            # adjacent kept text nodes may have been joined
            def joined(xs):
                out = []
                for x in xs:
                    if out and x[0] == "text" and out[-1][0] == "text":
                        out[-1] = ("text", out[-1][1] + x[1])
                    else:
                        out.append(x)
                return out
            keep_text = "".join(x[1] for x in keep if x[0] == "text")
            got_text = "".join(x[1] for x in got if x[0] == "text")
            keep_leaves = [x for x in keep if x[0] != "text"]
            got_leaves = [x for x in got if x[0] != "text"]
            if match.valid_end:
                if keep_text != got_text or keep_leaves != got_leaves:
                    return f"{path}: converted block has children {got}, the new type can hold exactly {joined(keep)}"
            else:
                if keep_text != got_text or got_leaves[:len(keep_leaves)] != keep_leaves:
                    return f"{path}: converted block lost children it can hold: {got} vs {joined(keep)} (+ filler)"
            return None
        if o.type is not n.type or o.child_count != n.child_count:
            return f"{path}: structure above the textblocks changed"
        for i in range(o.child_count):
            r = walk(o.child(i), n.child(i), path + [i]) if not o.child(i).is_text else None
            if r:
                return r
        return None
    return walk(old, new, [])


def contexts(toks, top):
    out, st = [], [top]
    for t in toks:
        out.append(st[-1])
        if t[0] == "op":
            st.append(t[1])
        elif t[0] == "cl":
            st.pop()
    return out


def marks_of(tok):
    return tok[-1] if tok[0] != "cl" else ()


def with_marks(tok, ms):
    return tok[:-1] + (tuple(ms),) if tok[0] != "cl" else tok


def shape(tok):
    return (tok[0], tok[1]) if tok[0] in ("op", "leaf", "u") else ("cl",)


def is_atom(schema, tok):
    if tok[0] == "u":
        return True
    if tok[0] == "leaf":
        return schema.nodes[tok[1]].is_inline
    if tok[0] == "op":
        t = schema.nodes[tok[1]]
        return t.is_inline and t.is_atom
    return False


def is_inline(schema, tok):
    if tok[0] == "u":
        return True
    if tok[0] in ("leaf", "op"):
        return schema.nodes[tok[1]].is_inline
    return False


def norm_nl(units_):
    s = "".join(chr(u) if u < 0xD800 or u > 0xDFFF else "�" for u in units_)
    return re.sub(r"\r\n|\r|\n", " ", s)


def run(ctx):
    core.lean_phase(ctx)
    rng = ctx.rng
    reqs, metas = [], []

    def flush():
        outs = ctx.driver.run(reqs) if reqs else []
        for req, (replay, exp), out in zip(reqs, metas, outs):
            ctx.count("model_requests")
            if isinstance(exp, tuple) and exp[0] == "kept":
                # the specification function of clear_incompatible against the children the real call left
                _, want, tags = exp
                if out.get("ok") != want:
                    ctx.mismatch("retypedChildren", replay, want, out)
                else:
                    ctx.count("kept_tie")
                    for t_ in tags:
                        ctx.count(f"kept_tie:{t_}")
                continue
            if isinstance(exp, tuple) and exp[0] == "plain":
                # setBlockTypeF_plain_noask on real runs: a plain target type (model predicate `plainType`) never makes
                # set_block_type consult the Fitter; the one-state types the oracle calls `plain_inline` are plain
                _, py_plain, nfit = exp
                got = out.get("ok")
                if not isinstance(got, bool) or (py_plain and not got):
                    ctx.mismatch("plainType", replay, py_plain, out)
                elif got and nfit:
                    ctx.mismatch("plainType: Fitter consulted although the target type is plain", replay, 0, nfit)
                else:
                    ctx.count("plain_type_tie:" + ("plain" if got else "needy"))
                continue
            if isinstance(exp, tuple) and exp[0] == "fillreq":
                # when is the Fitter consulted by clear_incompatible?  (fill_fitsTrivially_iff: iff the walk does not end at
                # a valid end, there are fillers, and the node as it is — old type, old children — cannot take them)
                _, nfit, completed = exp
                got = out.get("ok")
                if not isinstance(got, list):
                    ctx.mismatch("fillRequest", replay, "an answer", out)
                    continue
                predicted = (not got[0]) and got[1] > 0 and got[2] is False
                if completed or nfit:
                    if predicted != (nfit > 0):
                        ctx.mismatch("fillRequest: Fitter consulted", replay, nfit, got)
                    else:
                        ctx.count("fill_request_tie")
                        ctx.count("fill_request_tie:" + ("valid_end" if got[0] else "no_fillers" if got[1] == 0 else
                                                         "fits_trivially" if got[2] else "fitter_consulted"))
                continue
            if isinstance(exp, tuple) and exp[0] == "keeps":
                # clearIncompatibleF_keeps on the real documents: prefix (always), text and content behind (no replace-around)
                _, around, nfit = exp
                got = out.get("ok")
                if not isinstance(got, list) or got[0] is not True or (not around and (got[1] is not True or got[2] is not True)):
                    ctx.mismatch("clearKeeps", replay, [True, True, True], out)
                else:
                    ctx.count("keeps_tie")
                    if nfit:
                        ctx.count("keeps_tie:fitter_consulted")
                    if around:
                        ctx.count("keeps_tie:replace_around(prefix only)")
                continue
            if isinstance(exp, tuple) and exp[0] == "planF":
                # exact tie of a planner with the Fitter model plugged in (no recorded answers): step list, final document
                # and the number of times the Fitter was consulted
                _, name, st, steps, final, nfit, fit_raised = exp
                ctx.count(f"planF_tie:{name}")
                if nfit:
                    ctx.count(f"planF_tie_fitter_consulted:{name}")
                if st == "ok":
                    got = out.get("ok")
                    if not isinstance(got, list) or got[0] != steps:
                        ctx.mismatch(f"planF({name}): step list", replay, steps, out)
                    elif got[1] != final:
                        ctx.mismatch(f"planF({name}): document after the planned steps", replay, "recorded document", "different document")
                    elif got[2] != nfit:
                        ctx.mismatch(f"planF({name}): Fitter consultations", replay, nfit, got[2])
                    else:
                        ctx.count(f"planF_tie_ok:{name}")
                        if nfit:
                            ctx.count(f"planF_tie_ok_fitter_consulted:{name}")
                            if any(s_[0] == "replaceAround" and not s_[-1] for s_ in steps):
                                ctx.count(f"planF_tie_ok_fitted_around:{name}")
                else:
                    # an exception out of Fitter.fit itself has no class in the Fitter model ("raises"); everything else
                    # (argument checks, fits_trivially, a step that does not apply) keeps its class
                    want = "raises" if fit_raised else st
                    if out.get("err") != want:
                        ctx.mismatch(f"planF({name}): outcome", replay, want, out)
                    else:
                        ctx.count(f"planF_tie_err:{name}:{want}")
                continue
            if isinstance(exp, tuple) and exp[0] == "plan":
                # exact tie of a planner: the emitted step list (in order) and the outcome of applying it
                _, name, st, steps, final = exp
                ctx.count(f"plan_tie:{name}")
                if st == "ok" and name not in ("add_mark", "remove_mark"):
                    got = out.get("ok")
                    if not isinstance(got, list) or got[0] != steps:
                        ctx.mismatch(f"plan({name}): step list", replay, steps, out)
                    elif got[1] != final:
                        ctx.mismatch(f"plan({name}): document after the planned steps", replay, "recorded document", "different document")
                    elif got[2] != 0:
                        ctx.mismatch(f"plan({name}): Fitter calls", replay, "every recorded Fitter answer is consumed", f"{got[2]} unused")
                    else:
                        ctx.count(f"plan_tie_steps:{name}", len(steps))
                        if len(steps) >= 2:
                            ctx.count(f"plan_tie_multi:{name}")
                elif st == "ok":
                    got = out.get("ok")
                    if not isinstance(got, list) or got[0] != steps:
                        ctx.mismatch(f"plan({name}): step list", replay, steps, out)
                    elif got[1].get("ok") != final:
                        ctx.mismatch(f"plan({name}): document after the planned steps", replay, "recorded document",
                                     got[1] if "err" in got[1] else "different document")
                    else:
                        ctx.count(f"plan_tie_steps:{name}", len(steps))
                        if len(steps) >= 2:
                            ctx.count(f"plan_tie_multi:{name}")
                else:
                    got = out.get("ok")
                    err = out.get("err") if got is None else (got[1].get("err") if isinstance(got, list) and isinstance(got[1], dict) else None)
                    if err != st:
                        ctx.mismatch(f"plan({name}): outcome", replay, st, out if got is None else got[1])
                continue
            if out.get("ok") != exp:
                ctx.mismatch("apply(emitted step)", replay, "recorded document", out if "err" in out else "different document")
        del reqs[:], metas[:]

    def plan_request(name, args, d, fit_log=()):
        """the driver request that runs the model's planner on the same arguments (None: planner not modelled)"""
        if name == "add_mark":
            f, t, m = args
            return {"op": "planAddMark", "s": info.lean_id, "doc": info.node(d), "from": f, "to": t, "mark": info.mark(m)}
        if name == "remove_mark":
            f, t, what = args
            sel = ["all"] if what is None else (["type", info.mid[what.name]] if isinstance(what, MarkType) else ["exact", info.mark(what)])
            return {"op": "planRemoveMark", "s": info.lean_id, "doc": info.node(d), "from": f, "to": t, "sel": sel}
        fits = [({"ok": None if r is None else info.step(r)} if k == "ok" else {"err": err_class(r)}) for k, r in fit_log]
        base = {"op": "planNodeOp", "s": info.lean_id, "doc": info.node(d), "kind": name, "fits": fits}
        if name == "add_node_mark":
            return dict(base, pos=args[0], mark=info.mark(args[1]))
        if name == "remove_node_mark":
            if isinstance(args[1], MarkType):
                return dict(base, pos=args[0], markType=info.mid[args[1].name])
            return dict(base, pos=args[0], mark=info.mark(args[1]))
        if name == "set_node_attribute":
            return dict(base, pos=args[0], name=args[1], value=jval(args[2]))
        if name == "set_node_markup":
            return dict(base, pos=args[0], type=info.nid[args[1].name], attrs=info.attrs(args[1], args[2]))
        if name == "set_block_type":
            return dict(base, **{"from": args[0], "to": args[1], "type": info.nid[args[2].name], "attrs": info.attrs(args[2], args[3])})
        if name == "clear_incompatible":
            return dict(base, pos=args[0], type=info.nid[args[1].name])
        return None

    def kept_requests(clear_log, replay):
        """one `retypedChildren` request per completed clear_incompatible call on a node with content that did not need
        the Fitter (the hypothesis `fits = []` of clearIncompatible_spec)"""
        for (before, pty, match, after, nfit) in clear_log:
            if before is None or after is None or before.is_leaf or match is not None:
                ctx.count("kept_tie_skipped:leaf_or_no_node")
                continue
            if nfit:
                ctx.count("kept_tie_skipped:fitter_called")
                continue
            old_kids = [info.node(before.child(i)) for i in range(before.child_count)]
            new_kids = [info.node(after.child(i)) for i in range(after.child_count)]
            tags = []
            if old_kids != new_kids:
                tags.append("children_changed")
            m_, dropped = pty.content_match, 0
            for i in range(before.child_count):
                m2 = m_.match_type(before.child(i).type)
                if m2 is None:
                    dropped += 1
                else:
                    m_ = m2
            if dropped:
                tags.append("child_dropped")
            if not m_.valid_end:
                tags.append("filled")
            if not pty.spec.get("code") and any(c.is_text and re.search(r"[\r\n]", c.text) for c in before.content.content):
                tags.append("newline_in_text")
            if any(any(not pty.allows_mark_type(mk.type) for mk in before.child(i).marks) for i in range(before.child_count)):
                tags.append("mark_not_allowed")
            if not before.is_textblock:
                tags.append("parent_not_textblock")
            reqs.append({"op": "retypedChildren", "s": info.lean_id, "node": info.node(before), "type": info.nid[pty.name]})
            metas.append((dict(replay, clear_incompatible={"node": before.to_json(), "type": pty.name}), ("kept", new_kids, tags)))

    def keeps_requests(clear_log2, replay):
        """for every clear_incompatible call on a node with content (match=None): the consultation prediction, and — for
        completed calls — the conclusion of clearIncompatibleF_keeps on the documents before / after"""
        from prosemirror.transform.replace_step import ReplaceAroundStep
        for (before, pty, match, doc_before, pos, doc_after, nfit, steps) in clear_log2:
            if before is None or before.is_leaf or match is not None:
                continue
            rp = dict(replay, clear_incompatible={"pos": pos, "node": before.to_json(), "type": pty.name})
            reqs.append({"op": "fillRequest", "s": info.lean_id, "node": info.node(before), "type": info.nid[pty.name]})
            metas.append((rp, ("fillreq", nfit, doc_after is not None)))
            if doc_after is None:
                continue
            around = any(isinstance(s_, ReplaceAroundStep) for s_ in steps)
            reqs.append({"op": "clearKeeps", "s": info.lean_id, "doc": info.node(doc_before), "after": info.node(doc_after),
                         "pos": pos, "type": info.nid[pty.name]})
            metas.append((rp, ("keeps", around, nfit)))

    fam = schemas.family()
    kinds = ["add_mark", "remove_mark", "add_node_mark", "remove_node_mark", "set_node_attribute",
             "set_block_type", "set_node_markup"]
    for si in range(ctx.budget(16, 70)):
        if len(reqs) >= 15000:
            flush()     # keep memory bounded in long runs
        bundled = si < len(fam) or rng.random() < 0.4
        info = fam[si % len(fam)] if bundled else schemas.random_schema(rng)
        aimed_ic = si >= len(fam) and (si - len(fam)) % 5 == 2
        if aimed_ic:
            # aimed: inline nodes *with content* whose allowed marks differ from their textblock's (no bundled schema has one);
            # only the mark operations are run here (the retyping operations meet the Fitter, whose behaviour on inline nodes
            # with content is outside the properties)
            bundled, info = False, schemas.inline_container_schema(rng)
            ctx.count("aimed_inline_container_schemas")
        schema = info.schema
        ctx.driver.add_schema(info)
        docs = [gen.gen_doc(rng, schema, budget=rng.choice([6, 12, 25])) for _ in range(ctx.budget(5, 10) - (4 if aimed_ic else 0))]
        marky = [x for x in (gen.gen_marky_doc(rng, schema) for _ in range(ctx.budget(2, 4))) if x is not None]
        docs = docs + marky
        planned = []
        kinds_here = [k_ for k_ in kinds if k_ not in ("set_block_type", "set_node_markup")] if aimed_ic else kinds
        for d in docs:
            for _ in range(ctx.budget(12, 30)):
                # documents made of varied mark runs get mostly range mark operations
                planned.append((d,) + tuple(ops.plan_op(rng, info, d, docs, ["add_mark", "remove_mark"] if any(d is x for x in marky) and rng.random() < 0.8 else kinds_here)))
        if gen.inline_containers(schema):
            # aimed: mark runs that continue from the text in front of an inline node with content over the node itself into
            # the text inside it and on behind it; ranges that cover the node, cut into it, or lie inside it
            for _ in range(ctx.budget(5, 12) if aimed_ic else ctx.budget(1, 3)):
                case = gen.gen_inline_container_case(rng, schema)
                if case is None:
                    break
                d0, ranges0, marks0 = case
                for _k in range(4):
                    (f0, t0), m0 = rng.choice(ranges0[:2] if rng.random() < 0.4 else ranges0), (marks0[0] if rng.random() < 0.5 else rng.choice(marks0))
                    r0 = rng.random()
                    if r0 < 0.4:
                        planned.append((d0, "add_mark", [f0, t0, m0], (lambda f0, t0, m0: lambda tr: tr.add_mark(f0, t0, m0))(f0, t0, m0)))
                    else:
                        w0 = m0 if r0 < 0.7 else (m0.type if r0 < 0.9 else None)
                        planned.append((d0, "remove_mark", [f0, t0, w0], (lambda f0, t0, w0: lambda tr: tr.remove_mark(f0, t0, w0))(f0, t0, w0)))
                    ctx.count("aimed_inline_container_mark_ops")
        for _ in range(ctx.budget(1, 3)):
            # aimed: adjacent text nodes carrying marks of one type with different attributes; a further mark of that type
            # added over the run, the type / one of the marks / everything removed from it
            case = gen.gen_same_type_run_case(rng, schema)
            if case is None:
                break
            d0, f0, t0, m0, present0 = case
            planned.append((d0, "add_mark", [f0, t0, m0], (lambda f0, t0, m0: lambda tr: tr.add_mark(f0, t0, m0))(f0, t0, m0)))
            w0 = rng.choice([m0.type, None, rng.choice(present0)])
            planned.append((d0, "remove_mark", [f0, t0, w0], (lambda f0, t0, w0: lambda tr: tr.remove_mark(f0, t0, w0))(f0, t0, w0)))
            ctx.count("aimed_same_type_run_cases")
        for _ in range(ctx.budget(4, 10)):
            # aimed: add a mark over nodes that carry a mark it excludes, some of which cannot take it
            case = gen.gen_exclusion_case(rng, schema)
            if case is not None:
                d0, f0, t0, m0 = case
                planned.append((d0, "add_mark", [f0, t0, m0], (lambda f0, t0, m0: lambda tr: tr.add_mark(f0, t0, m0))(f0, t0, m0)))
                ctx.count("aimed_exclusion_cases")
        for _ in range(ctx.budget(2, 5)):
            # aimed: add a mark whose blocker sits behind an unrelated mark of intermediate rank (private random stream)
            case = gen.gen_blocked_behind_case(__import__("random").Random(ctx.seed * 104729 + si * 31 + _), schema)
            if case is not None:
                d0, f0, t0, m0 = case
                planned.append((d0, "add_mark", [f0, t0, m0], (lambda f0, t0, m0: lambda tr: tr.add_mark(f0, t0, m0))(f0, t0, m0)))
                ctx.count("aimed_blocked_behind_cases")
        needy = [x for x in schema.nodes.values() if x.is_textblock and not x.content_match.valid_end]
        if needy:
            # aimed: retyping whole documents to a textblock type whose content must not be empty — an emptied or empty block
            # gets fillers, and where the block's old type cannot hold them the Fitter places them (private random stream)
            rng_needy = __import__("random").Random(ctx.seed * 7919 + si)
            for d0 in docs[:ctx.budget(4, 8)]:
                t0 = rng_needy.choice(needy)
                a0 = gen.gen_attrs(rng_needy, t0)
                planned.append((d0, "set_block_type", [0, d0.content.size, t0, a0],
                                (lambda e0, t0, a0: lambda tr: tr.set_block_type(0, e0, t0, a0))(d0.content.size, t0, a0)))
                ctx.count("aimed_needy_retype_cases")
            for x0 in [x for x in schema.nodes.values() if x.is_textblock][:6]:
                # … and a document holding one (filled-to-valid) block of each textblock type
                try:
                    b0 = x0.create_and_fill()
                    d0 = schema.top_node_type.create_checked(None, [b0]) if b0 is not None else None
                except Exception:  # noqa: BLE001
                    d0 = None
                if d0 is None:
                    continue
                t0 = rng_needy.choice(needy)
                a0 = gen.gen_attrs(rng_needy, t0)
                planned.append((d0, "set_block_type", [0, d0.content.size, t0, a0],
                                (lambda e0, t0, a0: lambda tr: tr.set_block_type(0, e0, t0, a0))(d0.content.size, t0, a0)))
                ctx.count("aimed_needy_retype_cases")
        for d in ([] if aimed_ic else docs):
            # clear_incompatible called directly on any node and any type (the operation is public; set_block_type only
            # ever calls it on textblocks): tied like the other planners, and through `retypedChildren`
            # (addressed at a *text* node the operation works at `pos + 1`, one unit into the text: where that falls between the
            # halves of a surrogate pair the request is outside the pair-alignment guard of the model — code and model both
            # refuse it, but not necessarily with the same exception first — and is left out)
            starts = [p for p in gen.node_starts(d) if gen.pair_aligned(d, p + 1)]
            for _ in range(ctx.budget(3, 6)):
                if not starts:
                    break
                p0, t0 = rng.choice(starts), rng.choice(list(schema.nodes.values()))
                planned.append((d, "clear_incompatible", [p0, t0], (lambda p0, t0: lambda tr: tr.clear_incompatible(p0, t0))(p0, t0)))
        _CLEAR_ON[0] = True
        for (d, name, args, thunk) in planned:
            for _once in (0,):
                if ctx.time_left() < 0:
                    break
                tr = Transform(d)
                del _FIT_LOG[:]
                del _CLEAR_LOG[:]
                del _CLEAR_LOG2[:]
                old_before = doc_tokens(d)      # the token picture of the input, taken before the operation runs
                st, val, added = ops.run_op(tr, thunk)
                fit_log = list(_FIT_LOG)
                replay = {"schema": info.name, "doc": d.to_json(), **ops.describe(name, args)}
                if info.name == "random":
                    replay["_sid"] = info.lean_id     # lets a mismatch found after the batch name its schema (core.Ctx.mismatch)
                ctx.case([name, info.name, d.to_json(), ops.describe(name, args)["args"]], nontrivial=added > 0,
                         sample={"op": name, "schema": info.name, "args": ops.describe(name, args)["args"], "outcome": st, "steps": added})
                ctx.count(f"{name}:{st}")
                preq = plan_request(name, args, d, fit_log) if st != "hang" else None
                if preq is not None:
                    if fit_log:
                        ctx.count(f"plan_fitter_calls:{name}", len(fit_log))
                    if name == "set_block_type" and st == "ok":
                        for s_ in tr.steps:
                            js = info.step(s_)
                            kind = js[0] if js[0] != "replace" else ("replace:delete" if not js[3][0] else
                                                                    ("replace:newline" if js[2] > js[1] else "replace:fill"))
                            ctx.count(f"set_block_type_step:{kind}")
                    if name == "add_mark" and st == "ok" and added > 0:
                        # hypothesis of planAddMark_exact: no inline node with content is visited
                        nonflat = []
                        d.nodes_between(args[0], args[1], lambda n, p, par, i: nonflat.append(p) if n.is_inline and not n.is_leaf else None)
                        ctx.count("add_mark:flat_range" if not nonflat else "add_mark:inline_node_with_content_in_range")
                    reqs.append(preq)
                    metas.append((replay, ("plan", name, st, [info.step(s) for s in tr.steps] if st == "ok" else None,
                                           info.node(tr.doc) if st == "ok" else None)))
                    if name == "set_block_type":
                        reqs.append({"op": "plainType", "s": info.lean_id, "type": info.nid[args[2].name]})
                        metas.append((replay, ("plain", plain_inline(args[2]), len(fit_log))))
                    if bundled and name in ("set_node_markup", "set_block_type", "clear_incompatible"):
                        # the same planner with the Fitter *model* plugged in (lean/PM/TypePlanFit.lean): no recorded answers
                        # are sent; the Fitter model is tied exactly on the bundled-family schemas (C11)
                        freq = {k_: v_ for k_, v_ in preq.items() if k_ != "fits"}
                        freq["op"] = "planNodeOpF"
                        reqs.append(freq)
                        metas.append((replay, ("planF", name, st, [info.step(s) for s in tr.steps] if st == "ok" else None,
                                               info.node(tr.doc) if st == "ok" else None, len(fit_log),
                                               bool(fit_log) and fit_log[-1][0] == "err" and st != "ok")))
                if st != "hang":
                    kept_requests(list(_CLEAR_LOG), replay)
                    keeps_requests(list(_CLEAR_LOG2), replay)
                if name == "clear_incompatible":
                    continue    # no property statement of its own: the direct calls only feed the two ties above
                if st in ("internal", "hang"):
                    ctx.violation(name + "-internal", f"{name} died with an internal error: {val}", replay)
                    continue
                if st != "ok":
                    if name == "set_block_type" and plain_inline(args[2]):
                        # an ordinary textblock type (any inline content in any order, possibly empty) and in-range,
                        # pair-aligned positions: nothing may be rejected.  (Types that need a particular first child or at
                        # least one child can make the documented algorithm give up with a TransformError; the property
                        # does not promise success there.)
                        ctx.violation("set_block_type-raises", f"set_block_type raised {val}", replay)
                    continue
                old, new = old_before, doc_tokens(tr.doc)
                if doc_tokens(d) != old_before:
                    ctx.violation(name, f"{name}: the document the operation started from changed (nodes other than the addressed one share what was edited)",
                                  dict(replay, before=str(old_before)[:400], after=str(doc_tokens(d))[:400]))
                # model: every emitted step applied to the recorded document before it gives the recorded document after it
                for k, s in enumerate(tr.steps):
                    nxt = tr.docs[k + 1] if k + 1 < len(tr.docs) else tr.doc
                    reqs.append({"op": "apply", "s": info.lean_id, "doc": info.node(tr.docs[k]), "step": info.step(s)})
                    metas.append((replay, info.node(nxt)))
                bad = None
                if name == "add_mark":
                    f, t, m = args
                    key = (m.type.name, jval(dict(m.attrs)))
                    ctxs = contexts(old, d.type.name)
                    if [shape(x) for x in new] != [shape(x) for x in old]:
                        bad = "structure or text changed"
                    else:
                        for i, (a, b) in enumerate(zip(old, new)):
                            pt = schema.nodes[ctxs[i]]
                            qualifies = f <= i < t and is_atom(schema, a) and (pt.mark_set is None or m.type in pt.mark_set)
                            want = ref_add(schema, key, marks_of(a)) if qualifies else marks_of(a)
                            if a[0] in ("op", "leaf") and is_inline(schema, a) and not is_atom(schema, a):
                                continue   # inline non-atoms: the step deliberately skips them; not pinned
                            if tuple(marks_of(b)) != tuple(want):
                                bad = f"token {i}: marks {marks_of(b)} expected {want}"
                                break
                elif name == "remove_mark":
                    f, t, what = args
                    if [shape(x) for x in new] != [shape(x) for x in old]:
                        bad = "structure or text changed"
                    else:
                        for i, (a, b) in enumerate(zip(old, new)):
                            ms = marks_of(a)
                            if f <= i < t and is_inline(schema, a):
                                if what is None:
                                    want = ()
                                elif isinstance(what, MarkType):
                                    want = tuple(x for x in ms if x[0] != what.name)
                                else:
                                    k_ = (what.type.name, jval(dict(what.attrs)))
                                    want = tuple(x for x in ms if x != k_)
                            else:
                                want = ms
                            if tuple(marks_of(b)) != tuple(want):
                                bad = f"token {i}: marks {marks_of(b)} expected {want}"
                                break
                elif name in ("add_node_mark", "remove_node_mark", "set_node_attribute"):
                    pos = args[0]
                    if len(new) != len(old):
                        bad = "size changed"
                    else:
                        for i, (a, b) in enumerate(zip(old, new)):
                            if i != pos and a != b:
                                bad = f"token {i} changed although only the node at {pos} was addressed"
                                break
                            if i == pos and shape(a) != shape(b):
                                bad = "the addressed node changed type"
                elif name == "set_node_markup":
                    pos = args[0]
                    n = gen.safe_node_at(d, pos)
                    if n is not None and not n.is_leaf and added > 0 and not args[1].is_leaf:
                        inner_old = old[pos + 1:pos + n.node_size - 1]
                        inner_new = new[pos + 1:pos + n.node_size - 1]
                        if len(new) != len(old) or inner_old != inner_new or old[:pos] != new[:pos] or old[pos + n.node_size:] != new[pos + n.node_size:]:
                            bad = "children or surroundings of the retyped node changed"
                elif name == "set_block_type":
                    bad = retype_children_problem(d, tr.doc, args[2])
                if bad is None and name == "set_block_type" and bundled:
                    ty = args[2]
                    allows_text = ty.content_match.match_type(schema.nodes["text"]) is not None
                    if allows_text:
                        if norm_nl([x[1] for x in old if x[0] == "u"]) != norm_nl([x[1] for x in new if x[0] == "u"]):
                            bad = "text content changed by retyping (beyond newline -> space)"
                if bad is None:
                    stc, err = outcome(tr.doc.check)
                    if stc != "ok":
                        bad = f"result fails check(): {err}"
                if bad:
                    ctx.violation(name, f"{name}: {bad}", dict(replay, result=tr.doc.to_json()))
    _CLEAR_ON[0] = False
    flush()
    return ctx.finish(
        rule="a case is (schema, document, one mark/attribute/retype operation of Transform with random arguments); bundled-family "
             "and random schemas with arbitrary exclusion relations; non-trivial = the operation emitted at least one step")


if __name__ == "__main__":
    core.main("C13", run)
