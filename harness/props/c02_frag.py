"""C02 / C09 — the `Fragment` object: constructors and copy-on-write operations (lean/PM/FragOps.lean, theorems in the
section "fragment constructors" of lean/Props/C02.lean and "fragment accessors" of lean/Props/C09.lean).

The documents every other check works on are built by the harness itself (its own text merging) or by `from_json`
(no merging at all), so a defect in `Fragment.from_array` / `append` / `replace_child` … that loses or duplicates text,
or leaves the cached `size` stale, was visible to no check.  Here the real constructors are called on generated node
arrays: runs of 1–4 adjacent text nodes with equal / different mark sets (astral characters included), mixed with
inline leaves, blocks and whole subtrees taken from generated documents.

Tie (exact): the resulting fragment as `{content, stored size}` (or the exception class) against the model, for
from_array, from_, append, cut, cut_by_index, replace_child, add_to_start, add_to_end, child / maybe_child /
first_child / last_child / child_count (negative indices included), eq, find_index (both roundings, positions outside
included) — on well-formed fragments and on fragments built with a deliberately wrong `size` argument (the constructor
takes it on trust; the model carries the stored size as a field of its own).

Oracles (computed by the harness from `to_json()` output with the tokenizer of harness/codec.py, independent of the model):
tokens(from_array(l)) = concatenation of tokens(l); stored size = number of tokens = sum of the input sizes; no two
adjacent same-markup text children remain; child_count = #inputs − #joins; the JSON equals the harness's own
reference join; append = concatenation of the token sequences, sizes add, normal-form operands give a normal-form
result; replace_child / add_to_start / add_to_end splice the token sequence; the theorems' statements, in other words.
"""
from prosemirror.model import Fragment, Mark, Slice
from prosemirror.transform import Transform

from .. import gen
from ..codec import node_tokens, doc_tokens
from ..core import outcome


# ---------------------------------------------------------------------------------------------- reference notions
def toks_of_nodes(schema, nodes):
    out = []
    for n in nodes:
        node_tokens(schema, n.to_json(), out)
    return out


def ref_join(jsons):
    """the harness's own join of adjacent same-markup text (on node JSON)"""
    out = []
    for j in jsons:
        if out and j["type"] == "text" and out[-1]["type"] == "text" and out[-1].get("marks") == j.get("marks"):
            out[-1] = dict(out[-1], text=out[-1]["text"] + j["text"])
        else:
            out.append(j)
    return out


def top_norm(jsons):
    return all(not (a["type"] == "text" and b["type"] == "text" and a.get("marks") == b.get("marks"))
               for a, b in zip(jsons, jsons[1:]))


def jsons(nodes):
    return [n.to_json() for n in nodes]


def fobj(info, fr):
    """wire form of a Fragment object: content and the *stored* size"""
    return {"content": info.frag(fr), "size": fr.size}


def sizes_ok(schema, fr):
    """stored size = recomputed size = token count"""
    return fr.size == sum(c.node_size for c in fr.content) == len(toks_of_nodes(schema, fr.content))


# ---------------------------------------------------------------------------------------------- generators
def mark_palette(rng, schema):
    """a few distinct canonical mark sets (the empty one first)"""
    pal = [Mark.none]
    tb = [t for t in schema.nodes.values() if t.is_textblock]
    if schema.marks and tb:
        for _ in range(6):
            ms = gen.gen_marks(rng, schema, rng.choice(tb), p=1.0)
            if not any(Mark.same_set(ms, p) for p in pal):
                pal.append(ms)
            if len(pal) >= 4:
                break
    return pal


def node_pool(docs):
    """non-text nodes (leaves, blocks, whole subtrees) of the generated documents"""
    pool = []
    for d in docs:
        def it(node, pos, parent, index, pool=pool):
            if not node.is_text:
                pool.append(node)
            return True
        d.descendants(it)
    return pool


def gen_array(rng, schema, palette, pool, empty_ok):
    """a node array: runs of 1–4 adjacent text nodes (equal marks within a run with probability 0.6, otherwise drawn
    per node — so equal and different neighbours both occur), separated by 0–2 non-text nodes or by nothing (two runs
    meeting: same or different marks)"""
    arr = []
    for _ in range(rng.randint(1, 4)):
        r = rng.random()
        if r < 0.75:
            run_marks = rng.choice(palette)
            same = rng.random() < 0.6
            for _ in range(rng.randint(1, 4)):
                ms = run_marks if same else rng.choice(palette)
                if empty_ok and rng.random() < 0.15:
                    s = ""
                else:
                    s = gen.gen_text(rng, 1, 3)
                arr.append(schema.text(s, ms))
        if pool and rng.random() < 0.6:
            for _ in range(rng.randint(1, 2)):
                arr.append(rng.choice(pool))
    return arr


# ---------------------------------------------------------------------------------------------- requests
def _req(reqs, metas, op, req, replay, st, val):
    reqs.append(dict(req, op=op))
    metas.append(("fo", op, replay, (st, val)))


def compare(ctx, meta, out):
    _, op, replay, (st, val) = meta
    ctx.count("frag-tie:" + op)
    if "bad" in out:
        ctx.mismatch(op, replay, st, out)
        return
    if st == "ok":
        if "ok" not in out or out["ok"] != val:
            ctx.mismatch(op, replay, {"ok": val}, out)
    else:
        want = {"failed": "failed", "valueError": "valueError"}.get(st, "internal")
        if out.get("err") != want:
            ctx.mismatch(op, replay, st, out)


def frag_result(info, st, v):
    return fobj(info, v) if st == "ok" else None


def check_from_array(ctx, info, arr, reqs, metas):
    schema = info.schema
    replay = {"schema": info.name, "array": jsons(arr)}
    st, fr = outcome(lambda: Fragment.from_array(list(arr)))
    runs = sum(1 for a, b in zip(arr, arr[1:]) if a.is_text and b.is_text and Mark.same_set(a.marks, b.marks))
    ctx.case(["from_array", info.name, replay["array"]], nontrivial=len(arr) > 1,
             sample={"op": "Fragment.from_array", "schema": info.name, "array": str(arr)[:200]})
    ctx.count("from_array:joins_%s" % (runs if runs < 3 else "3+"))
    longest = cur = 0
    for a, b in zip(arr, arr[1:]):
        cur = cur + 1 if (a.is_text and b.is_text and Mark.same_set(a.marks, b.marks)) else 0
        longest = max(longest, cur)
    if longest >= 2:
        ctx.count("from_array:run_of_3_or_more")
    if st != "ok":
        ctx.violation("frag-from-array-raises", f"Fragment.from_array raised {fr}", replay)
    else:
        got = toks_of_nodes(schema, fr.content)
        exp = toks_of_nodes(schema, arr)
        bad = None
        if got != exp:
            bad = "tokens of from_array(l) are not the concatenation of the tokens of l"
        elif fr.size != len(exp) or not sizes_ok(schema, fr):
            bad = f"stored size {fr.size} is not the size of the content ({len(got)} tokens)"
        elif not top_norm(jsons(fr.content)):
            bad = "adjacent same-markup text nodes remain"
        elif fr.child_count != len(arr) - runs:
            bad = f"child_count {fr.child_count} is not #inputs - #joins = {len(arr) - runs}"
        elif jsons(fr.content) != ref_join(jsons(arr)):
            bad = "result differs from the reference join"
        if bad:
            ctx.violation("frag-from-array", bad, dict(replay, result=jsons(fr.content), stored_size=fr.size))
        # idempotence
        st2, fr2 = outcome(lambda: Fragment.from_array(list(fr.content)))
        if st2 != "ok" or jsons(fr2.content) != jsons(fr.content) or fr2.size != fr.size:
            ctx.violation("frag-from-array-idem", "from_array of a from_array result changes it", replay)
    _req(reqs, metas, "foFromArray", {"array": [info.node(n) for n in arr]}, replay, st, frag_result(info, st, fr))
    return fr if st == "ok" else None


def check_from(ctx, info, arr, fr, reqs, metas, rng):
    replay = {"schema": info.name, "array": jsons(arr)}
    variants = [("none", None, None), ("list", list(arr), [info.node(n) for n in arr]),
                ("list", tuple(arr), [info.node(n) for n in arr]), ("list", [], []),
                ("node", arr[0], info.node(arr[0]))]
    if fr is not None:
        variants.append(("frag", fr, fobj(info, fr)))
    kind, arg, wire = rng.choice(variants)
    st, v = outcome(lambda: Fragment.from_(arg))
    ctx.count("from_:" + kind)
    if st == "ok":
        exp = [] if kind == "none" else list(fr.content) if kind == "frag" else [arg] if kind == "node" else list(arg)
        if toks_of_nodes(info.schema, v.content) != toks_of_nodes(info.schema, exp) or not sizes_ok(info.schema, v):
            ctx.violation("frag-from", "Fragment.from_ changes the token sequence or stores a wrong size",
                          dict(replay, kind=kind, result=jsons(v.content), stored_size=v.size))
    else:
        ctx.violation("frag-from-raises", f"Fragment.from_ raised {v}", dict(replay, kind=kind))
    req = {"kind": kind}
    if kind != "none":
        req["arg"] = wire
    _req(reqs, metas, "foFrom", req, dict(replay, kind=kind), st, frag_result(info, st, v))


def stale(rng, fr):
    """the same content with a wrong stored size (the constructor does not check)"""
    size = max(0, fr.size + rng.choice([-2, -1, 1, 2, 5])) if rng.random() < 0.8 else 0
    return Fragment(list(fr.content), size)


def check_accessors(ctx, info, a, reqs, metas, rng, wf=True, base=None):
    """child / maybe_child / first_child / last_child / child_count and find_index of one Fragment object (also run by
    C09 on the content of the nodes of generated documents)"""
    schema = info.schema
    ja = jsons(a.content)
    if base is None:
        base = {"schema": info.name, "a": ja, "a_size": a.size}
    ta = toks_of_nodes(schema, a.content)
    A = fobj(info, a)
    tag = "" if wf else ":stale"
    n = len(a.content)
    # ---- child / maybe_child / first_child / last_child / child_count
    for i in rng.sample(range(-n - 2, n + 2), min(3, 2 * n + 4)):
        stc, c = outcome(lambda: a.child(i))
        stm, m = outcome(lambda: a.maybe_child(i))
        ctx.count("child:%s:%s" % ("neg" if i < 0 else "nonneg", "ok" if stc == "ok" else "raises"))
        if stm != "ok":
            ctx.violation("frag-maybe-child-raises", f"maybe_child raised {m}", dict(base, index=i))
            continue
        # what the accessors must do (independent of the model)
        if (m is not None) != (0 <= i < n) or (m is not None and m is not a.content[i]):
            ctx.violation("frag-maybe-child", "maybe_child(i) is not the i-th child for 0 <= i < child_count and None otherwise",
                          dict(base, index=i))
        if (stc == "ok") != (-n <= i < n):
            ctx.count("child-outcome-unexpected")
        enc = lambda x: None if x is None else info.node(x)
        val = [{"ok": info.node(c)} if stc == "ok" else {"err": "internal" if stc not in ("failed", "valueError") else stc},
               enc(m), enc(a.first_child), enc(a.last_child), a.child_count]
        _req(reqs, metas, "foChildren", {"f": A, "index": i}, dict(base, fn="child", index=i), "ok", val)
    # ---- find_index
    for _ in range(3):
        pos = rng.randint(-1, len(ta) + 2)
        rnd = rng.choice([-1, -1, 1, 0])
        st, r = outcome(lambda: a.find_index(pos, rnd))
        ctx.count("find_index%s:%s" % (tag, st))
        if wf and st == "ok":
            off = sum(c.node_size for c in a.content[:r["index"]])
            inside = r["offset"] == off and (off <= pos if rnd <= 0 else off >= pos or pos == 0)
            if not inside:
                ctx.violation("frag-find-index", "find_index offset is not the start of the indexed child on the right side of pos",
                              dict(base, pos=pos, round=rnd, got=r))
        elif wf and 0 <= pos <= len(ta):
            ctx.violation("frag-find-index-raises", f"find_index raised {r} on a position inside", dict(base, pos=pos, round=rnd))
        _req(reqs, metas, "foFindIndex", {"f": A, "pos": pos, "round": rnd}, dict(base, fn="find_index", pos=pos, round=rnd),
             st, [r["index"], r["offset"]] if st == "ok" else None)


def check_ops(ctx, info, a, b, node, reqs, metas, rng, wf=True):
    """a, b: Fragment objects (well-formed when `wf`, else possibly with a wrong stored size: tie only)"""
    schema = info.schema
    ja, jb = jsons(a.content), jsons(b.content)
    base = {"schema": info.name, "a": ja, "a_size": a.size, "b": jb, "b_size": b.size}
    ta, tb = toks_of_nodes(schema, a.content), toks_of_nodes(schema, b.content)
    A, B = fobj(info, a), fobj(info, b)
    tag = "" if wf else ":stale"
    if not wf:
        ctx.count("stale-cache-cases")
    # ---- append
    st, r = outcome(lambda: a.append(b))
    ctx.case(["append", info.name, ja, a.size, jb, b.size], nontrivial=bool(a.content and b.content))
    seam = bool(a.content and b.content and a.content[-1].is_text and b.content[0].is_text
                and Mark.same_set(a.content[-1].marks, b.content[0].marks))
    ctx.count("append:%s%s" % ("seam-join" if seam else "plain", tag))
    if wf:
        if st != "ok":
            ctx.violation("frag-append-raises", f"Fragment.append raised {r}", base)
        else:
            bad = None
            if toks_of_nodes(schema, r.content) != ta + tb:
                bad = "tokens of a.append(b) are not tokens(a) + tokens(b)"
            elif r.size != a.size + b.size or not sizes_ok(schema, r):
                bad = f"stored size {r.size} of a.append(b) is wrong"
            elif top_norm(ja) and top_norm(jb) and not top_norm(jsons(r.content)):
                bad = "append of two normal-form fragments is not in normal form"
            if bad:
                ctx.violation("frag-append", bad, dict(base, result=jsons(r.content), stored_size=r.size))
    _req(reqs, metas, "foAppend", {"a": A, "b": B}, dict(base, fn="append"), st, frag_result(info, st, r))
    n = len(a.content)
    # ---- replace_child (every index from below -len to above len: Python's wrap-around)
    for i in rng.sample(range(-n - 2, n + 2), min(3, 2 * n + 4)):
        st, r = outcome(lambda: a.replace_child(i, node))
        ctx.count("replace_child:%s%s" % ("neg" if i < 0 else "nonneg", tag) + ":" + ("ok" if st == "ok" else "raises"))
        if wf and st == "ok":
            k = i if i >= 0 else n + i
            exp = toks_of_nodes(schema, list(a.content[:k]) + [node] + list(a.content[k + 1:]))
            if toks_of_nodes(schema, r.content) != exp or not sizes_ok(schema, r):
                ctx.violation("frag-replace-child", "replace_child is not a splice of the token sequence, or stores a wrong size",
                              dict(base, index=i, node=node.to_json(), result=jsons(r.content), stored_size=r.size))
        elif wf and -n <= i < n:
            ctx.violation("frag-replace-child-raises", f"replace_child raised {r} on an index in range", dict(base, index=i))
        _req(reqs, metas, "foReplaceChild", {"f": A, "index": i, "node": info.node(node)},
             dict(base, fn="replace_child", index=i, node=node.to_json()), st, frag_result(info, st, r))
    # ---- add_to_start / add_to_end
    for fn, op, exp in (("add_to_start", "foAddToStart", lambda: toks_of_nodes(schema, [node]) + ta),
                        ("add_to_end", "foAddToEnd", lambda: ta + toks_of_nodes(schema, [node]))):
        st, r = outcome(lambda: getattr(a, fn)(node))
        if wf and (st != "ok" or toks_of_nodes(schema, r.content) != exp() or not sizes_ok(schema, r)):
            ctx.violation("frag-" + fn, fn + " is not a splice of the token sequence, or stores a wrong size",
                          dict(base, node=node.to_json(), outcome=st))
        _req(reqs, metas, op, {"f": A, "node": info.node(node)}, dict(base, fn=fn, node=node.to_json()), st,
             frag_result(info, st, r))
    # ---- cut_by_index (slices clamp; None = to the end)
    for _ in range(2):
        f_ = rng.randint(-n - 2, n + 2)
        t_ = rng.choice([None, n, rng.randint(-n - 2, n + 2), rng.randint(0, n + 1)])
        st, r = outcome(lambda: a.cut_by_index(f_, t_))
        ctx.count("cut_by_index%s" % tag)
        if st == "ok" and wf and 0 <= f_ and (t_ is None or f_ <= t_ <= n):
            hi = n if t_ is None else t_
            if toks_of_nodes(schema, r.content) != toks_of_nodes(schema, a.content[f_:hi]) or not sizes_ok(schema, r):
                ctx.violation("frag-cut-by-index", "cut_by_index does not keep exactly the children of the index range",
                              dict(base, **{"from": f_, "to": t_}))
        _req(reqs, metas, "foCutByIndex", {"f": A, "from": f_, "to": t_}, dict(base, fn="cut_by_index", **{"from": f_, "to": t_}),
             st, frag_result(info, st, r))
    # ---- cut (positions; beyond the end included)
    for _ in range(2):
        f_ = rng.randint(0, len(ta) + 1)
        t_ = rng.choice([None, rng.randint(0, len(ta) + 1), len(ta)])
        st, r = outcome(lambda: a.cut(f_, t_))
        ctx.count("cut%s:%s" % (tag, st))
        _req(reqs, metas, "foCut", {"f": A, "from": f_, "to": t_}, dict(base, fn="cut", **{"from": f_, "to": t_}),
             st, frag_result(info, st, r))
    check_accessors(ctx, info, a, reqs, metas, rng, wf, base)
    # ---- eq
    others = [b, Fragment(list(a.content), a.size + 3), Fragment.from_json(schema, ja) if ja else Fragment.empty]
    if a.content:
        others.append(a.replace_child(rng.randrange(n), node))
    for o in others:
        st, r = outcome(lambda: a.eq(o))
        if st == "ok":
            if r != (ja == jsons(o.content)):
                ctx.violation("frag-eq", "Fragment.eq differs from equality of the JSON forms", dict(base, other=jsons(o.content)))
            ctx.count("eq:%s" % r)
        _req(reqs, metas, "foEq", {"a": A, "b": fobj(info, o)}, dict(base, fn="eq", other=jsons(o.content)), st,
             r if st == "ok" else None)


# ---------------------------------------------------------------------------------------------- through Transform
def check_insert(ctx, info, d, toks, reqs, metas, rng, palette):
    """`Transform.insert(pos, [nodes])` / `replace_with(pos, pos, [nodes])` with a run of adjacent text nodes: the list
    goes through `Fragment.from_`; the result must be the splice of the nodes' tokens, and equal the model's `replace`
    with the *harness-joined* slice"""
    schema = info.schema
    got = gen.multi_text_insert(rng, schema, d)
    if got is None:
        return
    p, nodes = got
    if not gen.pair_aligned(d, p):
        ctx.count("insert-texts:inside-a-surrogate-pair")
        return
    if rng.random() < 0.5 and len(palette) > 1:
        # a second run with another mark set allowed at the position, when there is one
        try:
            r = d.resolve(p)
            allowed = [ms for ms in palette if all(r.parent.type.allows_mark_type(m.type) for m in ms)]
        except Exception:  # noqa: BLE001
            allowed = []
        if allowed:
            ms = rng.choice(allowed)
            nodes = nodes + [schema.text(gen.gen_text(rng, 1, 2), ms) for _ in range(rng.randint(1, 3))]
    fn = rng.choice(["insert", "replace_with"])
    st, tr = outcome(lambda: Transform(d).insert(p, list(nodes)) if fn == "insert" else Transform(d).replace_with(p, p, list(nodes)))
    replay = {"schema": info.name, "doc": d.to_json(), "pos": p, "nodes": jsons(nodes), "fn": fn}
    ctx.case(["insert-texts", info.name, d.to_json(), p, replay["nodes"]])
    ctx.count("insert-texts:" + st)
    if st != "ok":
        return
    res = tr.doc
    exp = toks[:p] + toks_of_nodes(schema, nodes) + toks[p:]
    if doc_tokens(res) != exp or res.content.size != len(exp):
        ctx.violation("insert-texts", f"Transform.{fn}(pos, [adjacent text nodes]) is not the splice of the nodes' tokens",
                      dict(replay, result=res.to_json(), size=res.content.size))
    # model: replace with the reference-joined closed slice
    joined = Fragment.from_json(schema, ref_join(jsons(nodes)))
    sl = Slice(joined, 0, 0)
    reqs.append({"op": "replace", "s": info.lean_id, "doc": info.node(d), "from": p, "to": p, "slice": info.slice(sl)})
    metas.append(("replace", info, d, (p, p, sl), ("ok", info.node(res))))


# ---------------------------------------------------------------------------------------------- entry
def run(ctx, pools, reqs, metas, flush):
    rng = ctx.rng
    n_arr = ctx.budget(16, 60)
    for info, docs in pools:
        schema = info.schema
        if "text" not in schema.nodes:
            continue
        st_e, _ = outcome(lambda: schema.text("", Mark.none))
        empty_ok = st_e == "ok"
        ctx.count("empty-text-node:" + ("accepted" if empty_ok else "refused"))
        palette = mark_palette(rng, schema)
        pool = node_pool(docs)
        frs = []
        for _ in range(n_arr):
            if ctx.time_left() < 0:
                break
            arr = gen_array(rng, schema, palette, pool, empty_ok)
            if not arr:
                continue
            fr = check_from_array(ctx, info, arr, reqs, metas)
            check_from(ctx, info, arr, fr, reqs, metas, rng)
            if fr is not None:
                frs.append(fr)
            # the unjoined list as a fragment of its own (`Fragment(list)`: nothing is joined) for the operations
            frs.append(Fragment(list(arr)))
        for k in range(len(frs)):
            if ctx.time_left() < 0:
                break
            a = frs[k]
            b = rng.choice(frs) if rng.random() < 0.85 else Fragment.empty
            node = rng.choice(pool) if pool and rng.random() < 0.5 else schema.text(gen.gen_text(rng, 1, 3), rng.choice(palette))
            check_ops(ctx, info, a, b, node, reqs, metas, rng, wf=True)
            if rng.random() < 0.3:
                check_ops(ctx, info, stale(rng, a), stale(rng, b) if rng.random() < 0.5 else b, node, reqs, metas, rng, wf=False)
        for d in docs:
            check_insert(ctx, info, d, doc_tokens(d), reqs, metas, rng, palette)
        if len(reqs) >= 15000:
            flush()


def run_accessors(ctx, info, docs, reqs, metas):
    """C09: the accessors on the content of every node of the generated documents (and on a copy with a wrong stored size)"""
    rng = ctx.rng
    for d in docs:
        frs = [d.content]

        def it(node, pos, parent, index, frs=frs):
            if not node.is_leaf and node.content.child_count:
                frs.append(node.content)
            return True
        d.descendants(it)
        for fr in rng.sample(frs, min(len(frs), 4)):
            ctx.case(["frag-accessors", info.name, jsons(fr.content)], nontrivial=fr.child_count > 0)
            check_accessors(ctx, info, fr, reqs, metas, rng, wf=True)
            if rng.random() < 0.25:
                ctx.count("stale-cache-cases")
                check_accessors(ctx, info, stale(rng, fr), reqs, metas, rng, wf=False)
