"""C05 — JSON serialisation of documents, slices, marks and steps is lossless.

Tie: exact correspondence of to_json (after a real json.dumps/json.loads) and from_json for nodes,
fragments, slices, marks and the eight step kinds with lean/PM/Json.lean.
Search: round trip through real JSON text gives an equal object, identical JSON again, and — for
steps — the identical effect and position map; the JSON does not alias live attribute objects; the
registry decodes every built-in step type by its published name.
"""
import copy
import json

from prosemirror.model import Fragment, Mark, Node, Slice
from prosemirror.transform import Step
from prosemirror.transform.step import STEPS_BY_ID

from .. import core, gen, schemas
from ..core import outcome

PUBLISHED = ["replace", "replaceAround", "addMark", "removeMark", "addNodeMark", "removeNodeMark", "attr", "docAttr"]


def canon(x):
    return json.dumps(x, sort_keys=True, ensure_ascii=False, separators=(",", ":"))


def wire(x):
    return json.loads(json.dumps(x))


def mutate_all(x):
    """mutate every container inside JSON data in place (to detect aliasing of live objects)"""
    if isinstance(x, dict):
        for k in list(x.keys()):
            mutate_all(x[k])
        x["__poison__"] = 1
    elif isinstance(x, list):
        for y in x:
            mutate_all(y)
        x.append("__poison__")


NESTED = [lambda: ["a", 1, None], lambda: {"k": [1, 2], "z": {"y": "x"}}, lambda: [[1], {"q": []}], lambda: {"deep": {"er": ["x"]}}, lambda: []]


def nest(j, rng, p=0.4):
    """a copy of JSON data in which some attribute values (node / mark `attrs`, attr-step `value`) are structured values"""
    if isinstance(j, list):
        return [nest(x, rng, p) for x in j]
    if not isinstance(j, dict):
        return j
    out = {}
    for k, v in j.items():
        if k == "attrs" and isinstance(v, dict):
            out[k] = {a: (rng.choice(NESTED)() if a not in ("level", "lvl", "order", "colspan") and rng.random() < p else x) for a, x in v.items()}
        elif k == "value" and j.get("stepType") in ("attr", "docAttr") and rng.random() < 0.7:
            out[k] = rng.choice(NESTED)()
        else:
            out[k] = nest(v, rng, p)
    return out


def has_structured(j):
    if isinstance(j, dict):
        return any((k in ("attrs",) and isinstance(v, dict) and any(isinstance(x, (list, dict)) for x in v.values()))
                   or (k == "value" and isinstance(v, (list, dict))) or has_structured(v) for k, v in j.items())
    if isinstance(j, list):
        return any(has_structured(x) for x in j)
    return False


# ---- malformed input: one mutation of the library's own JSON (a key deleted, or a value replaced by a value of another
# JSON type / an unknown name).  Not in the palette, because the model does not cover them (PM/Json.lean, "from_json"):
# strings that are themselves JSON text (the code hands strings to json.loads), negative integers (positions are
# naturals in the model), floats with an integral value.
PALETTE = [None, True, False, 0, 1, 7, "x", "", [], [1], {}, {"a": 1}, 1.5, "text", "paragraph", "nosuch", [[]], {"type": "em"}]


def _paths(j, pre=()):
    yield pre
    if isinstance(j, dict):
        for k, v in j.items():
            yield from _paths(v, pre + (k,))
    elif isinstance(j, list):
        for i, v in enumerate(j):
            yield from _paths(v, pre + (i,))


def _get(j, p):
    for k in p:
        j = j[k]
    return j


def _with(j, p, v, delete=False):
    j = copy.deepcopy(j)
    if not p:
        return v
    c = j
    for k in p[:-1]:
        c = c[k]
    if delete:
        del c[p[-1]]
    else:
        c[p[-1]] = v
    return j


def malformed_variants(j, rng, n):
    """(description, mutated JSON) — n single mutations of JSON data j"""
    ps = list(_paths(j))
    out = []
    for _ in range(n):
        p = rng.choice(ps)
        where = "/".join("#" if isinstance(k, int) else k for k in p)
        if p and not isinstance(p[-1], int) and rng.random() < 0.3:
            out.append((f"del {where}", _with(j, p, None, delete=True)))
            continue
        v = rng.choice(PALETTE)
        old = _get(j, p)
        if type(v) is type(old) and v == old:
            continue
        out.append((f"set {where}:{type(v).__name__}", _with(j, p, copy.deepcopy(v))))
    return out


def str_of_nonscalar_text(j):
    """a text node whose "text" is a list / dict / float: the code takes Python's str() of it; the model only says that it is not empty"""
    if isinstance(j, dict):
        return any((k == "text" and isinstance(v, (list, dict, float))) or str_of_nonscalar_text(v) for k, v in j.items())
    if isinstance(j, list):
        return any(str_of_nonscalar_text(x) for x in j)
    return False


def size0_nonempty(step):
    sl = getattr(step, "slice", None)
    return sl is not None and sl.size == 0 and sl.content.size > 0


def run(ctx):
    core.lean_phase(ctx)
    rng = ctx.rng
    reqs, metas = [], []

    def flush():
        outs = ctx.driver.run(reqs) if reqs else []
        for req, (op, replay, exp), out in zip(reqs, metas, outs):
            ctx.count("model_requests")
            got = out.get("ok", out)
            if op == "toJson":
                got = canon(got) if "ok" in out else out
            if op == "malformed":
                # exp = (class, value or None, value_exact); the outcome class is tied exactly, the value when it is modelled
                cls = "ok" if "ok" in out else out.get("err", "?")
                ctx.count(f"malformed:{replay['kind']}:{exp[0]}")
                if cls != exp[0]:
                    ctx.mismatch("malformed-from_json-class", replay, exp[0], cls)
                elif cls == "ok" and exp[2] and out["ok"] != exp[1]:
                    ctx.mismatch("malformed-from_json-value", replay, exp[1], out["ok"])
                elif cls == "ok":
                    ctx.count("malformed:decoded-value-compared" if exp[2] else "malformed:decoded-value-not-modelled")
                continue
            if got != exp:
                ctx.mismatch(op, replay, exp, got)
        del reqs[:], metas[:]

    # registry
    if sorted(STEPS_BY_ID.keys()) != sorted(PUBLISHED):
        ctx.violation("registry", "the step registry does not hold exactly the eight published step types",
                      {"registry": sorted(STEPS_BY_ID.keys())})
    # the registry as a peer sees it: a fresh interpreter that imports only the public package and decodes each published
    # step type from JSON before having created any step itself (a registration that happens lazily, on first local use,
    # would be invisible to this process, which has long imported every step module)
    import subprocess
    import sys as _sys
    probe = (
        "import json, sys\n"
        "sys.path.insert(0, %r)\n"
        "import prosemirror.transform as T\n"
        "from prosemirror.transform.step import STEPS_BY_ID, Step\n"
        "from prosemirror.schema.basic import schema\n"
        "out = {'registry': sorted(STEPS_BY_ID)}\n"
        "mark = {'type': 'em'}\n"
        "samples = {'replace': {'stepType': 'replace', 'from': 1, 'to': 1},\n"
        "  'replaceAround': {'stepType': 'replaceAround', 'from': 0, 'to': 2, 'gapFrom': 1, 'gapTo': 1, 'insert': 0},\n"
        "  'addMark': {'stepType': 'addMark', 'mark': mark, 'from': 1, 'to': 2}, 'removeMark': {'stepType': 'removeMark', 'mark': mark, 'from': 1, 'to': 2},\n"
        "  'addNodeMark': {'stepType': 'addNodeMark', 'pos': 0, 'mark': mark}, 'removeNodeMark': {'stepType': 'removeNodeMark', 'pos': 0, 'mark': mark},\n"
        "  'attr': {'stepType': 'attr', 'pos': 0, 'attr': 'level', 'value': 2}, 'docAttr': {'stepType': 'docAttr', 'attr': 'x', 'value': 1}}\n"
        "dec = {}\n"
        "for k, j in samples.items():\n"
        "    try:\n"
        "        st = Step.from_json(schema, json.loads(json.dumps(j)))\n"
        "        dec[k] = [type(st).__name__, st.to_json().get('stepType')]\n"
        "    except Exception as e:\n"
        "        dec[k] = ['ERR', type(e).__name__ + ': ' + str(e)[:80]]\n"
        "out['decoded'] = dec\n"
        "print(json.dumps(out))\n") % core.REPO
    pr = subprocess.run([_sys.executable, "-c", probe], capture_output=True, text=True, timeout=60)
    try:
        fresh = json.loads(pr.stdout.strip().splitlines()[-1])
    except Exception:  # noqa: BLE001
        fresh = {"registry": None, "decoded": {}, "stderr": pr.stderr[-300:]}
    ctx.count("fresh-interpreter-registry-probe")
    expected_cls = {"replace": "ReplaceStep", "replaceAround": "ReplaceAroundStep", "addMark": "AddMarkStep", "removeMark": "RemoveMarkStep",
                    "addNodeMark": "AddNodeMarkStep", "removeNodeMark": "RemoveNodeMarkStep", "attr": "AttrStep", "docAttr": "DocAttrStep"}
    bad_fresh = {k: v for k, v in (fresh.get("decoded") or {}).items() if v != [expected_cls.get(k), k]}
    if fresh.get("registry") != sorted(PUBLISHED) or bad_fresh or len(fresh.get("decoded") or {}) != 8:
        ctx.violation("registry", "a process that only imported the package cannot decode every built-in step type by its published name",
                      {"fresh_interpreter": fresh, "wrong": bad_fresh})
    # the registry refuses a second registration of a published name, and decoding refuses what is not a step:
    # every such input must end in a ValueError-family exception (never an internal error, never a step)
    from prosemirror.transform.step import Step, step_json_id
    from prosemirror.transform import ReplaceStep
    std, _ = outcome(lambda: step_json_id("replace", ReplaceStep))
    if std != "valueError" or sorted(STEPS_BY_ID.keys()) != sorted(PUBLISHED):
        ctx.violation("registry", "registering a published step name a second time is not refused with a ValueError",
                      {"outcome": std, "registry": sorted(STEPS_BY_ID.keys())})
    basic = schemas.family()[0].schema
    for bad in (None, {}, "{}", {"stepType": ""}, {"stepType": "nosuchstep"}, {"from": 1, "to": 2}, '{"stepType": "nosuchstep"}'):
        stb, vb = outcome(lambda: Step.from_json(basic, bad))
        ctx.count("malformed-step:" + stb)
        if stb != "valueError":
            ctx.violation("malformed-accepted", f"Step.from_json did not refuse a non-step with a ValueError: {stb} {str(vb)[:100]}", {"json": bad})
    for bad in (None, {}, {"type": "paragraph", "marks": "strong"}, {"type": "paragraph", "marks": {"type": "strong"}}, {"type": "nosuchnode"}):
        stb, vb = outcome(lambda: Node.from_json(basic, bad))
        ctx.count("malformed-node:" + stb)
        if stb != "valueError":
            ctx.violation("malformed-accepted", f"Node.from_json did not refuse malformed input with a ValueError: {stb} {str(vb)[:100]}", {"json": bad})
    for bad in ({"openStart": "1", "content": []}, {"openEnd": [1], "content": []}):
        stb, vb = outcome(lambda: Slice.from_json(basic, bad))
        ctx.count("malformed-slice:" + stb)
        if stb != "valueError":
            ctx.violation("malformed-accepted", f"Slice.from_json did not refuse malformed input with a ValueError: {stb} {str(vb)[:100]}", {"json": bad})
    fam = schemas.family()
    for si in range(ctx.budget(14, 60)):
        if len(reqs) >= 15000:
            flush()     # keep memory bounded in long runs
        info = fam[si % len(fam)] if si < len(fam) or rng.random() < 0.4 else schemas.random_schema(rng)
        schema = info.schema
        ctx.driver.add_schema(info)
        sid = info.lean_id
        docs = [gen.gen_doc(rng, schema, budget=rng.choice([6, 12, 25])) for _ in range(ctx.budget(5, 10))]
        # aimed: the *shared* mark a type hands out when it is created without attributes (`MarkType.create()` /
        # `schema.mark(name)`: one instance per type whose attributes all have defaults) — its JSON, and the JSON of a text
        # node carrying it, must not alias the instance's attribute object (which holds the schema's default values)
        for mt in schema.marks.values():
            stc, shared = outcome(lambda: mt.create())
            if stc != "ok" or (mt.attrs and any(not a.has_default for a in mt.attrs.values())):
                continue
            carriers = [("mark", shared)]
            if "text" in schema.nodes:
                carriers.append(("node", schema.text("x", [shared])))
            for kind_, obj_ in carriers:
                ctx.count("shared-default-mark:" + kind_)
                want = canon(obj_.to_json())
                j_ = obj_.to_json()
                mutate_all(j_)
                again = canon(obj_.to_json())
                fresh = canon(mt.create().to_json())
                if again != want or fresh != canon(shared.to_json()) or (kind_ == "mark" and fresh != want):
                    ctx.violation("aliasing", f"{kind_}: the JSON of the shared default mark of type {mt.name} aliases the live attribute object",
                                  {"schema": info.name, "kind": kind_, "mark_type": mt.name, "json": json.loads(want), "after_mutating_the_json": json.loads(again)})
        for d in docs:
            if ctx.time_left() < 0:
                break
            objs = [("node", d, Node.from_json, lambda a, b: a.eq(b), info.node)]
            sl = gen.random_slice(rng, docs)
            objs.append(("slice", sl, Slice.from_json, lambda a, b: a.eq(b), info.slice))
            objs.append(("frag", sl.content, Fragment.from_json, lambda a, b: a.eq(b), info.frag))
            m = gen.gen_mark(rng, schema)
            if m is not None:
                objs.append(("mark", m, Mark.from_json, lambda a, b: a.eq(b), info.mark))
            for kind, obj, from_json, eq, enc in objs:
                replay = {"schema": info.name, "kind": kind, "json": None}
                st, j = outcome(obj.to_json)
                if st != "ok":
                    ctx.violation("to_json-raises", f"to_json raised {j}", replay)
                    continue
                replay["json"] = j
                ctx.case([kind, info.name, j], sample={"op": "json round trip", "kind": kind, "schema": info.name, "json": str(j)[:200]})
                ctx.count("kind:" + kind)
                st2, back = outcome(lambda: from_json(schema, wire(j)))
                if st2 != "ok":
                    ctx.violation("from_json-raises", f"from_json raised {back} on the library's own JSON", replay)
                    continue
                if kind == "node":
                    # Node.from_json also accepts the JSON *text*
                    sts, back_s = outcome(lambda: Node.from_json(schema, json.dumps(j)))
                    if sts != "ok" or not back_s.eq(obj):
                        ctx.violation("round-trip", "Node.from_json(text) does not give the object Node.from_json(data) gives", replay)
                if not eq(back, obj) or canon(back.to_json()) != canon(j):
                    ctx.violation("round-trip", f"{kind}: reading the JSON back does not give an equal object / identical JSON",
                                  dict(replay, again=back.to_json()))
                # aliasing: mutating the produced JSON must not change the object
                j2 = obj.to_json()
                before = canon(j2)
                mutate_all(j2)
                if canon(obj.to_json()) != before:
                    ctx.violation("aliasing", f"{kind}: the JSON produced aliases live objects (mutating it changed the source object)", replay)
                reqs.append({"op": "toJson", "s": sid, "k": kind, "v": enc(obj)})
                metas.append(("toJson", replay, canon(wire(j))))
                reqs.append({"op": "fromJson", "s": sid, "k": kind, "v": wire(j)})
                metas.append(("fromJson", replay, enc(back)))
            # structured attribute values (lists / dicts): the library's side only — round trip and aliasing probe
            m2 = gen.gen_mark(rng, schema)
            cands = [("node", d.to_json(), Node.from_json), ("slice", sl.to_json(), Slice.from_json)]
            if m2 is not None:
                cands.append(("mark", m2.to_json(), Mark.from_json))
            cands.append(("step", gen.gen_step(rng, info, d, docs).to_json(), Step.from_json))
            for kind, j0, from_json in cands:
                jn = nest(j0, rng)
                if j0 is None or not has_structured(jn):
                    continue
                replay = {"schema": info.name, "kind": kind, "json": jn, "structured_attrs": True}
                st, obj = outcome(lambda: from_json(schema, wire(jn)))
                if st != "ok":
                    ctx.count("structured:" + st)
                    continue
                ctx.case(["structured", kind, info.name, jn], sample={"op": "json round trip, structured attrs", "kind": kind, "json": str(jn)[:200]})
                ctx.count("structured:" + kind)
                j1 = obj.to_json()
                st2, back = outcome(lambda: from_json(schema, wire(j1)))
                if st2 != "ok" or canon(back.to_json()) != canon(j1) or (kind != "step" and not back.eq(obj)):
                    ctx.violation("round-trip", f"{kind} with structured attribute values: reading the JSON back does not give an equal object / identical JSON", replay)
                before = canon(j1)
                mutate_all(j1)
                if canon(obj.to_json()) != before:
                    ctx.violation("aliasing", f"{kind}: the JSON produced aliases live attribute objects (mutating it changed the source object)", replay)
                # and the other direction: the object must not alias the JSON it was read from
                src = wire(jn)
                obj2 = from_json(schema, src)
                before2 = canon(obj2.to_json())
                mutate_all(src)
                if canon(obj2.to_json()) != before2:
                    ctx.count("from_json_keeps_reference_to_input")
            # steps
            for _ in range(ctx.budget(10, 30)):
                step = gen.gen_step(rng, info, d, docs)
                st, j = outcome(step.to_json)
                replay = {"schema": info.name, "kind": "step", "doc": d.to_json(), "json": j if st == "ok" else None}
                if st != "ok":
                    ctx.violation("to_json-raises", f"Step.to_json raised {j}", replay)
                    continue
                ctx.case(["step", info.name, j], sample={"op": "step json round trip", "schema": info.name, "json": j})
                ctx.count("step:" + j["stepType"])
                st2, back = outcome(lambda: Step.from_json(schema, wire(j)))
                if st2 != "ok":
                    ctx.violation("from_json-raises", f"Step.from_json raised {back} on the library's own JSON", replay)
                    continue
                same_json = canon(back.to_json()) == canon(j)
                r1, r2 = outcome(lambda: step.apply(d)), outcome(lambda: back.apply(d))

                def res_key(r):
                    if r[0] != "ok":
                        return r[0]
                    return ("failed",) if r[1].doc is None else ("ok", canon(r[1].doc.to_json()))
                same_effect = res_key(r1) == res_key(r2) and list(step.get_map().ranges) == list(back.get_map().ranges)
                if type(back) is not type(step) or not same_json or not same_effect:
                    ctx.violation("step-round-trip", "decoded step is not the same step (type / JSON / effect / map differ)",
                                  dict(replay, again=back.to_json(), size0_nonempty_slice=size0_nonempty(step)))
                j2 = step.to_json()
                before = canon(j2)
                mutate_all(j2)
                if canon(step.to_json()) != before:
                    ctx.violation("aliasing", "step: the JSON produced aliases live objects", replay)
                reqs.append({"op": "toJson", "s": sid, "k": "step", "v": info.step(step)})
                metas.append(("toJson", replay, canon(wire(j))))
                reqs.append({"op": "fromJson", "s": sid, "k": "step", "v": wire(j)})
                metas.append(("fromJson", replay, info.step(back)))
            # malformed data (what an untrusted peer may send): one mutation of the library's own JSON; the decoders of the
            # code and of the model must end in the same class — a value, a ValueError, or an internal error
            mal = [("node", d.to_json(), Node.from_json, info.node), ("slice", sl.to_json(), Slice.from_json, info.slice)]
            if m is not None:
                mal.append(("mark", m.to_json(), Mark.from_json, info.mark))
            for _ in range(3):
                mal.append(("step", gen.gen_step(rng, info, d, docs).to_json(), Step.from_json, info.step))
            for kind, j0, from_json, enc in mal:
                if j0 is None:
                    continue
                for what, bad in malformed_variants(wire(j0), rng, ctx.budget(3, 8)):
                    stb, vb = outcome(lambda: from_json(schema, wire(bad)))
                    val, exact = None, False
                    if stb == "ok":
                        try:
                            val, exact = enc(vb), not str_of_nonscalar_text(bad)
                        except Exception:  # noqa: BLE001   (a decoded object the codec cannot express, e.g. a non-int position)
                            val, exact = None, False
                    ctx.case(["malformed", kind, info.name, bad], sample={"op": "from_json of malformed data", "kind": kind, "mutation": what})
                    reqs.append({"op": "fromJson", "s": sid, "k": kind, "v": bad})
                    metas.append(("malformed", {"schema": info.name, "kind": kind, "mutation": what, "json": bad, "real": stb if stb != "ok" else "ok",
                                                "detail": None if stb == "ok" else str(vb)[:120]}, (stb, val, exact)))
    flush()
    return ctx.finish(
        rule="a case is a document / slice / fragment / mark / step (eight kinds) of a bundled-family or random schema, passed "
             "through json.dumps + json.loads; distinct by content",
        level_note="'does not alias live attribute objects' is about object identity, which the pure model cannot express: decided by the mutation probe only")


if __name__ == "__main__":
    core.main("C05", run)
