"""C08 — position maps and mappings obey the documented mapping algebra.

Tie: exact correspondence of StepMap.map_result / for_each / touches / recover / invert and of
Mapping.map / map_result / slice / append_* / invert with lean/PM/Map.lean; builder sequences (append_map with a mirror
argument, set_mirror, append_mapping, append_mapping_inverted, invert, one- and two-bound slices, bounds past the last map)
followed by map / map_result at every position with both association sides, get_mirror of every index and the
"no index registered twice" predicate (lean/PM/MapTable.lean) — `mappingAlg`, exact.
Search: the documented rule (written here independently, in prefix-sum form) against the real code.
"""
import itertools

from prosemirror.transform.map import Mapping, StepMap

from .. import core
from ..core import outcome


# --------------------------------------------------------------------------------------------
# reference rule (independent of the model)

def quads(ranges, inverted):
    """(oldStart, oldEnd, newStart, newEnd) per range in the orientation of the map"""
    out = []
    shift = 0
    for i in range(0, len(ranges), 3):
        s, a, b = ranges[i:i + 3]
        if not inverted:
            out.append((s, s + a, s + shift, s + shift + b))
            shift += b - a
        else:
            # stored coordinates are the other side's; this side's start is s + shift so far
            out.append((s + shift, s + shift + b, s, s + a))
            shift += b - a
    return out


def ref_map(ranges, inverted, pos, assoc):
    """(pos, deleted, deleted_before, deleted_after, deleted_across) by the documented rule"""
    shift = 0
    for (os_, oe, ns, ne) in quads(ranges, inverted):
        if pos < os_:
            break
        if pos <= oe:
            if os_ == oe:
                side = assoc
            elif pos == os_:
                side = -1
            elif pos == oe:
                side = 1
            else:
                side = assoc
            res = ns if side < 0 else ne
            deleted = (pos != os_) if assoc < 0 else (pos != oe)
            # flags as documented upstream: at the start of the range only "after" is reported (also for
            # a pure insertion), at its end only "before", strictly inside both and "across"
            if pos == os_:
                before, after, across = False, True, False
            elif pos == oe:
                before, after, across = True, False, False
            else:
                before, after, across = True, True, True
            return res, deleted, (before), (after), across
        shift = ne - oe
    return pos + shift, False, False, False, False


def strict_wf(ranges):
    end = None
    for i in range(0, len(ranges), 3):
        s, a, b = ranges[i:i + 3]
        if a < 0 or b < 0 or s < 0:
            return False
        if end is not None and s <= end:
            return False
        end = s + a
    return True


def wf(ranges):
    end = None
    for i in range(0, len(ranges), 3):
        s, a, b = ranges[i:i + 3]
        if a < 0 or b < 0 or s < 0:
            return False
        if end is not None and s < end:
            return False
        end = s + a
    return True


def no_empty_touch(ranges):
    """the sharper guard: no range with an empty (old or new) side touches another range"""
    tr = [ranges[i:i + 3] for i in range(0, len(ranges), 3)]
    for (s1, a1, b1), (s2, a2, b2) in zip(tr, tr[1:]):
        if s1 + a1 == s2 and (a1 == 0 or b1 == 0 or a2 == 0 or b2 == 0):
            return False
    return True


# --------------------------------------------------------------------------------------------
# generators

def small_maps(max_ranges=3, max_size=2, max_gap=2):
    """all well-formed maps with <= max_ranges ranges, sizes <= max_size, gaps <= max_gap (gap 0 = adjacent)"""
    sizes = range(max_size + 1)
    for n in range(max_ranges + 1):
        for gaps in itertools.product(range(max_gap + 1), repeat=n):
            for olds in itertools.product(sizes, repeat=n):
                for news in itertools.product(sizes, repeat=n):
                    r = []
                    pos = 0
                    ok = True
                    for g, a, b in zip(gaps, olds, news):
                        if a == 0 and b == 0:
                            ok = False
                            break
                        pos += g
                        r += [pos, a, b]
                        pos += a
                    if ok:
                        yield r


def random_map(rng, max_ranges=6, strict=False):
    r = []
    pos = 0
    for _ in range(rng.randint(0, max_ranges)):
        pos += rng.randint(1 if strict else 0, 4)
        a, b = rng.randint(0, 5), rng.randint(0, 5)
        if a == 0 and b == 0:
            b = 1
        r += [pos, a, b]
        pos += a
    return r


def span(ranges, inverted):
    q = quads(ranges, inverted)
    return (q[-1][1] if q else 0) + 2


# --------------------------------------------------------------------------------------------

def impl_map_all(ranges, inverted, lo, n, obj=None):
    m = StepMap(list(ranges), inverted) if obj is None else obj
    out = []
    for assoc in (-1, 1):
        row = []
        for k in range(n):
            r = m.map_result(lo + k, assoc)
            simple = m.map(lo + k, assoc)
            rec = None
            if r.recover is not None:
                rec = [r.recover & 0xFFFF, (r.recover - (r.recover & 0xFFFF)) // 65536]
            row.append([r.pos, r.del_info, rec, simple])
        out.append(row)
    return out


def impl_for_each(ranges, inverted, obj=None):
    acc = []
    (StepMap(list(ranges), inverted) if obj is None else obj).for_each(lambda a, b, c, d: acc.append([a, b, c, d]))
    return acc


def check_map(ctx, ranges, inverted, reqs, metas):
    n = span(ranges, inverted) + 1
    st, val = outcome(lambda: impl_map_all(ranges, inverted, 0, n))
    key = ["map", ranges, inverted]
    ctx.case(key, nontrivial=len(ranges) > 0, sample={"op": "map_result", "ranges": ranges, "inverted": inverted,
                                                      "positions": [0, n - 1], "assoc": [-1, 1]})
    ctx.count("maps")
    ctx.count("ranges:%d" % (len(ranges) // 3))
    if st != "ok":
        ctx.violation("map-raises", f"StepMap.map_result raised {val}", {"ranges": ranges, "inverted": inverted})
        return
    # oracle: documented rule, monotonicity, deletion flags, recover consistency
    m = StepMap(list(ranges), inverted)
    q = quads(ranges, inverted)
    for ai, assoc in enumerate((-1, 1)):
        prev = None
        for k in range(n):
            pos, dinfo, rec, simple = val[ai][k]
            exp = ref_map(ranges, inverted, k, assoc)
            got = (pos, bool(dinfo & 8), bool(dinfo & 5), bool(dinfo & 6), bool(dinfo & 4))
            if simple != pos or got != exp:
                ctx.violation("map-rule", "map/map_result disagree with the documented rule",
                              {"ranges": ranges, "inverted": inverted, "pos": k, "assoc": assoc,
                               "got": [simple, *got], "expected": list(exp)})
            if prev is not None and pos < prev:
                ctx.violation("map-monotone", "mapping is not monotonic",
                              {"ranges": ranges, "inverted": inverted, "pos": k, "assoc": assoc})
            prev = pos
            # recover: non-null iff strictly inside on the association side; decodes to range/offset
            inside = [i for i, (os_, oe, _, _) in enumerate(q) if os_ <= k <= oe][:1]
            if inside:
                os_, oe, _, _ = q[inside[0]]
                want = None if k == (os_ if assoc < 0 else oe) else [inside[0], k - os_]
            else:
                want = None
            if rec != want:
                ctx.violation("map-recover", "recover value inconsistent with the rule",
                              {"ranges": ranges, "inverted": inverted, "pos": k, "assoc": assoc, "got": rec,
                               "expected": want})
            ctx.count("map_calls")
    # for_each / touches / recover(value) / invert
    st2, fe = outcome(lambda: impl_for_each(ranges, inverted))
    if st2 != "ok":
        ctx.violation("for_each-raises", f"for_each raised {fe}", {"ranges": ranges, "inverted": inverted})
    else:
        if fe != [list(x) for x in q]:
            ctx.violation("for_each-coords", "for_each reports ranges inconsistent with the map's coordinates",
                          {"ranges": ranges, "inverted": inverted, "got": fe, "expected": [list(x) for x in q]})
        elif strict_wf(ranges) or no_empty_touch(ranges):
            for (os_, oe, ns, ne) in q:
                if m.map(os_, -1) != ns or m.map(oe, 1) != ne:
                    ctx.violation("for_each-vs-map", "for_each new coordinates differ from what map returns",
                                  {"ranges": ranges, "inverted": inverted, "quad": [os_, oe, ns, ne]})
    for i, (os_, oe, ns, ne) in enumerate(q):
        for k in range(n):
            rv = i + 0 * 65536
            stt, t = outcome(lambda: m.touches(k, rv))
            if stt != "ok":
                ctx.violation("touches-raises", f"touches raised {t}", {"ranges": ranges, "inverted": inverted, "pos": k, "index": i})
                break
            # documented: "whether the given position touches the range with the given recover index"
            # (only reached ranges count: the scan stops at the first range starting after pos)
            want = os_ <= k <= oe
            if bool(t) != want:
                ctx.violation("touches", "touches() disagrees with range containment",
                              {"ranges": ranges, "inverted": inverted, "pos": k, "index": i, "got": bool(t), "expected": want})
                break
        # recover(value) through the inverse map returns to the old position
        for off in range(0, (oe - os_) + 1):
            rv = i + off * 65536
            str_, r = outcome(lambda: m.invert().recover(rv))
            if str_ != "ok" or r != os_ + off:
                ctx.violation("recover", "inverse.recover(value) does not return the original position",
                              {"ranges": ranges, "inverted": inverted, "index": i, "offset": off, "got": r, "expected": os_ + off})
    if not ranges:
        stt, t = outcome(lambda: StepMap([], inverted).touches(0, 0))
        if stt != "ok" or t:
            ctx.violation("touches-empty", f"touches on the empty map: {stt} {t}", {"ranges": [], "inverted": inverted})
    # model requests
    reqs.append({"op": "mapAll", "m": [ranges, inverted], "lo": 0, "n": n})
    metas.append(("mapAll", ranges, inverted, [[[p, d, r] for (p, d, r, _) in row] for row in val]))
    if st2 == "ok":
        reqs.append({"op": "forEach", "m": [ranges, inverted]})
        metas.append(("forEach", ranges, inverted, fe))


# --------------------------------------------------------------------------------------------
# mappings

def build_palindrome(maps):
    k = len(maps)
    mp = Mapping()
    for m in maps:
        mp.append_map(StepMap(list(m)))
    for i in range(k - 1, -1, -1):
        mp.append_map(StepMap(list(maps[i])).invert(), i)
    return mp


def compose(maps_inv, pos, assoc):
    for (r, inv) in maps_inv:
        pos = ref_map(r, inv, pos, assoc)[0]
    return pos


def check_mappings(ctx, rng, reqs, metas, n_cases):
    for _ in range(n_cases):
        k = rng.randint(1, 4)
        # a chain of maps where each map's pre-image is the previous one's image: just random maps
        maps = [random_map(rng, 3, strict=rng.random() < 0.7) for _ in range(k)]
        invs = [rng.random() < 0.3 for _ in range(k)]
        ctx.case(["mapping", maps, invs], sample={"op": "Mapping ops", "maps": maps, "inverted": invs})
        ctx.count("mappings")

        def mk():
            return Mapping([StepMap(list(r), inv) for r, inv in zip(maps, invs)])
        # composition law, slices
        hi = span(maps[0], invs[0]) + 1
        a, b = sorted((rng.randint(0, k), rng.randint(0, k)))
        for assoc in (-1, 1):
            for pos in range(hi):
                st, got = outcome(lambda: mk().map(pos, assoc))
                exp = compose(list(zip(maps, invs)), pos, assoc)
                st2, got2 = outcome(lambda: mk().slice(a, b).map(pos, assoc))
                exp2 = compose(list(zip(maps, invs))[a:b], pos, assoc)
                st3, got3 = outcome(lambda: mk().map_result(pos, assoc).pos)
                # default arguments of slice, and a copy: slice() is everything, slice(a) runs to the end, copy() maps alike
                st4, got4 = outcome(lambda: [mk().slice().map(pos, assoc), mk().slice(a).map(pos, assoc), mk().copy().map(pos, assoc)])
                exp4 = [exp, compose(list(zip(maps, invs))[a:], pos, assoc), exp]
                if (st4, got4) != ("ok", exp4):
                    ctx.violation("mapping-composition", "Mapping.slice() / slice(from) / copy() do not map like the corresponding composition",
                                  {"maps": maps, "inverted": invs, "pos": pos, "assoc": assoc, "slice": [a, None],
                                   "got": got4, "expected": exp4})
                if (st, got) != ("ok", exp) or (st2, got2) != ("ok", exp2) or (st3, got3) != ("ok", exp):
                    ctx.violation("mapping-composition", "Mapping.map is not the left-to-right composition",
                                  {"maps": maps, "inverted": invs, "pos": pos, "assoc": assoc, "slice": [a, b],
                                   "got": [got, got2, got3], "expected": [exp, exp2, exp]})
        # append_mapping / append_mapping_inverted / invert
        other_maps = [random_map(rng, 2) for _ in range(rng.randint(0, 3))]

        def appended():
            m1 = mk()
            m1.append_mapping(Mapping([StepMap(list(r)) for r in other_maps]))
            return [[list(x.ranges), x.inverted] for x in m1.maps], m1.from_, m1.to
        st, got = outcome(appended)
        exp = ([[list(r), inv] for r, inv in zip(maps, invs)] + [[list(r), False] for r in other_maps], 0, k + len(other_maps))
        if (st, got) != ("ok", exp):
            ctx.violation("append_mapping", "append_mapping does not append the other mapping's maps in order",
                          {"maps": maps, "inverted": invs, "other": other_maps, "outcome": st, "got": got if st == "ok" else str(got)})

        def appended_inv():
            m1 = mk()
            m1.append_mapping_inverted(Mapping([StepMap(list(r)) for r in other_maps]))
            return [[list(x.ranges), x.inverted] for x in m1.maps]
        st, got = outcome(appended_inv)
        exp = [[list(r), inv] for r, inv in zip(maps, invs)] + [[list(r), True] for r in reversed(other_maps)]
        if (st, got) != ("ok", exp):
            ctx.violation("append_mapping_inverted", "append_mapping_inverted does not append inverted maps in reverse order",
                          {"maps": maps, "inverted": invs, "other": other_maps, "outcome": st})

        def inverted():
            m1 = mk().invert()
            return [[list(x.ranges), x.inverted] for x in m1.maps]
        st, got = outcome(inverted)
        exp = [[list(r), not inv] for r, inv in reversed(list(zip(maps, invs)))]
        if (st, got) != ("ok", exp):
            ctx.violation("mapping-invert", "Mapping.invert is not the reversed list of inverted maps",
                          {"maps": maps, "inverted": invs, "outcome": st})
        # mirror round trip on strictly well-formed chains (document sizes chained)
        chain = []
        for _j in range(rng.randint(1, 3)):
            chain.append(random_map(rng, 3, strict=True))
        stp, pal = outcome(lambda: build_palindrome(chain))
        if stp == "ok":
            hi = span(chain[0], False) + 1
            for assoc in (-1, 1):
                for pos in range(hi):
                    st, got = outcome(lambda: pal.map(pos, assoc))
                    if (st, got) != ("ok", pos):
                        ctx.violation("mirror-roundtrip", "mapping forward and back through mirrored maps does not return the position",
                                      {"chain": chain, "pos": pos, "assoc": assoc, "got": got})
                    ctx.count("mirror_calls")
            # model: same palindrome, all positions
            maps_j = [[list(r), False] for r in chain] + [[list(r), True] for r in reversed(chain)]
            kk = len(chain)
            mirror = []
            for i in range(kk - 1, -1, -1):
                mirror += [2 * kk - 1 - i, i]
            for assoc in (-1, 1):
                for pos in range(hi):
                    reqs.append({"op": "mappingMap", "mapping": {"maps": maps_j, "mirror": mirror}, "pos": pos, "assoc": assoc})
                    r = pal.map_result(pos, assoc)
                    metas.append(("mappingMap", chain, None, [pal.map(pos, assoc), r.pos, r.del_info]))
        # a copy is an independent mapping: build a mirrored mapping, copy it, extend copy and original differently (the copy
        # registers further mirrors), then the original must map exactly like a mapping built the same way without the detour
        if stp == "ok":
            extra_a = [random_map(rng, 2, strict=True) for _ in range(rng.randint(1, 2))]
            extra_b = [random_map(rng, 2) for _ in range(rng.randint(1, 3))]

            def branch_and_extend():
                base = build_palindrome(chain)
                branch = base.copy()
                n0 = len(branch.maps)
                for i, r in enumerate(extra_a):
                    branch.append_map(StepMap(list(r)))
                for i, r in reversed(list(enumerate(extra_a))):
                    branch.append_map(StepMap(list(r)).invert(), n0 + i)      # mirrors registered on the copy only
                for r in extra_b:
                    base.append_map(StepMap(list(r)))
                return base

            def direct():
                base = build_palindrome(chain)
                for r in extra_b:
                    base.append_map(StepMap(list(r)))
                return base
            stx, bx = outcome(branch_and_extend)
            sty, by = outcome(direct)
            if stx == "ok" and sty == "ok":
                hi2 = span(chain[0], False) + 1
                for assoc in (-1, 1):
                    for pos in range(hi2):
                        g1, g2 = outcome(lambda: bx.map_result(pos, assoc)), outcome(lambda: by.map_result(pos, assoc))
                        same = g1[0] == g2[0] == "ok" and (g1[1].pos, g1[1].del_info) == (g2[1].pos, g2[1].del_info)
                        ctx.count("copy_independence_calls")
                        if not same:
                            ctx.violation("copy-independence", "a mapping maps differently after a copy of it was extended (the copy is not an "
                                          "independent mapping: the composition of the original's maps changed)",
                                          {"chain": chain, "copy_extended_by": extra_a, "original_extended_by": extra_b, "pos": pos, "assoc": assoc,
                                           "got": [g1[1].pos, g1[1].del_info] if g1[0] == "ok" else str(g1[1]),
                                           "expected": [g2[1].pos, g2[1].del_info] if g2[0] == "ok" else str(g2[1])})
                            break
        # rebasing-style construction: undo A_k..A_1, apply other maps, redo A_1..A_k with mirrors; every slice of it
        chainA = [random_map(rng, 2, strict=True) for _ in range(rng.randint(1, 2))]
        between = [random_map(rng, 2) for _ in range(rng.randint(0, 2))]

        def rebase_shape():
            mp = Mapping()
            ka = len(chainA)
            for i in range(ka - 1, -1, -1):
                mp.append_map(StepMap(list(chainA[i])).invert())
            for r in between:
                mp.append_map(StepMap(list(r)))
            for i in range(ka):
                mp.append_map(StepMap(list(chainA[i])), ka - 1 - i)
            return mp
        for label, st_b, big in (("palindrome", stp, pal if stp == "ok" else None),) + ((("rebase",) + outcome(rebase_shape)),):
            if st_b != "ok":
                continue
            n = len(big.maps)
            mj = [[list(x.ranges), x.inverted] for x in big.maps]
            mir = list(big.mirror or [])
            pairs = [(mir[i], mir[i + 1]) for i in range(0, len(mir), 2)]
            hi2 = span(list(big.maps[0].ranges), big.maps[0].inverted) + 2
            for _s in range(3):
                a, b = sorted((rng.randint(0, n), rng.randint(0, n)))
                no_pair_inside = not any(a <= min(x, y) and max(x, y) < b for (x, y) in pairs)
                for assoc in (-1, 1):
                    for pos in range(hi2):
                        st, got = outcome(lambda: big.slice(a, b).map(pos, assoc))
                        ctx.count("sliced_mirror_calls")
                        if no_pair_inside:
                            # no complete mirror pair inside the slice: the slice is the plain composition of its maps
                            exp = compose([(list(x.ranges), x.inverted) for x in big.maps[a:b]], pos, assoc)
                            if (st, got) != ("ok", exp):
                                ctx.violation("slice-composition", "a slice of a mapping with mirrors that holds no complete mirror pair is not the composition of its maps",
                                              {"shape": label, "maps": mj, "mirror": mir, "slice": [a, b], "pos": pos, "assoc": assoc,
                                               "got": got if st == "ok" else str(got), "expected": exp})
                        if st == "ok":
                            r = big.slice(a, b).map_result(pos, assoc)
                            reqs.append({"op": "mappingMap", "mapping": {"maps": mj, "mirror": mir, "from": a, "to": b}, "pos": pos, "assoc": assoc})
                            metas.append(("mappingMap", mj, [a, b], [got, r.pos, r.del_info]))
            # appending a mapping that carries mirror pairs (plain and inverted) to a non-empty receiver: the mirror
            # pairs move with their maps — the result maps like "receiver, then the (inverted) mapping"
            for inverted_append in (False, True):
                def appended_big():
                    m1 = mk()
                    (m1.append_mapping_inverted if inverted_append else m1.append_mapping)(big)
                    return m1
                sta, m1 = outcome(appended_big)
                if sta != "ok":
                    ctx.violation("append-with-mirrors", f"appending a mapping with mirrors raised {m1}", {"maps": maps, "inverted": invs, "appended": mj, "mirror": mir})
                    continue
                sti, second = outcome(lambda: big.invert() if inverted_append else big)
                if sti != "ok":
                    continue
                for assoc in (-1, 1):
                    for pos in range(span(maps[0], invs[0]) + 1):
                        ste, exp = outcome(lambda: second.map(mk().map(pos, assoc), assoc))
                        stg, got = outcome(lambda: m1.map(pos, assoc))
                        ctx.count("append_with_mirror_calls")
                        if ste != "ok":
                            continue
                        if stg != "ok" or got != exp:
                            got = got if stg == "ok" else str(got)
                            ctx.violation("append-with-mirrors", "a receiver with an appended mirrored mapping does not map like the receiver followed by that mapping",
                                          {"maps": maps, "inverted": invs, "appended": mj, "mirror": mir, "inverted_append": inverted_append,
                                           "pos": pos, "assoc": assoc, "got": got, "expected": exp, "result_mirror": list(m1.mirror or [])})
                            break
                reqs.append({"op": "mappingOps", "ops": [{"k": "appendMap", "m": [list(r), inv]} for r, inv in zip(maps, invs)] +
                             [{"k": "appendMappingInverted" if inverted_append else "appendMapping", "mapping": {"maps": mj, "mirror": mir}}]})
                metas.append(("mappingOps", maps, invs, {"maps": [[list(x.ranges), x.inverted] for x in m1.maps], "mirror": list(m1.mirror or []),
                                                         "from": m1.from_, "to": m1.to}))
        # model: builder ops
        ops = [{"k": "appendMap", "m": [list(r), inv]} for r, inv in zip(maps, invs)]
        ops.append({"k": "appendMapping", "mapping": {"maps": [[list(r), False] for r in other_maps]}})
        ops.append({"k": "invert"})

        def impl_ops():
            m1 = mk()
            m1.append_mapping(Mapping([StepMap(list(r)) for r in other_maps]))
            m1 = m1.invert()
            return {"maps": [[list(x.ranges), x.inverted] for x in m1.maps], "mirror": list(m1.mirror or []),
                    "from": m1.from_, "to": m1.to}
        st, got = outcome(impl_ops)
        if st == "ok":
            reqs.append({"op": "mappingOps", "ops": ops})
            metas.append(("mappingOps", maps, invs, got))


# --------------------------------------------------------------------------------------------
# the mapping algebra: builder sequences (append_map with mirrors, set_mirror, append_mapping, append_mapping_inverted,
# invert, slice with one or two bounds), then map / map_result at every position with both association sides —
# exact against the model (`mappingAlg`), and the composition laws of Props/C08.lean as oracles on the real code

def _smj(x):
    return [list(x.ranges), x.inverted]


def _mapping_json(m):
    return {"maps": [_smj(x) for x in m.maps], "mirror": list(m.mirror or []), "from": m.from_, "to": m.to}


def _mapping_from_json(j):
    return Mapping([StepMap(list(r), inv) for r, inv in j["maps"]], list(j["mirror"]) if j.get("mirror") else None,
                   j.get("from", 0), j.get("to"))


def _functional(m):
    mir = list(m.mirror or [])
    return len(mir) % 2 == 0 and len(set(mir)) == len(mir) and all(0 <= x < len(m.maps) for x in mir)


def apply_ops(ops):
    m = Mapping()
    for o in ops:
        k = o["k"]
        if k == "appendMap":
            m.append_map(StepMap(list(o["m"][0]), o["m"][1]), o.get("mirrors"))
        elif k == "setMirror":
            m.set_mirror(o["n"], o["m"])
        elif k == "appendMapping":
            m.append_mapping(_mapping_from_json(o["mapping"]))
        elif k == "appendMappingInverted":
            m.append_mapping_inverted(_mapping_from_json(o["mapping"]))
        elif k == "invert":
            m = m.invert()
        elif k == "slice":
            m = m.slice(o["from"], o.get("to"))
        else:
            raise AssertionError(k)
    return m


def _observe(m, lo, n):
    """[[map, [pos, del_info]] ...] per association side; None where the code raises IndexError"""
    def one(fn):
        st, v = outcome(fn)
        if st == "ok":
            return v
        if st == "internal" and str(v).startswith("IndexError"):
            return None
        return "raised " + str(v)
    out = []
    for assoc in (-1, 1):
        row = []
        for k in range(n):
            p = lo + k

            def mr():
                r = m.map_result(p, assoc)
                return [r.pos, r.del_info]
            row.append([one(lambda: m.map(p, assoc)), one(mr)])
        out.append(row)
    return out


def _then(first, second, p, assoc):
    """`first`, then `second` on the position it produced, deletion flags OR-ed (None = IndexError)"""
    try:
        r1 = first.map_result(p, assoc)
        r2 = second.map_result(r1.pos, assoc)
    except IndexError:
        return None
    return [r2.pos, r1.del_info | r2.del_info]


def _rand_other(rng):
    """a mapping as the builders of the library produce it (functional mirror table), as json"""
    shape = rng.choice(["plain", "palindrome", "rebase", "nested"])
    if shape == "plain":
        m = Mapping([StepMap(random_map(rng, 2), rng.random() < 0.25) for _ in range(rng.randint(0, 3))])
    elif shape == "palindrome":
        m = build_palindrome([random_map(rng, 2, strict=rng.random() < 0.8) for _ in range(rng.randint(1, 2))])
    elif shape == "rebase":
        chain = [random_map(rng, 2, strict=True) for _ in range(rng.randint(1, 2))]
        m = Mapping()
        ka = len(chain)
        for i in range(ka - 1, -1, -1):
            m.append_map(StepMap(list(chain[i])).invert())
        for _ in range(rng.randint(0, 2)):
            m.append_map(StepMap(random_map(rng, 2)))
        for i in range(ka):
            m.append_map(StepMap(list(chain[i])), ka - 1 - i)
    else:
        m = build_palindrome([random_map(rng, 2, strict=True)])
        m.append_map(StepMap(random_map(rng, 2)))
        m.append_mapping(build_palindrome([random_map(rng, 2, strict=True)]))
    j = _mapping_json(m)
    if rng.random() < 0.3 and m.maps:
        # the bounds of the appended mapping (append_* ignore them)
        a, b = sorted((rng.randint(0, len(m.maps)), rng.randint(0, len(m.maps))))
        j["from"], j["to"] = a, b
    return shape, j


def check_algebra(ctx, rng, reqs, metas, n_cases):
    for _ in range(n_cases):
        wild = rng.random() < 0.25
        ops = []
        n_maps = 0
        free = []                       # indices without a partner yet
        for _k in range(rng.randint(0, 3)):
            sm = [random_map(rng, 2, strict=rng.random() < 0.6), rng.random() < 0.25]
            mirrors = None
            if wild and n_maps and rng.random() < 0.5:
                mirrors = rng.randint(0, n_maps)            # any index, the new map itself included: double registrations
            elif free and rng.random() < 0.4:
                mirrors = free.pop(rng.randrange(len(free)))
                # a mirror of an earlier map: make it that map's inverse half of the time
                if rng.random() < 0.5:
                    prev = [o for o in ops if o["k"] == "appendMap"][mirrors]["m"]
                    sm = [list(prev[0]), not prev[1]]
            ops.append({"k": "appendMap", "m": sm, "mirrors": mirrors})
            if mirrors is None:
                free.append(n_maps)
            n_maps += 1
        if wild and n_maps and rng.random() < 0.5:
            # any two existing maps (entries that name no map are outside the model: `append_mapping_inverted` turns them
            # into negative table entries, the model's table is over the naturals)
            ops.append({"k": "setMirror", "n": rng.randint(0, n_maps - 1), "m": rng.randint(0, n_maps - 1)})
        if rng.random() < 0.3:
            # `from` may lie one past the receiver's last map: an append then starts the walk inside the appended part
            ops.append({"k": "slice", "from": rng.randint(0, n_maps + (1 if rng.random() < 0.3 else 0)),
                        "to": None if rng.random() < 0.5 else rng.randint(0, n_maps + 1)})
        shape, other = _rand_other(rng)
        final = rng.choice(["appendMapping", "appendMappingInverted", "appendMapping", "appendMappingInverted",
                            "invert", "slice", "appendMap", "appendThenSlice", "invertTwice"])
        if final in ("appendMapping", "appendMappingInverted"):
            ops.append({"k": final, "mapping": other})
        elif final == "invert":
            ops.append({"k": "appendMapping", "mapping": other})
            ops.append({"k": "invert"})
        elif final == "invertTwice":
            ops.append({"k": "appendMapping", "mapping": other})
            ops.append({"k": "invert"})
            ops.append({"k": "invert"})
        elif final == "appendMap":
            ops.append({"k": "appendMap", "m": [random_map(rng, 2), rng.random() < 0.25], "mirrors": None})
        else:
            ops.append({"k": "appendMapping", "mapping": other})
            tot = n_maps + len(other["maps"])
            beyond = 1 if rng.random() < 0.25 else 0        # bounds one past the last map: IndexError iff the loop gets there
            a, b = sorted((rng.randint(0, tot + beyond), rng.randint(0, tot + beyond)))
            ops.append({"k": "slice", "from": a, "to": None if (final == "slice" and rng.random() < 0.3) else b})
            if ops[-1]["to"] is not None and b > tot:
                ctx.count("algebra_slice_beyond_end" + (":empty" if a == b else ""))
        st, m = outcome(lambda: apply_ops(ops))
        ctx.case(["algebra", ops], sample={"op": "Mapping builder sequence", "ops": [o["k"] for o in ops]})
        ctx.count("algebra_cases")
        ctx.count("algebra_final:" + final)
        if wild:
            ctx.count("algebra_wild")
        if st != "ok":
            ctx.count("algebra_build_raises")
            if not wild:
                ctx.violation("algebra-raises", f"a builder sequence over functional tables raised {m}", {"ops": ops})
            continue
        first = m.maps[0] if m.maps else None
        n = min(14, (span(list(first.ranges), first.inverted) + 2) if first is not None else 4)
        obs = _observe(m, 0, n)
        functional = _functional(m)
        ctx.count("algebra_functional" if functional else "algebra_double_registered")
        if m.mirror:
            ctx.count("algebra_with_mirrors")
        mirrors = []
        for i in range(len(m.maps)):
            sg, g = outcome(lambda: m.get_mirror(i))
            mirrors.append(g if sg == "ok" else "raised")
        ctx.count("algebra_map_calls", 4 * n)
        # --- oracles on the real code: the theorems of Props/C08.lean
        if not wild:
            if not functional:
                ctx.violation("functional-preserved", "a builder sequence over functional mirror tables produced a table with an index "
                              "registered twice (or out of range)", {"ops": ops, "mirror": list(m.mirror or [])})
            for i, k in enumerate(mirrors):
                if k is not None and (k == i or not (0 <= k < len(m.maps)) or mirrors[k] != i):
                    ctx.violation("mirror-symmetric", "get_mirror is not a symmetric pairing on a functional table",
                                  {"ops": ops, "mirror": list(m.mirror or []), "index": i, "partner": k})
                    break
            last = ops[-1]
            if final == "invertTwice":
                # inversion is an involution up to the bounds: inverting twice maps like the original read as a whole
                whole = apply_ops(ops[:-2]).slice(0)
                if _observe(whole, 0, n) != obs:
                    ctx.violation("invert-involutive", "a mapping inverted twice does not map like the mapping read as a whole",
                                  {"ops": ops})
            if last["k"] in ("appendMapping", "appendMappingInverted", "appendMap"):
                recv = apply_ops(ops[:-1])
                if True:
                    if last["k"] == "appendMap":
                        tail = Mapping([StepMap(list(last["m"][0]), last["m"][1])])
                    else:
                        oth = _mapping_from_json(last["mapping"])
                        tail = oth.invert() if last["k"] == "appendMappingInverted" else oth.slice(0)
                    if recv.from_ <= len(recv.maps):
                        head = recv.slice(recv.from_)
                    else:
                        # the receiver's from_ lies beyond its last map: nothing of the receiver, the appended part read from from_ - len
                        head = Mapping()
                        tail = tail.slice(recv.from_ - len(recv.maps))
                        ctx.count("algebra_late_start")
                    if len(tail.maps) > 0:
                        for ai, assoc in enumerate((-1, 1)):
                            for p in range(n):
                                exp = _then(head, tail, p, assoc)
                                ctx.count("algebra_composition_checks")
                                if obs[ai][p][1] != exp or obs[ai][p][0] != (exp[0] if exp is not None else None):
                                    ctx.violation("append-composition", "an appended mapping does not map like the receiver (from its from_ to its "
                                                  "last map) followed by the (inverted) appended mapping, deletion flags OR-ed",
                                                  {"ops": ops, "pos": p, "assoc": assoc, "got": obs[ai][p], "expected": exp})
                                    break
                    elif _mapping_json(m) != _mapping_json(recv):
                        ctx.violation("append-empty", "appending a mapping without maps changed the receiver", {"ops": ops})
        reqs.append({"op": "mappingAlg", "ops": ops, "lo": 0, "n": n})
        metas.append(("mappingAlg", None, None, {"mapping": _mapping_json(m), "functional": functional, "mirrors": mirrors,
                                                 "left": obs[0], "right": obs[1]}))


# --------------------------------------------------------------------------------------------
# live objects: the same StepMap object queried again and again (map / map_result, recover, touches, for_each), inverted after
# it was queried, its inverse queried and inverted again, the object and its inverses registered as mirror pairs of several
# mappings (as the first and as the later member, whose `recover` the mapping calls) — every answer against the reference
# rule computed from the object's description (ranges, orientation), and against the model.  A map is a value: what it
# answers may not depend on what it, or the map it was derived from, was asked before.

def _want_recover(q, k, assoc):
    inside = [i for i, (os_, oe, _, _) in enumerate(q) if os_ <= k <= oe][:1]
    if not inside:
        return None
    os_, oe, _, _ = q[inside[0]]
    return None if k == (os_ if assoc < 0 else oe) else [inside[0], k - os_]


LIVE_USES = ["map", "map", "recover", "recover", "touches", "for_each", "invert", "invert", "mirror-first", "mirror-later", "chain"]


def live_use(ctx, rng, pool, e, use, reqs, metas):
    """one use of the live object of pool entry `e`; returns the entry of a derived object, if one was made"""
    m, ranges, inverted = e.obj, e.meta["ranges"], e.meta["inverted"]
    q = quads(ranges, inverted)
    n = span(ranges, inverted) + 1

    def replay(**kw):
        return dict({"ranges": ranges, "inverted": inverted, "object_history": list(e.log), "use": use}, **kw)
    ctx.count("live:" + use)
    if e.uses:
        ctx.count("live_uses_of_an_object_used_before")
    ctx.case(["live", ranges, inverted, list(e.log), use], nontrivial=len(ranges) > 0)
    derived = None
    if use == "map":
        st, val = outcome(lambda: impl_map_all(ranges, inverted, 0, n, obj=m))
        if st != "ok":
            ctx.violation("map-raises", f"StepMap.map_result raised {val}", replay())
        else:
            bad = False
            for ai, assoc in enumerate((-1, 1)):
                for k in range(n):
                    pos, dinfo, rec, simple = val[ai][k]
                    exp = ref_map(ranges, inverted, k, assoc)
                    got = (pos, bool(dinfo & 8), bool(dinfo & 5), bool(dinfo & 6), bool(dinfo & 4))
                    ctx.count("live_map_calls")
                    if simple != pos or got != exp:
                        ctx.violation("map-rule", "map/map_result disagree with the documented rule",
                                      replay(pos=k, assoc=assoc, got=[simple, *got], expected=list(exp)))
                        bad = True
                    elif rec != _want_recover(q, k, assoc):
                        ctx.violation("map-recover", "recover value inconsistent with the rule",
                                      replay(pos=k, assoc=assoc, got=rec, expected=_want_recover(q, k, assoc)))
                        bad = True
                    if bad:
                        break
                if bad:
                    break
            reqs.append({"op": "mapAll", "m": [ranges, inverted], "lo": 0, "n": n})
            metas.append(("mapAll", ranges, inverted, [[[p, d, r] for (p, d, r, _) in row] for row in val]))
    elif use == "recover":
        # recover(value) of a map: the start of the range in the map's own new coordinates plus the offset
        for i, (os_, oe, ns, ne) in enumerate(q):
            for off in range(0, (ne - ns) + 1):
                st, r = outcome(lambda: m.recover(i + off * 65536))
                ctx.count("live_recover_calls")
                if st != "ok" or r != ns + off:
                    ctx.violation("recover", "recover(value) does not return the position `offset` tokens into the range's new side",
                                  replay(index=i, offset=off, got=r if st == "ok" else str(r), expected=ns + off))
                    break
                reqs.append({"op": "recover", "m": [ranges, inverted], "rv": [i, off]})
                metas.append(("recover", ranges, inverted, r))
    elif use == "touches":
        for i, (os_, oe, ns, ne) in enumerate(q):
            for k in range(n):
                st, t = outcome(lambda: m.touches(k, i))
                if st != "ok" or bool(t) != (os_ <= k <= oe):
                    ctx.violation("touches", "touches() disagrees with range containment",
                                  replay(pos=k, index=i, got=bool(t) if st == "ok" else str(t), expected=os_ <= k <= oe))
                    break
    elif use == "for_each":
        st, fe = outcome(lambda: impl_for_each(ranges, inverted, obj=m))
        if st != "ok" or fe != [list(x) for x in q]:
            ctx.violation("for_each-coords", "for_each reports ranges inconsistent with the map's coordinates",
                          replay(got=fe if st == "ok" else str(fe), expected=[list(x) for x in q]))
        else:
            reqs.append({"op": "forEach", "m": [ranges, inverted]})
            metas.append(("forEach", ranges, inverted, fe))
    elif use == "invert":
        st, y = outcome(m.invert)
        if st != "ok" or list(y.ranges) != list(ranges) or bool(y.inverted) != (not inverted):
            ctx.violation("invert", "StepMap.invert is not the same ranges read in the other direction", replay(outcome=st))
        else:
            derived = pool.add(y, log=e.log + ["invert"], ranges=ranges, inverted=not inverted)
    else:
        # mirror pairs made of live objects.  members: (entry, description); the inverse of a member is either a pooled
        # object of the opposite orientation or made now from the (already used) object
        def inverse_of(x):
            other = pool.draw(lambda o: o is not x and o.meta["ranges"] == x.meta["ranges"] and o.meta["inverted"] != x.meta["inverted"])
            if other is not None and rng.random() < 0.5:
                ctx.count("live_mirror_partner:pooled")
                return other
            ctx.count("live_mirror_partner:inverted-now")
            return pool.add(x.obj.invert(), log=x.log + ["invert"], ranges=x.meta["ranges"], inverted=not x.meta["inverted"])
        if use == "chain":
            firsts = [e] + [pool.draw() for _ in range(rng.randint(1, 2))]
        else:
            firsts = [e]
        if use == "mirror-later":
            firsts = [inverse_of(e)]
            seconds = [e]
        else:
            seconds = [inverse_of(x) for x in firsts]
        members = firsts + list(reversed(seconds))
        kk = len(firsts)

        def build():
            # one Mapping object, asked between its edits: after the forward half (no mirrors yet) it is the plain composition
            mp = Mapping()
            for idx, x in enumerate(members):
                if idx < kk:
                    mp.append_map(x.obj)
                else:
                    mp.append_map(x.obj, 2 * kk - 1 - idx)
                if idx == kk - 1:
                    half = [(x2.meta["ranges"], x2.meta["inverted"]) for x2 in firsts]
                    for assoc in (-1, 1):
                        for pos in range(span(*half[0]) + 1):
                            got, exp = mp.map(pos, assoc), compose(half, pos, assoc)
                            ctx.count("live_mapping_asked_between_edits")
                            if got != exp:
                                ctx.violation("mapping-composition", "Mapping.map is not the left-to-right composition",
                                              replay(maps=[list(h) for h in half], pos=pos, assoc=assoc, got=got, expected=exp,
                                                     histories=[list(x2.log) for x2 in firsts]))
                                return mp
            return mp
        st, mp = outcome(build)
        for x in members:
            x.used(use + ("#%d" % members.index(x)))
        law = all(strict_wf(x.meta["ranges"]) for x in firsts)
        if st != "ok":
            ctx.violation("mirror-roundtrip", f"building a mapping of a map and its inverse as mirrors raised {mp}",
                          replay(chain=[[x.meta["ranges"], x.meta["inverted"]] for x in members]))
        else:
            f0 = members[0]
            hi = span(f0.meta["ranges"], f0.meta["inverted"]) + 1
            mj = [[list(x.meta["ranges"]), x.meta["inverted"]] for x in members]
            mir = list(mp.mirror or [])
            bad = False
            for assoc in (-1, 1):
                for pos in range(hi):
                    stg, got = outcome(lambda: mp.map(pos, assoc))
                    ctx.count("live_mirror_calls")
                    if stg != "ok" or (law and got != pos):
                        if not bad:
                            ctx.violation("mirror-roundtrip", "mapping forward and back through mirrored maps does not return the position",
                                          replay(chain=mj, mirror=mir, pos=pos, assoc=assoc, got=got if stg == "ok" else str(got),
                                                 histories=[list(x.log) for x in members]))
                        bad = True
                        continue
                    str_, r = outcome(lambda: mp.map_result(pos, assoc))
                    if str_ == "ok":
                        reqs.append({"op": "mappingMap", "mapping": {"maps": mj, "mirror": mir}, "pos": pos, "assoc": assoc})
                        metas.append(("mappingMap", mj, None, [got, r.pos, r.del_info]))
    e.used(use)
    return derived


def check_live(ctx, rng, reqs, metas, n_cases):
    from ..reuse import Pool
    pool = Pool(rng, cap=10)

    def fresh():
        r = random_map(rng, 4, strict=rng.random() < 0.75)
        inv = rng.random() < 0.35
        return pool.add(StepMap(list(r), inv), ranges=r, inverted=inv)
    for _ in range(n_cases):
        e = fresh() if (len(pool) < 3 or rng.random() < 0.25) else pool.draw()
        ctx.count("live_cases")
        for _u in range(rng.randint(1, 4)):
            d = live_use(ctx, rng, pool, e, rng.choice(LIVE_USES), reqs, metas)
            if d is not None and rng.random() < 0.6:
                e = d       # go on with the derived object


def run(ctx):
    core.lean_phase(ctx)
    rng = ctx.rng
    reqs, metas = [], []
    if ctx.tier == "thorough":
        pool = list(small_maps(3, 2, 2))
        exhaustive = True
    else:
        pool = list(small_maps(2, 2, 2))
        big = list(small_maps(3, 2, 1))
        pool += rng.sample(big, min(len(big), 600))
        exhaustive = False
    for r in pool:
        for inv in (False, True):
            check_map(ctx, r, inv, reqs, metas)
    for _ in range(ctx.budget(300, 5000)):
        check_map(ctx, random_map(rng), rng.random() < 0.5, reqs, metas)
    check_mappings(ctx, rng, reqs, metas, ctx.budget(150, 3000))
    check_algebra(ctx, rng, reqs, metas, ctx.budget(150, 3000))
    check_live(ctx, rng, reqs, metas, ctx.budget(120, 2500))
    # correspondence
    if reqs:
        outs = ctx.driver.run(reqs)
        for req, meta, out in zip(reqs, metas, outs):
            ctx.count("model_requests")
            exp = meta[3]
            got = out.get("ok", out)
            if got != exp:
                ctx.mismatch(meta[0], req, exp, out)
    ctx.notes.append("small-scope enumeration: all well-formed maps with <=3 ranges, sizes<=2, gaps<=2 (both orientations, all positions, both sides)"
                     if exhaustive else "quick tier: all maps with <=2 ranges + a sample of 3-range maps + random larger maps")
    return ctx.finish(
        rule="a case is one step map (all positions x both association sides x both orientations, for_each, touches, recover) "
             "or one random mapping (composition, slices, appends, inversion, mirrored palindromes); distinct by content; "
             "non-trivial = at least one range",
        # `exhaustive` stays false: the run also samples an unbounded space (random larger maps and mappings); the small
        # scope named in the notes is enumerated completely in the thorough tier
        extra={"exhaustive": False, "small_scope_enumerated_completely": exhaustive, "small_scope_maps": len(pool) * 2})


if __name__ == "__main__":
    core.main("C08", run)
