"""C16 — a merged step is equivalent to the two steps it replaces.

Tie (relational: *which* pairs merge is not pinned by the property): whenever the real `merge`
returns a step, the real code applies the pair and the merged step; the model's `merge`
(lean/PM/Step.lean) is evaluated on the same pair and, when it merges too, its merged step is
applied by the real code and must give the same document.
Search: equality of the two results, success of the merged step, equal size delta.

Guard of `merge_succeeds_replace` (lean/Props/C16.lean): `compatible_content` is transitive on the schema's node
types (`compatTransB`, lean/PM/UndoGuard.lean).  Tie: for every schema used, the guard evaluated with the real
`NodeType.compatible_content` is compared with the model's value (driver op `compatTrans`).  Relational oracle:
guard true and the pair applies  =>  the merged step applies in the real code.  Every schema of the bundled family
(the property's quantifier) has to satisfy the guard; in a schema that does not, a merged replace step that is refused
although the pair applied is counted (`merged-fails:guard-false`), not reported, when the per-case guard below is false —
the statement is false there (`merge_needs_guard`, same file) — and reported otherwise.

Per-case guard of `merge_succeeds_replace_backward` (`mergeCompat`, lean/PM/MergeGuard.lean): in the second `merge`
branch the ancestors of `second.from` and of `first.to` in the original document have join-compatible types at every
depth up to `depth(first.from)`; nothing in the first branch (`merge_succeeds_replace_forward`).  Tie: the guard computed
with `ResolvedPos.node(d)` and `NodeType.compatible_content` of the real code is compared with the model's value for
every merged replace pair (driver op `mergeCompat`, exact).  Relational oracle, in every schema (transitive or not):
guard true and the pair applies  =>  the real merged step applies and gives the pair's document; a refused merged step
with the guard false is counted (`merged-fails:guard-false`) — each of them is explained by the guard; guard false and
the real merged step applies is a mismatch (the guard is necessary too: `merge_succeeds_replace_iff`).
Which pairs merge: the model's `merge` and the real one are compared exactly (merged or not, and the merged step).
"""
from prosemirror.model import Fragment, Schema, Slice
from prosemirror.transform import AddMarkStep, RemoveMarkStep, ReplaceStep

from .. import core, gen, schemas
from ..core import outcome


def apply_doc(step, doc):
    st, res = outcome(lambda: step.apply(doc))
    if st == "ok" and res.doc is not None:
        return res.doc
    return None


def compat_transitive(schema):
    """`compatible_content` is transitive on the node types of the schema (real code)"""
    types = list(schema.nodes.values())
    rel = {(a.name, b.name): bool(a.compatible_content(b)) for a in types for b in types}
    return all(not (rel[a.name, b.name] and rel[b.name, c.name]) or rel[a.name, c.name]
               for a in types for b in types for c in types)


def text_loop(schema):
    """`TextLoop` (lean/Proofs/TokValid.lean) on the real content automata: after a text child another text child is
    accepted and the automaton stays where it is"""
    text = schema.nodes["text"]
    for nt in schema.nodes.values():
        seen, todo = [], [nt.content_match]
        while todo:
            m = todo.pop()
            if any(m is x for x in seen):
                continue
            seen.append(m)
            todo.extend(e.next for e in m.next)
        for m in seen:
            q1 = m.match_type(text)
            if q1 is not None and q1.match_type(text) is not q1:
                return False
    return True


def merge_branch(s1, s2):
    """which branch of `ReplaceStep.merge` joins the pair (1: second continues after first's content; 2: second ends where
    first starts; 0: none)"""
    if not (isinstance(s1, ReplaceStep) and isinstance(s2, ReplaceStep)) or s1.structure or s2.structure:
        return 0
    if s1.from_ + s1.slice.size == s2.from_ and not s1.slice.open_end and not s2.slice.open_start:
        return 1
    if s2.to == s1.from_ and not s1.slice.open_start and not s2.slice.open_end:
        return 2
    return 0


def merge_compat(d, s1, s2):
    """`mergeCompat` (lean/PM/MergeGuard.lean) with the real code's resolve / compatible_content:
    (guard, levels looked at, branch)"""
    br = merge_branch(s1, s2)
    if br != 2:
        return True, 0, br
    depth = d.resolve(s1.from_).depth
    rf, rt = d.resolve(s2.from_), d.resolve(s1.to)
    ok = True
    for k in range(1, depth + 1):
        if k > rf.depth or k > rt.depth:
            break
        if not rf.node(k).type.compatible_content(rt.node(k).type):
            ok = False
            break
    return ok, depth, br


def join_pairs(rng, d):
    """deletions that join two or three sibling nodes (at any depth), as a pair of adjacent steps in either order:
    backwards (join the last two, then the result onto the first) and forwards"""
    parents = [(0, d)]
    d.descendants(lambda n, pos, par, i: parents.append((pos + 1, n)) or True)
    out = []
    rng.shuffle(parents)
    for start, par in parents[:6]:
        kids, off = [], start
        for k in range(par.child_count):
            c = par.child(k)
            if not c.is_leaf and not c.is_text:
                kids.append((off, c))
            off += c.node_size
        if len(kids) < 2:
            continue
        pick = sorted(rng.sample(range(len(kids)), min(len(kids), rng.choice([2, 3, 3]))))
        pos = []
        for i in pick:
            cstart, c = kids[i]
            inner = [0]
            for k in range(c.child_count):
                inner.append(inner[-1] + c.child(k).node_size)
            pos.append(cstart + 1 + rng.choice(inner))
        if len(pos) == 2:
            pos = [pos[0], pos[1], pos[1]] if rng.random() < 0.5 else [pos[0], pos[0], pos[1]]
        p, q, r = pos
        out.append((ReplaceStep(q, r, Slice.empty), ReplaceStep(p, q, Slice.empty)))
        out.append((ReplaceStep(p, q, Slice.empty), ReplaceStep(p, p + (r - q), Slice.empty)))
    return out


def deep_join_typing_pairs(rng, d, schema):
    """"select from one textblock into a textblock of another branch, delete, type a character": a deletion between two
    equally deep text positions whose branches part two or more levels above them, paired with a flat text insertion at its
    start (after it, and before it) — the merged step puts a closed slice over a range whose ends sit in different branches"""
    tbs = []
    d.descendants(lambda n, pos, par, i: tbs.append((pos + 1, n)) or True if n.is_textblock else True)
    out = []
    cands = []
    for a in range(len(tbs)):
        for b in range(a + 1, len(tbs)):
            (s1, n1), (s2, n2) = tbs[a], tbs[b]
            try:
                r1 = d.resolve(s1)
                if r1.depth != d.resolve(s2).depth or r1.shared_depth(s2) > r1.depth - 2:
                    continue
            except Exception:  # noqa: BLE001
                continue
            cands.append((s1, n1, s2, n2))
    rng.shuffle(cands)
    for s1, n1, s2, n2 in cands[:4]:
        p = s1 + rng.choice([n1.content.size, n1.content.size, 0])
        q = s2 + rng.choice([0, 0, n2.content.size])
        if not (gen.pair_aligned(d, p) and gen.pair_aligned(d, q)):
            continue
        t1 = schema.text(gen.gen_text(rng, 1, 2, plain=True))
        ins = Slice(Fragment.from_(t1), 0, 0)
        out.append((ReplaceStep(p, q, Slice.empty), ReplaceStep(p, p, ins)))
        out.append((ReplaceStep(p, p, ins), ReplaceStep(p + t1.node_size, q + t1.node_size, Slice.empty)))
    return out


def aimed_bridge(rng, info, n):
    """(document, pairs) in the hand-written schemas `bridge` / `bridge-local` (A ~ C ~ B, not A ~ B): three siblings
    A, C, B (or B, C, A) among random ones; deleting backwards joins the third onto the second, then the result onto
    the first — the merged step has to join the third onto the first directly (`merge_needs_guard`)"""
    schema = info.schema
    N = schema.nodes

    def leaf(name):
        t = N[name]
        if t.is_leaf:
            return t.create()
        return t.create(None, [schema.text(gen.gen_text(rng, 1, 2, plain=True))] if rng.random() < 0.6 else [])

    def mk(name, n_q=None):
        if name == "A":
            return N["A"].create(None, [leaf("p")] + [leaf("q") for _ in range(rng.randint(0, 2) if n_q is None else n_q)])
        if name == "B":
            return N["B"].create(None, [leaf("q") for _ in range(rng.randint(1, 3))])
        return N["C"].create(None, [leaf(rng.choice("pq")) for _ in range(rng.randint(0, 3))])

    def bounds(node, lo=0):
        inner = [0]
        for k in range(node.child_count):
            inner.append(inner[-1] + node.child(k).node_size)
        return inner[lo:]

    out = []
    for _ in range(n):
        before = [mk(rng.choice("ABC")) for _ in range(rng.randint(0, 2))]
        after = [mk(rng.choice("ABC")) for _ in range(rng.randint(0, 2))]
        mirrored = rng.random() < 0.5
        trio = [mk("B"), mk("C"), mk("A")] if mirrored else [mk("A"), mk("C"), mk("B")]
        d = N["doc"].create(None, before + trio + after)
        start = sum(x.node_size for x in before)
        s0, s1_, s2_ = start, start + trio[0].node_size, start + trio[0].node_size + trio[1].node_size
        # cut points that keep the first node's content valid after the joins
        p = s0 + 1 + rng.choice(bounds(trio[0], 1))
        q = s1_ + 1 + rng.choice(bounds(trio[1]))
        r = s2_ + 1 + rng.choice(bounds(trio[2], 1 if mirrored else 0))
        pairs = [(ReplaceStep(q, r, Slice.empty), ReplaceStep(p, q, Slice.empty)),
                 (ReplaceStep(p, q, Slice.empty), ReplaceStep(p, p + (r - q), Slice.empty))]
        out.append((d, pairs))
    return out


_SLICES = {}


def adjacent_pairs(rng, info, d, docs):
    """pairs of consecutive steps shaped like real editing: typing, backspacing, extending mark ranges"""
    schema = info.schema
    out = []
    size = d.content.size
    al = gen.aligned_positions(d)
    for _ in range(6):
        p = rng.choice(al)
        t1 = schema.text(gen.gen_text(rng, 1, 3, plain=rng.random() < 0.5))
        t2 = schema.text(gen.gen_text(rng, 1, 3, plain=rng.random() < 0.5), t1.marks if rng.random() < 0.7 else gen.gen_marks_ref(rng, schema, schema.nodes["text"], 0.9))
        s1 = ReplaceStep(p, p, Slice(Fragment.from_(t1), 0, 0))
        kind = rng.random()
        if kind < 0.4:
            s2 = ReplaceStep(p + t1.node_size, p + t1.node_size, Slice(Fragment.from_(t2), 0, 0))      # typing on
        elif kind < 0.6:
            s2 = ReplaceStep(p, p, Slice(Fragment.from_(t2), 0, 0))                                     # typing before
        elif kind < 0.8:
            q = min(size, p + rng.randint(0, 2))
            s1 = ReplaceStep(p, q, Slice.empty)
            s2 = ReplaceStep(max(0, p - rng.randint(0, 2)), p, Slice.empty)                              # backspace
        else:
            sl = gen.random_slice(rng, docs)
            t1_ = min(size, p + rng.randint(0, 3))
            s1 = ReplaceStep(p, t1_, sl)
            size1 = size + sl.size - (t1_ - p)
            f2 = p + sl.size
            s2 = ReplaceStep(f2, max(f2, min(size1, f2 + rng.randint(0, 2))), gen.random_slice(rng, docs))
        out.append((s1, s2))
    # a deletion that runs from inside one node to an equally deep position inside a later sibling (the two nodes are
    # joined), with an insertion typed at its start before or after it
    for _ in range(4):
        p = rng.choice(al)
        rp = d.resolve(p)
        if rp.depth == 0:
            continue
        par = rp.node(rp.depth - 1)
        idx = rp.index(rp.depth - 1)
        if idx + 1 >= par.child_count:
            continue
        j = rng.randint(idx + 1, par.child_count - 1)
        sib = par.child(j)
        if sib.is_leaf or sib.is_text:
            continue
        start_sib = rp.pos_at_index(j, rp.depth - 1) if hasattr(rp, "pos_at_index") else None
        if start_sib is None:
            continue
        inner = [0]
        for k in range(sib.child_count):
            inner.append(inner[-1] + sib.child(k).node_size)
        q = start_sib + 1 + rng.choice(inner)
        t1 = schema.text(gen.gen_text(rng, 1, 2, plain=True))
        ins = Slice(Fragment.from_(t1), 0, 0)
        if rng.random() < 0.5:
            out.append((ReplaceStep(p, q, Slice.empty), ReplaceStep(p, p, ins)))
        else:
            out.append((ReplaceStep(p, p, ins), ReplaceStep(p + t1.node_size, q + t1.node_size, Slice.empty)))
    # a replace whose slice goes where its open depths fit (a paste that joins onto the nodes around it), followed by a step
    # that ends where it starts, or starts where its content ends (deleting / typing / pasting next to a paste): the seam
    # between the two slices is closed or open on either side, in both directions of adjacency
    depths = gen.position_depths(d)
    if _SLICES.get("docs") is not docs:
        _SLICES["docs"], _SLICES["pool"] = docs, []
    pool = _SLICES["pool"]       # Slice objects shared by the pairs of all documents of this schema (slices are values)

    def some_slice():
        if len(pool) >= 4 and rng.random() < 0.75:
            return rng.choice(pool)
        sl_ = gen.random_slice(rng, docs)
        if len(pool) < 12:
            pool.append(sl_)
        else:
            pool[rng.randrange(12)] = sl_
        return sl_
    for _ in range(2):
        sl = some_slice()
        fit = gen.fitting_range(rng, al, depths, sl) if len(depths) == size + 1 else None
        if fit is None:
            continue
        p, t1_ = fit
        s1 = ReplaceStep(p, t1_, sl)
        nxt = Slice.empty if rng.random() < 0.5 else some_slice()
        if rng.random() < 0.5:
            s2 = ReplaceStep(max(0, p - rng.randint(0, 3)), p, nxt)
        else:
            f2 = p + sl.size
            s2 = ReplaceStep(f2, f2 + rng.randint(0, 3), nxt)
        out.append((s1, s2))
    present = []
    d.descendants(lambda n, p, par, i: present.extend(n.marks) or True)
    for _ in range(6):
        m = rng.choice(present) if present and rng.random() < 0.6 else gen.gen_mark(rng, schema)
        if m is None:
            break
        f, t = gen.random_range(rng, d)
        f2 = rng.randint(max(0, f - 2), min(size, t + 2))
        t2 = rng.randint(f2, min(size, f2 + 5))
        cls = AddMarkStep if rng.random() < 0.5 else RemoveMarkStep
        r = rng.random()
        if r < 0.65:
            m2 = m
        elif r < 0.85:
            # the same mark type with other attributes (present in the document if possible)
            same_type = [x for x in present if x.type is m.type and not x.eq(m)]
            m2 = rng.choice(same_type) if same_type else gen.gen_mark(rng, schema, [m.type.name])
        else:
            m2 = gen.gen_mark(rng, schema)
        out.append((cls(f, t, m), cls(f2, t2, m2)))
    for _ in range(4):
        out.append((gen.gen_step(rng, info, d, docs), gen.gen_step(rng, info, d, docs)))
    out.extend(join_pairs(rng, d))
    out.extend(deep_join_typing_pairs(__import__("random").Random(rng.random()), d, info.schema))
    return out


def run(ctx):
    core.lean_phase(ctx)
    rng = ctx.rng
    reqs, metas = [], []
    greqs, gmetas = [], []
    creqs, cmetas = [], []
    guard_of = {}
    loop_of = {}

    def flush():
        gouts = ctx.driver.run(greqs) if greqs else []
        for (name, impl), out in zip(gmetas, gouts):
            ctx.count("guard:model_requests")
            if isinstance(impl, tuple):
                if (out.get("ok") or {}).get("textLoop") is not impl[1]:
                    ctx.mismatch("textLoop", {"schema": name}, impl[1], out)
                continue
            if out.get("ok") is not impl:
                ctx.mismatch("compatTrans", {"schema": name}, impl, out)
        del greqs[:], gmetas[:]
        couts = ctx.driver.run(creqs) if creqs else []
        for (replay, impl), out in zip(cmetas, couts):
            ctx.count("mergeCompat:model_requests")
            if out.get("ok") != list(impl):
                ctx.mismatch("mergeCompat", replay, list(impl), out)
        del creqs[:], cmetas[:]
        outs = ctx.driver.run(reqs) if reqs else []
        for req, (replay, info, d, d2, impl_merged, dm_impl), out in zip(reqs, metas, outs):
            ctx.count("model_requests")
            mj = out.get("ok")
            if "ok" not in out:
                ctx.mismatch("merge", replay, "answer", out)
                continue
            if (mj is None) != (impl_merged is None):
                # which pairs merge: exact (the two never differed over some 10^5 recorded pairs)
                ctx.mismatch("merge", replay, "merged" if impl_merged is not None else "not merged", {"merged": mj})
                continue
            if mj is None:
                ctx.count("model:unmerged")
                continue
            ctx.count("model:merged")
            stm, ms = outcome(lambda: info.un_step(mj))
            if stm != "ok" or ms.to_json() != impl_merged.to_json():
                ctx.mismatch("merge", replay, impl_merged.to_json(), {"merged": mj})
                continue
            if dm_impl is None:
                continue        # the real merged step is refused (guard false, counted above): nothing to reproduce
            dm = apply_doc(ms, d)
            if dm is None or not dm.eq(d2):
                ctx.mismatch("merge", replay, "model's merged step reproduces the two-step result on the real code", {"merged": mj})
        del reqs[:], metas[:]

    def reused_pair(info, d, docs, s1, s2, merged, d2, replay):
        """the statement is about every document on which the two-step sequence applies, and steps are values: the same
        three step objects (first, second, merged) are applied to other documents; `merge` asked a second time for the same
        two objects gives a step that is held to the same statement"""
        for d_o in rng.sample(docs, min(len(docs), 2)):
            if d_o is d or not gen.step_aligned(d_o, s1):
                continue
            e1 = apply_doc(s1, d_o)
            e2 = apply_doc(s2, e1) if e1 is not None and gen.step_aligned(e1, s2) else None
            if e2 is None:
                continue
            ctx.count("merged_pair_on_another_document:" + type(s1).__name__)
            em = apply_doc(merged, d_o)
            rg = (True, 0, 0)
            if isinstance(s1, ReplaceStep):
                stg, rg = outcome(lambda: merge_compat(d_o, s1, s2))
                if stg != "ok":
                    continue
            r2 = dict(replay, doc=d_o.to_json(), merged_for_document=d.to_json())
            if em is None and not rg[0] and not guard_of[id(info)]:
                ctx.count("merged-fails:guard-false")
            elif em is None:
                ctx.violation("merged-fails", "the merged step does not apply although the two-step sequence does", r2)
            elif not em.eq(e2):
                ctx.violation("merged-differs", "the merged step gives a different document than the two steps", dict(r2, two=e2.to_json(), one=em.to_json()))
        stm2, again = outcome(lambda: s1.merge(s2))
        ctx.count("merge_asked_again")
        if stm2 != "ok":
            ctx.violation("merge-raises", f"merge raised {again} when asked a second time for the same two steps", replay)
        elif again is not None:
            da = apply_doc(again, d)
            if da is None:
                ctx.violation("merged-fails", "the merged step (merge asked a second time) does not apply although the two-step sequence does", dict(replay, merged=again.to_json()))
            elif not da.eq(d2):
                ctx.violation("merged-differs", "the merged step (merge asked a second time) gives a different document than the two steps",
                              dict(replay, merged=again.to_json(), two=d2.to_json(), one=da.to_json()))

    def one_doc(info, d, docs, extra=()):
        schema = info.schema
        for s1, s2 in list(extra) + adjacent_pairs(rng, info, d, docs):
            if any(getattr(x, "from_", 0) > getattr(x, "to", 0) for x in (s1, s2)):
                continue   # outside the guard from <= to
            d1 = apply_doc(s1, d)
            if d1 is None:
                continue
            d2 = apply_doc(s2, d1)
            if d2 is None:
                continue
            stm, merged = outcome(lambda: s1.merge(s2))
            replay = {"schema": info.name, "doc": d.to_json(), "first": s1.to_json(), "second": s2.to_json()}
            ctx.case(["merge", info.name, d.to_json(), s1.to_json(), s2.to_json()], nontrivial=stm == "ok" and merged is not None,
                     sample={"op": "merge", "schema": info.name, "first": s1.to_json(), "second": s2.to_json(),
                             "merged": merged.to_json() if stm == "ok" and merged is not None else None})
            if stm != "ok":
                ctx.violation("merge-raises", f"merge raised {merged}", replay)
                continue
            ctx.count(("merged:" if merged is not None else "unmerged:") + type(s1).__name__)
            if merged is not None and not isinstance(s1, ReplaceStep) and not loop_of[id(info)]:
                ctx.count("merged:" + type(s1).__name__ + ":schema-without-textLoop")
            dm = None
            if merged is not None:
                replay["merged"] = merged.to_json()
                dm = apply_doc(merged, d)
                rg = (True, 0, 0)
                if isinstance(s1, ReplaceStep):
                    rg = merge_compat(d, s1, s2)
                    ctx.count("mergeCompat:branch%d:%s" % (rg[2], "true" if rg[0] else "false")
                              + ("" if guard_of[id(info)] else ":schema-nontransitive"))
                    creqs.append({"op": "mergeCompat", "s": info.lean_id, "doc": info.node(d), "a": info.step(s1), "b": info.step(s2)})
                    cmetas.append((replay, rg))
                    if guard_of[id(info)] and not rg[0]:
                        # compatTransB and the pair applying imply the per-case guard (mergeCompat_of_trans)
                        ctx.mismatch("mergeCompat", replay, "the schema guard holds and the pair applies, so the per-case guard holds", "per-case guard false")
                    if not rg[0] and dm is not None:
                        # the guard is necessary as well (mergeCompat_of_merged_applies): the model says this cannot happen
                        ctx.mismatch("mergeCompat", replay, "guard false, so the merged step is refused", "the real merged step applies")
                if dm is None and not rg[0] and not guard_of[id(info)]:
                    ctx.count("merged-fails:guard-false")      # explained by the per-case guard (merge_needs_guard)
                elif dm is None:
                    ctx.violation("merged-fails", "the merged step does not apply although the two-step sequence does", replay)
                elif not dm.eq(d2):
                    ctx.violation("merged-differs", "the merged step gives a different document than the two steps", dict(replay, two=d2.to_json(), one=dm.to_json()))
                elif dm.content.size != d2.content.size:
                    ctx.violation("merged-size", "size delta differs", replay)
            reqs.append({"op": "merge", "a": info.step(s1), "b": info.step(s2)})
            metas.append((replay, info, d, d2, merged, dm))
            if merged is not None and dm is not None and rng.random() < 0.2:
                reused_pair(info, d, docs, s1, s2, merged, d2, replay)

    fam = schemas.family()
    aimed = [schemas.by_name("bridge"), schemas.by_name("bridge-local")]    # compatible_content not transitive
    # schemas without `TextLoop` (a text child cannot always be followed by another one): merged mark steps there
    aimed += [schemas.SchemaInfo(Schema({"nodes": {"doc": {"content": "para+"}, "para": {"content": c, "marks": "_"},
                                                    "img": {"inline": True}, "text": {"inline": True}},
                                         "marks": {"em": {}, "strong": {}}}), name)
              for name, c in (("text-upto3-local", "text{0,3}"), ("text-img-local", "(text img)* text?"))]
    for si in range(ctx.budget(16, 60)):
        if len(reqs) >= 15000:
            flush()     # keep memory bounded in long runs
        # the statement quantifies over every schema: after one pass over the family, half of the schemas are random ones
        if si < len(fam):
            info = fam[si]
        elif si < len(fam) + len(aimed):
            info = aimed[si - len(fam)]
        else:
            info = fam[si % len(fam)] if rng.random() < 0.5 else schemas.random_schema(rng)
        schema = info.schema
        ctx.driver.add_schema(info)
        if id(info) not in guard_of:
            guard_of[id(info)] = compat_transitive(schema)
            is_fam = any(info is x for x in fam)
            ctx.count("guard:" + ("family" if is_fam else "random") + (":true" if guard_of[id(info)] else ":false"))
            if is_fam and not guard_of[id(info)]:
                ctx.mismatch("compatTrans", {"schema": info.name}, False, "every schema of the bundled family satisfies the guard")
            greqs.append({"op": "compatTrans", "s": info.lean_id})
            gmetas.append((info.name, guard_of[id(info)]))
            # `TextLoop`, the hypothesis of merge_succeeds_marks: not asked for by the oracle below (a refused merged mark
            # step is a violation in every schema); counted to show that schemas without it are exercised
            loop_of[id(info)] = text_loop(schema)
            ctx.count("textLoop:" + ("family" if is_fam else "random") + (":true" if loop_of[id(info)] else ":false"))
            greqs.append({"op": "schemaHyps", "s": info.lean_id})
            gmetas.append((info.name, ("textLoop", loop_of[id(info)])))
        docs = [x for x in (ctx.guard(lambda: gen.gen_doc(rng, schema, budget=rng.choice([6, 12, 25])), "gen_doc")
                            for _ in range(ctx.budget(5, 10))) if x is not None]
        docs += [x for x in (ctx.guard(lambda: gen.gen_marky_doc(rng, schema), "gen_marky_doc") for _ in range(ctx.budget(2, 4))) if x is not None]
        for d in docs:
            if ctx.time_left() < 0:
                break
            ctx.guard(lambda: one_doc(info, d, docs), "merge cases of one document")
        if info.name in ("bridge", "bridge-local"):
            for d, pairs in aimed_bridge(rng, info, ctx.budget(10, 40)):
                ctx.guard(lambda: one_doc(info, d, docs + [d], pairs), "aimed merge cases (non-transitive schema)")
    flush()
    return ctx.finish(
        rule="a case is (document, first step, second step) with the second applying to the result of the first: typing/backspacing "
             "style adjacent replace steps, replace steps with open slices, overlapping/touching mark steps, random pairs; "
             "deletions joining two or three siblings backwards and forwards; bundled-family, random and aimed schemas (compatible_content "
             "not transitive; text children that may not repeat); non-trivial = the real merge returned a step")


if __name__ == "__main__":
    core.main("C16", run)
