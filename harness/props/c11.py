"""C11 — replace-family edits always succeed, stay valid and keep surrounding content.

Tie (relational — the fitting heuristics are not pinned): every step the real replace / replace_with /
insert / delete / replace_range / replace_range_with / delete_range emits is (a) applied by the model
as well (same document: exact tie of apply) and (b) checked with the Lean monitor `respects`
(lean/PM/Monitor.lean): its range differs from the requested one only by structural tokens and what it
inserts is an in-order subsequence of the requested content. Props/C11.lean proves what that implies.
Planning code (exact ties via harness/rangeplan.py): `fits_trivially`, the answer of `replace_step` as far as no Fitter
is involved, and the range `delete_range` hands to `Transform.delete` (lean/PM/RangeOps.lean; observed through a Transform
subclass in this process); the Fitter itself — the step `replace_step` emits, exactly, on the bundled-family schemas, and the
step `delete_range` records (lean/PM/Fitter.lean), with the `fill_before` / `find_wrapping` choices it depends on
(lean/PM/FillOrder.lean); `replace_range` / `replace_range_with` as wholes (lean/PM/ReplaceRange.lean): the whole sequence of
`(from, to, slice)` they hand to `Transform.replace` (observed through a Transform subclass), `close_fragment`, and the pair
`replace_range_with` passes on — also on two aimed schemas with `definingAsContext` / `definingForContent`.
Props/C11.lean proves `respects` for these models (`fitsTrivially_respects`, `deleteRange_respects`,
`fit_range`, `fitter_respects`, `replaceRange_extends_structurally`, `replaceRange_respects`) instead of only monitoring it.
Totality: theorems of the model for the termination of the loop of `Fitter.fit`, for deletions and for closed slices of leaf
nodes (Props/C11.lean, last sections); their decidable guards / hypotheses are evaluated by the driver on every generated
request (op `fitGuards`, harness/rangeplan.py): the finding class `partial_node_class` exactly, and relationally "guards true
=> the real replace_step did not raise and did return"; the divergence example of Props/C11.lean is run on the real code.
Search: on the real code: no exception on the bundled-family schemas, `check()` + the independent validator, and content
preservation computed from to_json().
"""
import random

from prosemirror.model import Fragment, Slice
from prosemirror.transform import Transform

from .. import core, delguards, gen, ops, rangeplan, schemas
from ..codec import doc_tokens, frag_tokens
from ..core import outcome
from ..validator import validator


def content(toks):
    return [(t[0], t[1]) for t in toks if t[0] in ("leaf", "u")]


def is_subseq(a, b):
    it = iter(b)
    return all(any(x == y for y in it) for x in a)


def requested(name, args, schema):
    if name == "replace":
        return args[0], args[1], args[2]
    if name == "replace_with":
        return args[0], args[1], Slice(Fragment.from_(args[2]), 0, 0)
    if name == "insert":
        return args[0], args[0], Slice(Fragment.from_(args[1]), 0, 0)
    if name in ("delete", "delete_range"):
        return args[0], args[1], Slice.empty
    if name == "replace_range":
        return args[0], args[1], args[2]
    if name == "replace_range_with":
        return args[0], args[1], Slice(Fragment.from_(args[2]), 0, 0)
    raise KeyError(name)


def slice_content(schema, sl):
    toks = frag_tokens(schema, sl.content)
    return content(toks[sl.open_start:len(toks) - sl.open_end])


def run(ctx):
    core.lean_phase(ctx)
    rng = ctx.rng
    reqs, metas = [], []
    del_guards = {}      # schema name -> the driver's evaluation of the schema guards of `delete_applies`

    def flush():
        outs = ctx.driver.run(reqs) if reqs else []
        for req, (op, replay, exp), out in zip(reqs, metas, outs):
            ctx.count("model_requests")
            if op in delguards.ANSWER:
                # the hypotheses of `delete_applies` / `delete_never_raises` (lean/PM/DeleteGuards.lean, Props/C11.lean): exact,
                # and the statement itself relationally (hypotheses true => the real operation returned)
                if delguards.answer(op, out) != exp:
                    ctx.mismatch(op, replay, exp, out)
                if op == "deleteGuards":
                    if isinstance(out.get("ok"), dict):
                        del_guards[replay["schema"]] = out["ok"]
                elif op == "trivialApplies":
                    delguards.check_trivial_applies(ctx, replay, out)
                elif op == "directApplies":
                    delguards.check_direct_applies(ctx, replay, out)
                else:
                    delguards.check_delete_applies(ctx, replay, out)
                continue
            if op in rangeplan.EXACT_OPS:
                # planning code modelled in lean/PM/RangeOps.lean, Fitter.lean, FillOrder.lean: exact, including "the code raises"
                if rangeplan.answer(out) != exp:
                    ctx.mismatch(op, replay, exp, out)
                if op == "fitGuards":
                    # relational: the model's guards true => the real replace_step neither raised nor hung
                    rangeplan.check_fit_guards(ctx, replay, out)
                if op == "fitRaise":
                    # relational: hypotheses of fit_no_raise / fit_no_raise_while true => the real replace_step returned
                    rangeplan.check_fit_raise(ctx, replay, out)
                if op == "fitEmit":
                    # relational: start half always, StepWF under the hypotheses of the theorems, payload of the real step valid
                    rangeplan.check_fit_emit(ctx, replay, out)
                continue
            if out.get("ok") != exp:
                ctx.mismatch(op, replay, "recorded document" if op == "apply" else exp, out if ("err" in out or op != "apply") else "different document")
        del reqs[:], metas[:]

    # the divergence example of Props/C11.lean on the real code (the loop of Fitter.fit does not end) and in the model (outOfFuel)
    rangeplan.tie_divergence_example(ctx, reqs, metas)
    fam = schemas.family()
    # the schema guards of `delete_applies` on every named schema (family and extra), computed on the real Schema objects and
    # by the driver on the compiled tables; the counterexample schema of `joinCompat_needed` on the real code
    for info_g in fam + schemas.extra():
        ctx.driver.add_schema(info_g)
        delguards.tie_schema_guards(ctx, info_g, reqs, metas)
    delguards.tie_join_counterexample(ctx, reqs, metas)
    flush()
    rng_rr = random.Random(ctx.seed * 7919 + 11)     # the replace_range ties draw from their own stream
    rng_fr = random.Random(ctx.seed * 6151 + 5)      # … and the fit_no_raise tie on random schemas
    # replace_range on the aimed schemas with `definingAsContext` / `definingForContent` (harness/schemas.py), and
    # replace_range_with at block boundaries (where insert_point moves the target)
    for info in [schemas.by_name("ctx-flags-a"), schemas.by_name("ctx-flags-b")] + [fam[k] for k in (1, 5, 6)]:
        ctx.driver.add_schema(info)
        docs = [gen.gen_doc(rng_rr, info.schema, budget=rng_rr.choice([8, 16, 30])) for _ in range(ctx.budget(4, 10))]
        for d in docs:
            for _ in range(ctx.budget(10, 40)):
                f, t = gen.random_range(rng_rr, d)
                if rng_rr.random() < 0.5:
                    sl = gen.random_slice(rng_rr, docs)
                    rangeplan.tie_replace_range(ctx, info, d, f, t, sl, reqs, metas)
                    if sl.open_start:
                        rangeplan.tie_close_fragment(ctx, info, sl, reqs, metas)
                else:
                    n_ = ops.random_node(rng_rr, info, docs)
                    if n_ is not None:
                        if rng_rr.random() < 0.6:
                            t = f
                        rangeplan.tie_replace_range_with(ctx, info, d, f, t, n_, reqs, metas)
    for si in range(ctx.budget(18, 80)):
        if len(reqs) >= 15000:
            flush()     # keep memory bounded in long runs
        # the kernel-checked family first, then the further strict variants (harness/schemas.py: strict()), then a mix
        pool = fam + schemas.strict()
        bundled = si < len(pool) or rng.random() < 0.6
        info = pool[si % len(pool)] if bundled else schemas.random_schema(rng)
        if bundled and si % len(pool) >= len(fam):
            ctx.count("strict-variant-schemas")
        schema = info.schema
        val = validator(schema)
        ctx.driver.add_schema(info)
        docs = [gen.gen_doc(rng, schema, budget=rng.choice([6, 12, 25])) for _ in range(ctx.budget(5, 10))]
        if bundled and si < 2 * len(fam):
            # the fill / wrap choices the Fitter depends on (lean/PM/FillOrder.lean), exactly, on a private random stream
            frags = [n.content for d_ in docs for n in [d_] + [d_.child(i) for i in range(d_.child_count)]]
            rangeplan.tie_fill_wrap(ctx, info, random.Random(ctx.seed * 1000 + si), frags, reqs, metas)
        for d in docs:
            old = doc_tokens(d)
            for _ in range(ctx.budget(14, 40)):
                if ctx.time_left() < 0:
                    break
                name, args, thunk = ops.plan_op(rng, info, d, docs, ops.REPLACE_FAMILY)
                if _ % 5 == 4 or (_ % 2 == 1 and info.name in ("table", "heading-body", "iso", "list", "title")):
                    # aimed (private random stream): insert a slice whose first (last) child is an empty open node with siblings
                    rng_e = random.Random(ctx.seed * 9176 + si * 131 + _)
                    sl_e = gen.end_of_node_slice(rng_e, docs)
                    if sl_e is not None:
                        p_e = rng_e.choice(gen.aligned_positions(d))
                        q_e = p_e if rng_e.random() < 0.7 else rng_e.choice([x for x in gen.aligned_positions(d) if x >= p_e])
                        name, args = "replace", [p_e, q_e, sl_e]
                        thunk = (lambda a_, b_, s_: lambda tr: tr.replace(a_, b_, s_))(p_e, q_e, sl_e)
                        ctx.count("aimed_end_of_node_slices")
                f, t, req = requested(name, args, schema)
                # planning code in front of the Fitter (exact tie with lean/PM/RangeOps.lean): fits_trivially / replace_step's
                # trivial path for the requested (from, to, slice), and the range delete_range hands to Transform.delete
                rangeplan.tie_trivial(ctx, info, d, f, t, req, reqs, metas)
                rangeplan.tie_delete_range(ctx, info, d, f, t, reqs, metas)
                # replace_range / replace_range_with as wholes (lean/PM/ReplaceRange.lean): every `(from, to, slice)` they
                # hand to `Transform.replace`, in order, exactly — for the request of whichever operation was planned
                rangeplan.tie_replace_range(ctx, info, d, f, t, req, reqs, metas)
                if name in ("replace_with", "replace_range_with", "insert"):
                    rangeplan.tie_replace_range_with(ctx, info, d, f, t, args[-1], reqs, metas)
                if req.open_start and rng_rr.random() < 0.3:
                    rangeplan.tie_close_fragment(ctx, info, req, reqs, metas)
                if bundled:
                    # the Fitter itself (lean/PM/Fitter.lean): the step replace_step emits for the request, exactly
                    rst = rangeplan.tie_replace_step(ctx, info, d, f, t, req, reqs, metas)
                    # the guards of the totality theorems (Props/C11.lean), exactly, and: guard true => it did not raise
                    rangeplan.tie_fit_guards(ctx, info, d, f, t, req, rst, reqs, metas)
                    # the guards of fit_no_raise (lean/PM/FitRaiseGuard.lean), exactly, and: hypotheses true => it returned
                    rangeplan.tie_fit_raise(ctx, info, d, f, t, req, rst, reqs, metas)
                    # well-formedness of the emitted step (StepWF / aroundShape), exactly, and the payload of the real step
                    rangeplan.tie_fit_emit(ctx, info, val, d, f, t, req, reqs, metas)
                    if not (f == t and not req.size):
                        # `trivialFit_replace_applies`: a closed slice that fits trivially applies (hypotheses exactly)
                        delguards.tie_trivial_applies(ctx, info, del_guards.get(info.name), d, f, t, req, reqs, metas)
                        # `replace_applies_direct`: a closed slice the node `from` is in accepts as it stands — every
                        # emitted step applies (hypotheses exactly, the whole operation's answer class exactly)
                        delguards.tie_direct_applies(ctx, info, del_guards.get(info.name), d, f, t, req, reqs, metas)
                    if name in ("delete_range", "delete"):
                        # delete_range as a whole (widening + Fitter): the recorded step, exactly
                        rangeplan.tie_delete_range_step(ctx, info, d, f, t, reqs, metas)
                        # `delete_never_raises` / `deleteRange_never_raises`: hypotheses exactly, the statement relationally
                        delguards.tie_delete_applies(ctx, info, del_guards.get(info.name), d, f, t, name, reqs, metas)
                if not bundled and rng_fr.random() < 0.5:
                    # random schemas: the guards of fit_no_raise (exact) and "hypotheses true => replace_step returned"
                    # (relational), on a private random stream; here the stale `open_start` of `place_nodes` does occur
                    rst_ = outcome(lambda: rangeplan.replace_step(d, f, t, req))[0]
                    rangeplan.tie_fit_raise(ctx, info, d, f, t, req, rst_, reqs, metas)
                    ctx.count("fit raise: random-schema requests")
                tr = Transform(d)
                st, val_, added = ops.run_op(tr, thunk)
                replay = {"schema": info.name, "doc": d.to_json(), **ops.describe(name, args)}
                ctx.case([name, info.name, d.to_json(), ops.describe(name, args)["args"]], nontrivial=added > 0,
                         sample={"op": name, "schema": info.name, "args": [str(a)[:80] for a in ops.describe(name, args)["args"]],
                                 "outcome": st, "steps": [s.to_json() for s in tr.steps][:2]})
                ctx.count(f"{name}:{st}:{min(added, 2)}")
                if st != "ok":
                    # totality is claimed for the bundled-family schemas only; for random schemas the property speaks about
                    # operations that return (e.g. the fitter does not terminate on a slice whose inline node has content —
                    # also upstream — which is counted here, not reported)
                    if bundled:
                        ctx.violation("raises", f"{name} raised {val_} on in-range positions with a schema-valid payload", replay)
                    else:
                        ctx.count("random-schema:not-returned:" + st)
                    continue
                new = doc_tokens(tr.doc)
                bad = None
                stc, err = outcome(tr.doc.check)
                prob = val.problem(tr.doc.to_json())
                if stc != "ok" or prob:
                    bad = f"result is not schema-valid: {prob or err}"
                else:
                    pre, suf = content(old[:f]), content(old[t:])
                    cn = content(new)
                    if added == 0:
                        if cn != content(old):
                            bad = "no step was recorded but the document changed"
                    elif cn[:len(pre)] != pre:
                        bad = "text/leaf nodes before the range start are not preserved in order"
                    else:
                        rest = cn[len(pre):]
                        text_rest = [x for x in rest if x[0] == "u"]
                        text_suf = [x for x in suf if x[0] == "u"]
                        if not is_subseq(suf, rest):
                            bad = "text/leaf nodes after the range end are not all present in order"
                        elif text_suf and text_rest[len(text_rest) - len(text_suf):] != text_suf:
                            bad = "text after the range end was modified or text was added after it"
                        else:
                            mid = text_rest[:len(text_rest) - len(text_suf)]
                            want = [x for x in slice_content(schema, req) if x[0] == "u"]
                            if not is_subseq(mid, want):
                                bad = "text between them is not an in-order subsequence of the inserted slice's text"
                            elif not want and mid:
                                bad = "deleting a range added text"
                if bad:
                    ctx.violation("content", f"{name}: {bad}", dict(replay, result=tr.doc.to_json(), steps=[s.to_json() for s in tr.steps]))
                # model: exact tie of apply on every emitted step + the monitor on single-step operations
                for k, s in enumerate(tr.steps):
                    nxt = tr.docs[k + 1] if k + 1 < len(tr.docs) else tr.doc
                    reqs.append({"op": "apply", "s": info.lean_id, "doc": info.node(tr.docs[k]), "step": info.step(s)})
                    metas.append(("apply", replay, info.node(nxt)))
                if len(tr.steps) == 1:
                    reqs.append({"op": "monitor", "k": "respects", "doc": info.node(d), "from": f, "to": t,
                                 "slice": info.slice(req), "steps": [info.step(tr.steps[0])]})
                    metas.append(("respects", dict(replay, step=tr.steps[0].to_json()), [True]))
    flush()
    return ctx.finish(
        rule="a case is (schema, valid document, one replace-family operation with in-range pair-aligned positions and a "
             "schema-valid slice cut from another document / a valid node); bundled-family schemas (totality) and random "
             "well-founded schemas (validity, content preservation); non-trivial = a step was emitted",
        level_note="totality ('never raises'): the fitting algorithm is modelled (lean/PM/Fitter.lean, exact tie). Theorems of the model: "
                   "the loop of Fitter.fit terminates and its fuel is exact (outOfFuel iff the loop reaches the one state it maps to itself); "
                   "replace_step returns for every deletion and for every closed slice of leaf/text nodes on a valid document "
                   "(delete_total, deleteRange_total, insertInline_total). For other slices absence of exceptions is decided by search, "
                   "with the relational tie 'guards true => replace_step did not raise and did return' (op fitGuards)")


if __name__ == "__main__":
    core.main("C11", run)
